From Coq Require Import List NArith Bool Arith Lia.
Import ListNotations.
From Adeu Require Import Str ListX Chars Doc Norm Prims ParaMachine Project DocOps Review MarkupX Inst Engine Tree Split C01Core ReviewProofs DocProofs.

(* ---------- decimal ids: printing then parsing is the identity ---------- *)
Lemma digit_of_small m : m < 10 -> digit_of (N.of_nat (48 + m)) = Some m.
Proof. intros H. do 10 (destruct m as [|m]; [reflexivity|]). lia. Qed.
Lemma digits_spec : forall f n, n < f -> exists k, forall acc a, nat_of_str_aux (digits f n acc) a = nat_of_str_aux acc (a * k + n).
Proof. induction f as [|f IH]; intros n Hn; [lia|]. cbn [digits].
  destruct (n <? 10) eqn:E.
  - apply Nat.ltb_lt in E. exists 10. intros acc a. cbn [nat_of_str_aux]. rewrite Nat.mod_small by lia. rewrite digit_of_small by lia. f_equal. lia.
  - apply Nat.ltb_ge in E. assert (Hd : n / 10 < f). { apply Nat.div_lt_upper_bound; lia. }
    destruct (IH (n / 10) Hd) as [k Hk]. exists (10 * k). intros acc a. rewrite Hk. cbn [nat_of_str_aux].
    rewrite digit_of_small by (apply Nat.mod_upper_bound; lia). f_equal.
    pose proof (Nat.div_mod n 10 ltac:(lia)). lia. Qed.
Lemma digits_nonempty f n acc : acc <> [] -> digits f n acc <> [].
Proof. revert n acc; induction f as [|f IH]; intros n acc H; cbn [digits]; auto. destruct (n <? 10); [discriminate|]. apply IH. discriminate. Qed.
Theorem nat_of_str_of_nat n : nat_of_str (str_of_nat n) = Some n.
Proof. unfold str_of_nat, show_nat, nat_of_str.
  destruct (digits_spec (S n) n ltac:(lia)) as [k Hk]. specialize (Hk [] 0). cbn [nat_of_str_aux] in Hk. simpl Nat.mul in Hk. simpl Nat.add in Hk.
  destruct (digits (S n) n []) eqn:E.
  - exfalso. cbn [digits] in E. destruct (n <? 10); [discriminate|]. revert E. apply digits_nonempty. discriminate.
  - exact Hk. Qed.
Print Assumptions nat_of_str_of_nat.

(* ---------- the session-rejected view and the relation every engine step preserves ---------- *)
Section EngInv.
Variable cur0 c0 : nat.          (* highest revision id / first free comment id when the session starts *)
Definition Smark (m : mark) : bool := match nat_of_str (m_id m) with Some k => cur0 <? k | None => false end.
Definition Ccom (i : str) : bool := match nat_of_str i with Some k => c0 <=? k | None => false end.
Notation rejS := (rej Smark Ccom).
Definition ptape (p : para) := (p_id p, p_ppr p, p_style p, rejS (atoms_l [] (p_nodes p))).
Definition Rel (d d' : doc) : Prop :=
  map ptape (doc_paras d') = map ptape (doc_paras d) /\ d_stories (skeleton d') = d_stories (skeleton d) /\
  exists cs, d_comments d' = d_comments d ++ cs /\ Forall (fun c => Ccom (c_id c) = true) cs.
Lemma Rel_refl d : Rel d d.
Proof. split; [reflexivity|]. split; [reflexivity|]. exists []. split; [now rewrite app_nil_r|constructor]. Qed.
Lemma Rel_trans a b c : Rel a b -> Rel b c -> Rel a c.
Proof. intros (A1 & A2 & cs1 & A3 & A4) (B1 & B2 & cs2 & B3 & B4). split; [congruence|]. split; [congruence|].
  exists (cs1 ++ cs2). split; [rewrite B3, A3; now rewrite app_assoc|now apply Forall_app]. Qed.
Lemma Rel_upd p d : session_prim Smark Ccom p = true -> Rel d (upd_doc (prim_fun p) d).
Proof. intros Hp. unfold upd_doc. split; [|split].
  - rewrite doc_paras_map, map_map. apply map_ext. intros q. unfold ptape, with_nodes. cbn [p_id p_ppr p_style p_nodes]. f_equal.
    apply (upd_l_rej Smark Ccom). intros n ns st E. exact (prim_local Smark Ccom p Hp n ns st E).
  - f_equal. apply skeleton_map. reflexivity.
  - exists []. split; [now rewrite app_nil_r|constructor]. Qed.
Lemma Rel_fresh d : Rel d (fst (fresh d)).
Proof. unfold fresh. cbn [fst]. split; [reflexivity|]. split; [reflexivity|]. exists []. split; [now rewrite app_nil_r|constructor]. Qed.
Lemma Rel_split d uid k : Rel d (fst (fst (do_split d uid k))).
Proof. unfold do_split. pose proof (Rel_fresh d) as F. destruct (fresh d) as [d1 nu]. cbn [fst] in *.
  eapply Rel_trans; [exact F|]. exact (Rel_upd (PSplit uid nu k) d1 eq_refl). Qed.

Ltac brk := match goal with
  | |- context[match ?x with _ => _ end] => destruct x eqn:?
  | |- context[if ?x then _ else _] => destruct x eqn:?
  end.
Lemma Rel_resolve d sp a b : Rel d (fst (fst (resolve d sp a b))).
Proof. unfold resolve.
  destruct (filter o_real _) as [|first rest] eqn:Er; [apply Rel_refl|].
  set (ro := offset_in_run sp first + (a - o_start first)).
  destruct (0 <? ro) eqn:E0.
  - pose proof (Rel_split d (o_uid first) ro) as S1. destruct (do_split d (o_uid first) ro) as [[d' l] r]. cbn [fst] in S1.
    repeat (brk; cbn [fst]; try exact S1).
    all: try (match goal with H : do_split ?dd ?u ?k = (?d2, _, _) |- _ => pose proof (Rel_split dd u k) as S2; rewrite H in S2; cbn [fst] in S2; exact (Rel_trans _ _ _ S1 S2) end).
  - repeat (brk; cbn [fst]; try apply Rel_refl).
    all: try (match goal with H : do_split ?dd ?u ?k = (?d2, _, _) |- _ => pose proof (Rel_split dd u k) as S2; rewrite H in S2; cbn [fst] in S2; exact S2 end).
Qed.
Lemma Rel_anchor d sp i : Rel d (fst (insertion_anchor d sp i)).
Proof. unfold insertion_anchor.
  repeat (brk; cbn [fst]; try apply Rel_refl).
  all: try (match goal with H : do_split ?dd ?u ?k = (?d2, _, _) |- _ => pose proof (Rel_split dd u k) as S2; rewrite H in S2; cbn [fst] in S2; exact S2 end).
Qed.

(* ---------- engine state invariant ---------- *)
Variable d0 : doc.
Definition Inv (e : eng) : Prop := Rel d0 (e_doc e) /\ cur0 <= e_cur e /\ c0 <= e_next_c e.
Lemma Inv_with_doc e d : Inv e -> Rel (e_doc e) d -> Inv (with_doc e d).
Proof. intros (A & B & C) R. split; [exact (Rel_trans _ _ _ A R)|]. split; assumption. Qed.
Lemma new_mark_inv e : Inv e -> Inv (fst (new_mark e)) /\ Smark (snd (new_mark e)) = true.
Proof. intros (A & B & C). unfold new_mark. cbn [fst snd]. split; [split; [exact A|split; cbn; lia]|].
  unfold Smark. cbn [m_id]. rewrite nat_of_str_of_nat. apply Nat.ltb_lt. lia. Qed.
Lemma fresh_e_inv e : Inv e -> Inv (fst (fresh_e e)).
Proof. intros H. unfold fresh_e. pose proof (Rel_fresh (e_doc e)) as F. destruct (fresh (e_doc e)) as [d u]. cbn [fst] in *. now apply Inv_with_doc. Qed.
Lemma delete_run_inv e uid : Inv e -> Inv (fst (delete_run e uid)).
Proof. intros H. unfold delete_run.
  pose proof (fresh_e_inv e H) as H1. destruct (fresh_e e) as [e1 du]. cbn [fst] in H1.
  destruct (new_mark_inv e1 H1) as [H2 Hm]. destruct (new_mark e1) as [e2 m]. cbn [fst snd] in *.
  apply Inv_with_doc; [exact H2|]. exact (Rel_upd (PWrapDel uid du m) (e_doc e2) Hm). Qed.
(* the w:ins node built for inserted text carries a session mark *)
Definition session_ins (n : node) : Prop := exists iu m runs, n = ins_node iu m runs /\ Smark m = true.
Lemma fold_fresh_inv {A} (f : eng -> A -> eng) (g : A -> list (nat * rpr * list rchild) -> nat -> list (nat * rpr * list rchild)) : True. Proof. exact I. Qed.
Lemma ins_inline_inv e text anc sup : Inv e -> Inv (fst (ins_inline e text anc sup)) /\ session_ins (snd (ins_inline e text anc sup)).
Proof. intros H. unfold ins_inline.
  set (segs := parse_inline _ _ _ _ _ _).
  assert (G : forall l e0 rs, Inv e0 ->
            Inv (fst (fold_left (fun acc seg => let '(e0, rs) := acc in let '(t, b, i) := seg in
                        let '(e0', u) := fresh_e e0 in (e0', rs ++ [(u, apply_run_props anc b i sup, [CT t])])) l (e0, rs)))).
  { induction l as [|[[t b] i] l IH]; intros e0 rs H0; [exact H0|]. cbn [fold_left].
    pose proof (fresh_e_inv e0 H0) as H1. destruct (fresh_e e0) as [e0' u]. cbn [fst] in H1. now apply IH. }
  specialize (G segs e [] H). destruct (fold_left _ segs (e, [])) as [e1 runs]. cbn [fst] in G.
  pose proof (fresh_e_inv e1 G) as H2. destruct (fresh_e e1) as [e2 iu]. cbn [fst] in H2.
  destruct (new_mark_inv e2 H2) as [H3 Hm]. destruct (new_mark e2) as [e3 m]. cbn [fst snd] in *.
  split; [exact H3|]. exists iu, m, runs. split; auto. Qed.
Lemma place_after_inv e uid n : Inv e -> session_ins n -> Inv (place_after e uid n).
Proof. intros H (iu & m & runs & -> & Hm). unfold place_after. apply Inv_with_doc; auto. exact (Rel_upd (PInsAfter uid iu m runs) (e_doc e) Hm). Qed.
Lemma place_before_inv e uid n : Inv e -> session_ins n -> Inv (place_before e uid n).
Proof. intros H (iu & m & runs & -> & Hm). unfold place_before. apply Inv_with_doc; auto. exact (Rel_upd (PInsBefore uid iu m runs) (e_doc e) Hm). Qed.
Lemma attach_inv e su eu text : Inv e -> Inv (attach e su eu text).
Proof. intros (A & B & C). unfold attach. destruct text as [|c t]; [split; auto|].
  set (cid := str_of_nat (e_next_c e)).
  assert (Hc : Ccom cid = true). { unfold Ccom, cid. rewrite nat_of_str_of_nat. apply Nat.leb_le. exact C. }
  set (d1 := {| d_stories := d_stories (e_doc e); d_next_uid := d_next_uid (e_doc e); d_comments := d_comments (e_doc e) ++ _ |}).
  assert (R1 : Rel (e_doc e) d1).
  { split; [reflexivity|]. split; [reflexivity|]. eexists. split; [reflexivity|]. constructor; [exact Hc|constructor]. }
  pose proof (Rel_fresh d1) as R2. destruct (fresh d1) as [d2 ru]. cbn [fst] in R2.
  split; [|split; cbn; lia]. cbn [e_doc].
  eapply Rel_trans; [exact A|]. eapply Rel_trans; [exact R1|]. eapply Rel_trans; [exact R2|].
  exact (Rel_upd (PAnchor su eu cid ru rpr_cref) d2 Hc). Qed.

Definition InvS (s : est) : Prop := Inv (s_eng s).
Lemma fold_delete_inv : forall work e ds, Inv e ->
  Inv (fst (fold_left (fun acc u => let '(e0, ds) := acc in let '(e0', du) := delete_run e0 u in (e0', ds ++ [du])) work (e, ds))).
Proof. induction work as [|u work IH]; intros e ds H; [exact H|]. cbn [fold_left].
  pose proof (delete_run_inv e u H) as H1. destruct (delete_run e u) as [e' du]. cbn [fst] in H1. now apply IH. Qed.
Lemma apply_indexed_inv s uc st tg nw cm o : InvS s -> InvS (fst (apply_indexed s uc st tg nw cm o)).
Proof. intros H. unfold InvS in *. unfold apply_indexed.
  set (sp := if uc then _ else _). set (e := s_eng s) in *.
  destruct (match _ with Some c => is_some_nonempty (o_ins c) | None => false end); [exact H|].
  destruct (negb (inline_text nw)); [exact H|].
  destruct (match o with Some x => x | None => _ end).
  - (* insertion *)
    pose proof (Rel_anchor (e_doc e) sp st) as RA. destruct (insertion_anchor (e_doc e) sp st) as [d1 a0]. cbn [fst] in RA.
    pose proof (Inv_with_doc e d1 H RA) as H1.
    match goal with |- context[let '(a, before) := ?X in _] => destruct X as [a before] end.
    destruct a as [au|]; [|exact H1].
    destruct (negb (is_direct au d1)); [exact H|].
    destruct before.
    + destruct (ins_inline_inv (with_doc e d1) nw (run_rpr au d1) false H1) as [H2 Hi].
      destruct (ins_inline (with_doc e d1) nw (run_rpr au d1) false) as [e2 ins]. cbn [fst snd] in *. cbn [fst set_eng s_eng].
      apply attach_inv. now apply place_before_inv.
    + match goal with |- context[ins_inline (with_doc e d1) nw ?st false] => 
        destruct (ins_inline_inv (with_doc e d1) nw st false H1) as [H2 Hi]; destruct (ins_inline (with_doc e d1) nw st false) as [e2 ins] end.
      cbn [fst snd] in *. cbn [fst set_eng s_eng]. apply attach_inv. now apply place_after_inv.
  - (* deletion *)
    pose proof (Rel_resolve (e_doc e) sp st (st + length tg)) as RR. destruct (resolve (e_doc e) sp st (st + length tg)) as [[d1 work] modif]. cbn [fst] in RR.
    pose proof (Inv_with_doc e d1 H RR) as H1.
    set (s1 := if modif then _ else _).
    assert (Hs1 : Inv (s_eng s1)) by (unfold s1; destruct modif, uc; exact H1).
    destruct work as [|w0 work']; [exact Hs1|].
    destruct (negb (same_para_direct d1 (w0 :: work'))); [exact H|].
    pose proof (fold_delete_inv (w0 :: work') (s_eng s1) [] Hs1) as HF.
    destruct (fold_left _ (w0 :: work') (s_eng s1, [])) as [e2 dels]. cbn [fst] in HF.
    cbn [fst set_eng s_eng]. now apply attach_inv.
  - (* modification *)
    pose proof (Rel_resolve (e_doc e) sp st (st + length tg)) as RR. destruct (resolve (e_doc e) sp st (st + length tg)) as [[d1 work] modif]. cbn [fst] in RR.
    pose proof (Inv_with_doc e d1 H RR) as H1.
    set (s1 := if modif then _ else _).
    assert (Hs1 : Inv (s_eng s1)) by (unfold s1; destruct modif, uc; exact H1).
    destruct work as [|w0 work']; [exact Hs1|].
    destruct (negb (same_para_direct d1 (w0 :: work'))); [exact H|].
    pose proof (fold_delete_inv (w0 :: work') (s_eng s1) [] Hs1) as HF.
    destruct (fold_left _ (w0 :: work') (s_eng s1, [])) as [e2 dels]. cbn [fst] in HF.
    destruct nw as [|c nw']; [exact HF|].
    match goal with |- context[ins_inline e2 ?t ?r ?b] => destruct (ins_inline_inv e2 t r b HF) as [H2 Hi]; destruct (ins_inline e2 t r b) as [e3 ins] end.
    cbn [fst snd] in *. cbn [fst set_eng s_eng]. apply attach_inv. now apply place_after_inv.
Qed.

Lemma locate_inv s tg orc : InvS s -> InvS (snd (fst (locate s tg orc))).
Proof. intros H. unfold locate. destruct (find_sub tg (map_text (s_raw s)) 0); [exact H|].
  destruct orc as [|a r]; (match goal with |- context[find_sub tg ?a 0] => destruct (find_sub tg a 0) end; [exact H|]).
  - match goal with |- context[find_match ?a ?b ?c] => destruct (find_match a b c) end. exact H.
  - destruct a; [exact H|]. match goal with |- context[find_match ?a ?b ?c] => destruct (find_match a b c) end. exact H. Qed.
Lemma apply_located_inv s uc st ml nw cm : InvS s -> InvS (fst (apply_located s uc st ml nw cm)).
Proof. intros H. unfold apply_located.
  repeat (match goal with |- context[if ?x then _ else _] => destruct x end; try exact H); try (apply apply_indexed_inv; exact H).
Qed.
Lemma apply_heuristic_inv s tg nw cm orc : InvS s -> InvS (fst (fst (apply_heuristic s tg nw cm orc))).
Proof. intros H. unfold apply_heuristic. destruct tg as [|c tg']; [exact H|].
  pose proof (locate_inv s (c :: tg') orc H) as HL. destruct (locate s (c :: tg') orc) as [[[m uc] s1] orc2]. cbn [fst snd] in HL.
  destruct m as [[st ml]|]; [|exact HL]. cbn [fst]. now apply apply_located_inv. Qed.
Lemma rebuild_inv s : InvS s -> InvS (rebuild s). Proof. auto. Qed.

(* ---------- counting: every submitted edit is counted exactly once (unless the model stops at an out-of-scope case) ---------- *)
Definition hstate := (est * nat * nat * nat * list fm * list (nat * nat))%type.
Definition h_ok (k : nat) (a : hstate) : Prop :=
  let '(s, ap, sk, out, _, _) := a in InvS s /\ (out = 0 -> ap + sk = k).
Lemma step_heur_ok k a edp : h_ok k a -> h_ok (S k) (step_heur a edp).
Proof. destruct a as [[[[[s ap] sk] out] orc] occ]. destruct edp as [ed rng]. intros [HI Hc]. unfold step_heur.
  destruct out as [|out']; [|split; [exact HI|discriminate]]. cbn [Nat.eqb negb]. specialize (Hc eq_refl).
  destruct (match rng with Some (a, b) => overl occ a b | None => false end); [split; [exact HI|intros _; lia]|].
  pose proof (apply_heuristic_inv s (ed_target ed) (ed_new ed) (ed_comment ed) orc HI) as HH.
  destruct (apply_heuristic s _ _ _ orc) as [[s' oc] orc']. cbn [fst] in HH. destruct oc; (split; [exact HH|]); intros E; try lia. Qed.
Lemma fold_heur_ok : forall es k a, h_ok k a -> h_ok (k + length es) (fold_left step_heur es a).
Proof. induction es as [|ed es IH]; intros k a H; cbn [fold_left length]; [now rewrite Nat.add_0_r|].
  replace (k + S (length es)) with (S k + length es) by lia. apply IH. now apply step_heur_ok. Qed.
Definition istate := (est * nat * nat * nat * list (nat * nat))%type.
Definition i_ok (k : nat) (a : istate) : Prop := let '(s, ap, sk, out, _) := a in InvS s /\ (out = 0 -> ap + sk = k).
Lemma step_idx_ok k a ed : i_ok k a -> i_ok (S k) (step_idx a ed).
Proof. destruct a as [[[[s ap] sk] out] occ]. intros [HI Hc]. unfold step_idx.
  destruct out as [|out']; [|split; [exact HI|discriminate]]. cbn [Nat.eqb negb]. specialize (Hc eq_refl).
  destruct (overl occ _ _); [split; [exact HI|intros _; lia]|].
  match goal with |- context[apply_indexed ?a ?b ?c ?d ?e ?f ?g] => pose proof (apply_indexed_inv a b c d e f g HI) as HH; destruct (apply_indexed a b c d e f g) as [s' oc] end.
  cbn [fst] in HH. destruct oc; (split; [exact HH|]); intros E; try lia. Qed.
Lemma fold_idx_ok : forall es k a, i_ok k a -> i_ok (k + length es) (fold_left step_idx es a).
Proof. induction es as [|ed es IH]; intros k a H; cbn [fold_left length]; [now rewrite Nat.add_0_r|].
  replace (k + S (length es)) with (S k + length es) by lia. apply IH. now apply step_idx_ok. Qed.
End EngInv.

(* ---------- the engine on a whole batch ---------- *)
Lemma sort_by_length {A} (lt : A -> A -> bool) l : length (sort_by lt l) = length l.
Proof. unfold sort_by. assert (G : forall l acc, length (fold_left (fun acc x => insert_sorted lt x acc) l acc) = length acc + length l).
  { induction l0 as [|x l0 IH]; intros acc; simpl; [lia|]. rewrite IH.
    assert (E : length (insert_sorted lt x acc) = S (length acc)). { induction acc as [|y acc IHa]; simpl; auto. destruct (lt x y); simpl; auto. }
    lia. }
  now rewrite G. Qed.
Lemma filter_split_length {A} (p : A -> bool) l : length (filter p l) + length (filter (fun x => negb (p x)) l) = length l.
Proof. induction l as [|x l IH]; simpl; auto. destruct (p x); simpl; lia. Qed.

Theorem engine_rel d author ts edits orc :
  let nd := normalize_doc d in
  let '(d', ap, sk, out) := apply_edits d author ts edits orc in
  Rel (scan_ids nd) (next_comment_id nd) nd d' /\ (out = 0 -> ap + sk = length edits).
Proof. cbn zeta. unfold apply_edits.
  set (nd := normalize_doc d). set (cur0 := scan_ids nd). set (c0 := next_comment_id nd).
  set (e := mk_engine d author ts).
  assert (He : Inv cur0 c0 nd e). { unfold e, mk_engine. fold nd. split; [apply Rel_refl|]. cbn. split; unfold cur0, c0; lia. }
  set (s0 := {| s_eng := e; s_raw := _; s_clean := None; s_cm0 := _; s_cmc := [] |}).
  set (indexed := filter _ edits). set (heur := filter (fun x => match ed_index x with Some _ => false | None => true end) edits).
  assert (Hlen : length indexed + length heur = length edits).
  { unfold indexed, heur. rewrite <- (filter_split_length (fun x => match ed_index x with Some _ => true | None => false end) edits). f_equal.
    apply f_equal. apply filter_ext. intros x. destruct (ed_index x); reflexivity. }
  pose proof (fold_idx_ok cur0 c0 nd (sort_idx_desc indexed) 0 (s0, 0, 0, 0, []) (conj He (fun _ => eq_refl))) as HI.
  unfold sort_idx_desc in HI at 1. rewrite sort_by_length in HI. cbn [Nat.add] in HI.
  destruct (fold_left step_idx (sort_idx_desc indexed) (s0, 0, 0, 0, [])) as [[[[s1 ap1] sk1] out1] occ1]. destruct HI as [HI1 HI2].
  destruct heur as [|h heur'] eqn:Eh.
  - split; [exact (proj1 HI1)|]. intros E. rewrite (HI2 E). simpl in Hlen. lia.
  - destruct (plan (map_text (s_raw (rebuild s1))) (sort_len_desc (h :: heur')) orc) as [planned orc1] eqn:Ep.
    assert (Lp : length planned = length (h :: heur')).
    { rewrite <- (sort_by_length (fun a b => length (ed_target b) <? length (ed_target a)) (h :: heur')). fold (sort_len_desc (h :: heur')).
      revert planned orc orc1 Ep. generalize (map_text (s_raw (rebuild s1))). induction (sort_len_desc (h :: heur')) as [|ed l IHl]; intros tx planned orc0 orc1' Ep; cbn [plan] in Ep.
      - inversion Ep. reflexivity.
      - destruct (ed_target ed).
        + destruct (plan tx l orc0) as [l' o'] eqn:E1. inversion Ep; subst. cbn [length]. f_equal. eapply IHl; eauto.
        + destruct (find_match tx (c :: s) orc0) as [m orcx]. destruct (plan tx l orcx) as [l' o'] eqn:E1. inversion Ep; subst. cbn [length]. f_equal. eapply IHl; eauto. }
    pose proof (fold_heur_ok cur0 c0 nd planned (length indexed) (rebuild s1, ap1, sk1, out1, orc1, occ1) (conj HI1 HI2)) as HH.
    rewrite Lp in HH.
    destruct (fold_left step_heur planned _) as [[[[[s2 ap2] sk2] out2] orc2] occ2]. destruct HH as [HH1 HH2].
    split; [exact (proj1 HH1)|]. intros E. rewrite (HH2 E). exact Hlen. Qed.
Print Assumptions engine_rel.

(* ---------- the input carries no session mark / comment: rejecting the session leaves it untouched ---------- *)
Lemma max_list_ge : forall l x, In x l -> x <= max_list l.
Proof. unfold max_list. assert (G : forall l a x, In x l \/ x <= a -> x <= fold_left Nat.max l a).
  { induction l as [|y l IH]; intros a x [H|H]; simpl in *; try contradiction; auto.
    - destruct H as [->|H]; apply IH; [right; lia|left; exact H].
    - apply IH. right. lia. }
  intros l x H. apply G. now left. Qed.
Section InputFixed.
Variable cur0 c0 : nat.
Notation rejS := (rej (Smark cur0) (Ccom c0)).
Fixpoint marks_of (n : node) : list mark := match n with NWrap _ _ m cs => m :: flat_map marks_of cs | _ => [] end.
Definition anchor_ids_kid (k : rchild) : list str := match k with CRef i => [i] | _ => [] end.
Fixpoint anchor_ids (n : node) : list str :=
  match n with
  | NRun _ _ ks => flat_map anchor_ids_kid ks
  | NWrap _ _ _ cs => flat_map anchor_ids cs
  | NCrs i | NCre i => [i]
  | NOther _ => [] end.
Definition old_stack (st : list (wkind * mark)) : Prop := Forall (fun km => Smark cur0 (snd km) = false) st.
Lemma strip_old st : old_stack st -> strip (Smark cur0) st = st.
Proof. unfold strip. induction 1 as [|km st H _ IH]; simpl; auto. now rewrite H, IH. Qed.
Lemma dead_old st : old_stack st -> dead (Smark cur0) st = false.
Proof. unfold dead. induction 1 as [|km st H _ IH]; simpl; auto. rewrite IH, H. destruct (fst km); reflexivity. Qed.
Lemma rej_fixed : forall n st, old_stack st -> Forall (fun m => Smark cur0 m = false) (marks_of n) ->
  Forall (fun i => Ccom c0 i = false) (anchor_ids n) -> rejS (atoms st n) = atoms st n.
Proof. induction n using node_ind'; intros st Hst Hm Ha; cbn [atoms].
  - cbn [anchor_ids] in Ha. clear Hm. induction k as [|x ks IHk]; [reflexivity|]. cbn [flat_map] in *. apply Forall_app in Ha as [Ha1 Ha2].
    unfold rej in *. rewrite flat_map_app, (IHk Ha2). f_equal.
    destruct x; cbn [kid_atoms flat_map rej_atom]; rewrite ?(dead_old _ Hst), ?(strip_old _ Hst); try reflexivity.
    + induction s as [|c s IHs]; simpl; auto. now rewrite (dead_old _ Hst), (strip_old _ Hst), IHs.
    + induction s as [|c s IHs]; simpl; auto. now rewrite (dead_old _ Hst), (strip_old _ Hst), IHs.
    + cbn [anchor_ids_kid] in Ha1. inversion Ha1; subst. now rewrite H1.
  - cbn [marks_of anchor_ids] in *. inversion Hm; subst. clear Hm.
    assert (Hst' : old_stack ((k, m) :: st)) by (constructor; auto).
    induction H as [|c cs Hc _ IHc]; [reflexivity|]. cbn [flat_map] in *.
    apply Forall_app in H3 as [M1 M2]. apply Forall_app in Ha as [A1 A2].
    unfold rej in *. rewrite flat_map_app. f_equal; [exact (Hc _ Hst' M1 A1)|exact (IHc A2 M2)].
  - cbn [anchor_ids] in Ha. inversion Ha; subst. unfold rej. cbn [flat_map rej_atom]. now rewrite H1, (dead_old _ Hst), (strip_old _ Hst).
  - cbn [anchor_ids] in Ha. inversion Ha; subst. unfold rej. cbn [flat_map rej_atom]. now rewrite H1, (dead_old _ Hst), (strip_old _ Hst).
  - unfold rej. cbn [flat_map rej_atom]. now rewrite (dead_old _ Hst), (strip_old _ Hst).
Qed.
End InputFixed.
(* every mark present when the session starts has an id <= scan_ids, hence is not a session mark *)
Lemma node_ids_marks n : forall m, In m (marks_of n) -> forall k, nat_of_str (m_id m) = Some k -> In k (node_ids n).
Proof. induction n using node_ind'; intros m0 Hin k0 Hk; cbn [marks_of node_ids] in *; try contradiction.
  destruct Hin as [<-|Hin]; [rewrite Hk; now left|]. apply in_or_app. right.
  apply in_flat_map in Hin as (c & Hc & Hin). apply in_flat_map. exists c. split; auto. rewrite Forall_forall in H. eapply H; eauto. Qed.
Theorem input_marks_old d p n : In p (doc_paras d) -> In n (p_nodes p) -> Forall (fun m => Smark (scan_ids d) m = false) (marks_of n).
Proof. intros Hp Hn. apply Forall_forall. intros m Hm. unfold Smark. destruct (nat_of_str (m_id m)) as [k|] eqn:E; auto.
  apply Nat.ltb_ge. apply max_list_ge. unfold scan_ids. apply in_flat_map. exists p. split; auto. apply in_flat_map. exists n. split; auto.
  eapply node_ids_marks; eauto. Qed.
Print Assumptions input_marks_old.

(* ---------- ids, comments, formatting: small facts used by C09 / C10 / C16 ---------- *)
Theorem new_mark_fresh e : let '(e', m) := new_mark e in
  nat_of_str (m_id m) = Some (S (e_cur e)) /\ e_cur e' = S (e_cur e) /\ m_author m = e_author e /\ m_date m = e_ts e.
Proof. unfold new_mark. cbn [m_id m_author m_date e_cur]. rewrite nat_of_str_of_nat. auto. Qed.
Theorem attach_one_comment e su eu c t :
  d_comments (e_doc (attach e su eu (c :: t))) =
  d_comments (e_doc e) ++ [{| c_id := str_of_nat (e_next_c e); c_author := e_author e; c_date := e_ts e; c_text := c :: t; c_parent := None |}]
  /\ e_next_c (attach e su eu (c :: t)) = S (e_next_c e).
Proof. unfold attach. cbn [e_doc e_next_c]. split; [|reflexivity].
  unfold fresh, upd_doc, map_doc. cbn [d_comments fst]. reflexivity. Qed.
Theorem attach_no_comment e su eu : attach e su eu [] = e.
Proof. reflexivity. Qed.
(* inherited formatting: every rPr token other than the bold / italic toggles survives apply_run_props, in order *)
Definition others (l : list (N * N)) : list (N * N) := filter (fun tv => negb (N.eqb (fst tv) t_b) && negb (N.eqb (fst tv) t_i)) l.
Lemma set_first_others tag v : (tag = t_b \/ tag = t_i) -> forall l done, others (set_first tag v l done) = others l.
Proof. intros Ht. induction l as [|[t v0] r IH]; intros done; [reflexivity|]. cbn [set_first]. destruct (N.eqb t tag && negb done) eqn:E.
  - apply andb_true_iff in E as [E _]. apply N.eqb_eq in E. subst t. unfold others in *. cbn [filter fst]. rewrite IH. destruct Ht as [-> | ->]; reflexivity.
  - unfold others in *. cbn [filter fst]. now rewrite IH. Qed.
Lemma set_prop_others tag on sup l : (tag = t_b \/ tag = t_i) -> others (set_prop tag on sup l) = others l.
Proof. intros Ht. unfold set_prop. destruct on.
  - destruct (existsb _ l); [now apply set_first_others|]. unfold others. rewrite filter_app. cbn [filter fst]. destruct Ht as [-> | ->]; cbn; now rewrite app_nil_r.
  - destruct sup; [now apply set_first_others|reflexivity]. Qed.
Theorem apply_run_props_inherits f b i sup :
  others (match apply_run_props f b i sup with Some l => l | None => [] end) = others (match f with Some l => l | None => [] end).
Proof. unfold apply_run_props. destruct (negb b && negb i && negb sup); [reflexivity|].
  rewrite set_prop_others by (now right). apply set_prop_others. now left. Qed.
Definition is_on (tag : N) (l : list (N * N)) : bool := existsb (fun tv => N.eqb (fst tv) tag && negb (N.eqb (snd tv) 0)) l.
Lemma set_first_on tag : forall l, existsb (fun tv => N.eqb (fst tv) tag) l = true -> is_on tag (set_first tag 2%N l false) = true.
Proof. unfold is_on. induction l as [|[t v] r IH]; [discriminate|]. cbn [existsb fst set_first]. destruct (N.eqb t tag) eqn:Et; cbn [andb negb orb].
  - intros _. cbn [existsb fst snd]. now rewrite Et.
  - intros H. cbn [existsb fst snd]. rewrite Et. cbn [andb orb]. now apply IH. Qed.
Lemma set_first_other_on tag tag' v : tag <> tag' -> forall l done, is_on tag (set_first tag' v l done) = is_on tag l.
Proof. intros Hne. unfold is_on. induction l as [|[t v0] r IH]; intros done; [reflexivity|]. cbn [set_first]. destruct (N.eqb t tag' && negb done) eqn:E.
  - apply andb_true_iff in E as [E _]. apply N.eqb_eq in E. subst t. cbn [existsb fst snd]. rewrite IH.
    assert (N.eqb tag' tag = false) by (apply N.eqb_neq; congruence). now rewrite H.
  - cbn [existsb fst snd]. now rewrite IH. Qed.
Theorem apply_run_props_bold f i sup : prop_on t_b (apply_run_props f true i sup) = true.
Proof. unfold apply_run_props. cbn [negb andb]. unfold prop_on. fold (is_on t_b (set_prop t_i i sup (set_prop t_b true sup (match f with Some l => l | None => [] end)))).
  set (l := match f with Some l => l | None => [] end).
  assert (G : is_on t_b (set_prop t_b true sup l) = true).
  { unfold set_prop. destruct (existsb (fun tv => N.eqb (fst tv) t_b) l) eqn:E; [now apply set_first_on|]. unfold is_on. rewrite existsb_app. cbn. now rewrite orb_true_r. }
  unfold set_prop at 1. destruct i.
  - destruct (existsb _ _); [rewrite set_first_other_on by discriminate; exact G|]. unfold is_on in *. rewrite existsb_app, G. reflexivity.
  - destruct sup; [rewrite set_first_other_on by discriminate; exact G|exact G]. Qed.
(* literal text: without a well-formed span the new text is inserted as one run, character for character *)
Theorem parse_inline_literal isspace isword fuel s b i : s <> [] -> search isspace isword s None 0 = None ->
  parse_inline isspace isword (S fuel) s b i = [(s, b, i)].
Proof. intros Hs H. cbn [parse_inline]. destruct s; [congruence|]. now rewrite H. Qed.
Print Assumptions apply_run_props_inherits.

(* ---------- C03: the map's text is the reader's text; resolving a range never changes the tape ---------- *)
Lemma offsets_text d : forall l off, map_text (offsets d l off) = flat_map sp_text l.
Proof. induction l as [|s l IH]; intros off; [reflexivity|]. cbn [offsets]. unfold map_text in *. cbn [flat_map o_text]. now rewrite IH. Qed.
Theorem map_text_is_extract clean d : map_text (build_map clean (d_comments d) d) = extract_u clean d.
Proof. unfold build_map. rewrite offsets_text. unfold extract_u, extract, full_text, doc_spans_u, with_comments.
  destruct d; reflexivity. Qed.
Lemma offsets_contiguous d : forall l off, 
  (fix chain (l : list ospan) (o : nat) : Prop := match l with [] => True | s :: r => o_start s = o /\ o_end s = o + length (o_text s) /\ chain r (o_end s) end) (offsets d l off) off.
Proof. induction l as [|s l IH]; intros off; [exact I|]. cbn [offsets o_start o_end o_text]. repeat split. apply IH. Qed.
Definition atape (p : para) := (p_id p, p_ppr p, p_style p, atoms_l [] (p_nodes p)).
Definition ARel (d d' : doc) : Prop := map atape (doc_paras d') = map atape (doc_paras d) /\ d_stories (skeleton d') = d_stories (skeleton d) /\ d_comments d' = d_comments d.
Lemma ARel_refl d : ARel d d. Proof. repeat split. Qed.
Lemma ARel_trans a b c : ARel a b -> ARel b c -> ARel a c.
Proof. intros (A1 & A2 & A3) (B1 & B2 & B3). repeat split; congruence. Qed.
Lemma ARel_upd f d : (forall n ns st, f n = Some ns -> atoms_l st ns = atoms st n) -> ARel d (upd_doc f d).
Proof. intros Hf. unfold upd_doc. split; [|split].
  - rewrite doc_paras_map, map_map. apply map_ext. intros q. unfold atape, with_nodes. cbn [p_id p_ppr p_style p_nodes]. f_equal.
    unfold upd_l, atoms_l. induction (p_nodes q) as [|n ns IH]; [reflexivity|]. cbn [flat_map]. rewrite flat_map_app, IH. f_equal. now apply upd_atoms.
  - f_equal. apply skeleton_map. reflexivity.
  - reflexivity. Qed.
Lemma ARel_fresh d : ARel d (fst (fresh d)). Proof. repeat split. Qed.
Lemma ARel_split d uid k : ARel d (fst (fst (do_split d uid k))).
Proof. unfold do_split. pose proof (ARel_fresh d) as F. destruct (fresh d) as [d1 nu]. cbn [fst] in *.
  eapply ARel_trans; [exact F|]. apply ARel_upd. intros n ns st E. exact (split_run_atoms _ _ _ _ _ st E). Qed.
Ltac brk2 := match goal with
  | |- context[match ?x with _ => _ end] => destruct x eqn:?
  | |- context[if ?x then _ else _] => destruct x eqn:?
  end.
Theorem resolve_keeps_tape d sp a b : ARel d (fst (fst (resolve d sp a b))).
Proof. unfold resolve.
  destruct (filter o_real _) as [|first rest] eqn:Er; [apply ARel_refl|].
  set (ro := offset_in_run sp first + (a - o_start first)).
  destruct (0 <? ro) eqn:E0.
  - pose proof (ARel_split d (o_uid first) ro) as S1. destruct (do_split d (o_uid first) ro) as [[d' l] r]. cbn [fst] in S1.
    repeat (brk2; cbn [fst]; try exact S1).
    all: try (match goal with H : do_split ?dd ?u ?k = (?d2, _, _) |- _ => pose proof (ARel_split dd u k) as S2; rewrite H in S2; cbn [fst] in S2; exact (ARel_trans _ _ _ S1 S2) end).
  - repeat (brk2; cbn [fst]; try apply ARel_refl).
    all: try (match goal with H : do_split ?dd ?u ?k = (?d2, _, _) |- _ => pose proof (ARel_split dd u k) as S2; rewrite H in S2; cbn [fst] in S2; exact S2 end).
Qed.
Theorem anchor_keeps_tape d sp i : ARel d (fst (insertion_anchor d sp i)).
Proof. unfold insertion_anchor.
  repeat (brk2; cbn [fst]; try apply ARel_refl).
  all: try (match goal with H : do_split ?dd ?u ?k = (?d2, _, _) |- _ => pose proof (ARel_split dd u k) as S2; rewrite H in S2; cbn [fst] in S2; exact S2 end).
Qed.
Print Assumptions resolve_keeps_tape.

(* ---------- histories: every session satisfies its single-step contract relative to the document it loaded ---------- *)
From Adeu Require Import History.
Definition session_contract (d : doc) (s : session) (d' : doc) : Prop :=
  match s with
  | SEdits a t es o => let nd := normalize_doc d in Rel (scan_ids nd) (next_comment_id nd) nd d'
  | SReview a t acts => exists ap sk, review_session d a t acts = (d', ap, sk) /\ ap + sk = length acts
  | SAcceptAll => d' = accept_all_doc (normalize_doc d)
  end.
Lemma run_session_contract d s : session_contract d s (run_session d s).
Proof. destruct s as [a t es o|a t acts|]; cbn [run_session session_contract].
  - pose proof (engine_rel d a t es o) as H. cbn zeta in H. destruct (apply_edits d a t es o) as [[[d' ap] sk] out]. exact (proj1 H).
  - pose proof (actions_count (reply_doc a t) (normalize_doc d) acts) as H. unfold review_session in *.
    destruct (apply_actions (reply_doc a t) (normalize_doc d) acts) as [[d' ap] sk]. exists ap, sk. auto.
  - reflexivity. Qed.
Fixpoint trace_ok (d : doc) (ss : list session) (tr : list doc) : Prop :=
  match ss, tr with
  | [], [] => True
  | s :: r, d' :: tr' => session_contract d s d' /\ trace_ok d' r tr'
  | _, _ => False end.
Theorem history_contracts : forall ss d, trace_ok d ss (run_history d ss).
Proof. induction ss as [|s r IH]; intros d; cbn [run_history trace_ok]; auto. split; [apply run_session_contract|apply IH]. Qed.
Print Assumptions history_contracts.
