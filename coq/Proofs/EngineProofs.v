From Coq Require Import List NArith Bool Arith Lia.
Import ListNotations.
From Adeu Require Import Str ListX Chars Doc Norm Prims ParaMachine Project DocOps Review MarkupX Inst Engine Tree Split C01Core ReviewProofs DocProofs BlockProofs.

(* ---------- decimal ids: printing then parsing is the identity ---------- *)
Lemma digit_of_small m : m < 10 -> digit_of (N.of_nat (48 + m)) = Some m.
Proof. intros H. do 10 (destruct m as [|m]; [reflexivity|]). lia. Qed.
Lemma digits_spec : forall f n, n < f -> exists k, forall acc a, nat_of_str_aux (digits f n acc) a = nat_of_str_aux acc (a * k + n).
Proof. induction f as [|f IH]; intros n Hn; [lia|]. cbn [digits].
  destruct (n <? 10) eqn:E.
  - apply Nat.ltb_lt in E. exists 10. intros acc a. cbn [nat_of_str_aux]. rewrite Nat.mod_small by lia. rewrite digit_of_small by lia. f_equal. lia.
  - apply Nat.ltb_ge in E. assert (Hd : n / 10 < f). { apply Nat.div_lt_upper_bound; lia. }
    destruct (IH (n / 10) Hd) as [k Hk]. exists (10 * k). intros acc a. rewrite Hk. cbn [nat_of_str_aux].
    rewrite digit_of_small by (apply Nat.mod_upper_bound; lia). f_equal.
    pose proof (Nat.div_mod n 10 ltac:(lia)). lia. Qed.
Lemma digits_nonempty f n acc : acc <> [] -> digits f n acc <> [].
Proof. revert n acc; induction f as [|f IH]; intros n acc H; cbn [digits]; auto. destruct (n <? 10); [discriminate|]. apply IH. discriminate. Qed.
Theorem nat_of_str_of_nat n : nat_of_str (str_of_nat n) = Some n.
Proof. unfold str_of_nat, show_nat, nat_of_str.
  destruct (digits_spec (S n) n ltac:(lia)) as [k Hk]. specialize (Hk [] 0). cbn [nat_of_str_aux] in Hk. simpl Nat.mul in Hk. simpl Nat.add in Hk.
  destruct (digits (S n) n []) eqn:E.
  - exfalso. cbn [digits] in E. destruct (n <? 10); [discriminate|]. revert E. apply digits_nonempty. discriminate.
  - exact Hk. Qed.
Print Assumptions nat_of_str_of_nat.

(* every paragraph identity lies below the document's next free identity (what the reader guarantees, and what every session keeps) *)
Definition wf_ids (d : doc) : Prop := Forall (fun p => p_id p < d_next_uid d) (doc_paras d).
Lemma wf_of_ids a b : map p_id (doc_paras b) = map p_id (doc_paras a) -> d_next_uid a <= d_next_uid b -> wf_ids a -> wf_ids b.
Proof. intros E M W. unfold wf_ids in *. apply Forall_forall. intros p Hp.
  assert (Hi : In (p_id p) (map p_id (doc_paras a))) by (rewrite <- E; now apply in_map).
  apply in_map_iff in Hi as (q & Hq & Hqin). rewrite Forall_forall in W. specialize (W q Hqin). lia. Qed.
Lemma ids_map_doc f d : (forall p, p_id (f p) = p_id p) -> map p_id (doc_paras (map_doc f d)) = map p_id (doc_paras d).
Proof. intros Hf. rewrite doc_paras_map, map_map. apply map_ext. exact Hf. Qed.
(* ---------- the session-rejected view and the relation every engine step preserves ---------- *)
Section EngInv.
Variable cur0 c0 n0 : nat.          (* highest revision id / first free comment id / first free node identity when the session starts *)
Definition Smark (m : mark) : bool := match nat_of_str (m_id m) with Some k => cur0 <? k | None => false end.
Definition Ccom (i : str) : bool := match nat_of_str i with Some k => c0 <=? k | None => false end.
Notation rejS := (rej Smark Ccom).
Definition ptape (p : para) := (p_id p, p_ppr p, p_style p, rejS (atoms_l [] (p_nodes p))).
Definition Rel (d d' : doc) : Prop :=
  map ptape (doc_paras d') = map ptape (doc_paras d) /\ d_stories (skeleton d') = d_stories (skeleton d) /\
  exists cs, d_comments d' = d_comments d ++ cs /\ Forall (fun c => Ccom (c_id c) = true) cs.
Lemma Rel_refl d : Rel d d.
Proof. split; [reflexivity|]. split; [reflexivity|]. exists []. split; [now rewrite app_nil_r|constructor]. Qed.
Lemma Rel_trans a b c : Rel a b -> Rel b c -> Rel a c.
Proof. intros (A1 & A2 & cs1 & A3 & A4) (B1 & B2 & cs2 & B3 & B4). split; [congruence|]. split; [congruence|].
  exists (cs1 ++ cs2). split; [rewrite B3, A3; now rewrite app_assoc|now apply Forall_app]. Qed.
Lemma Rel_upd p d : session_prim Smark Ccom p = true -> Rel d (upd_doc (prim_fun p) d).
Proof. intros Hp. unfold upd_doc. split; [|split].
  - rewrite doc_paras_map, map_map. apply map_ext. intros q. unfold ptape, with_nodes. cbn [p_id p_ppr p_style p_nodes]. f_equal.
    apply (upd_l_rej Smark Ccom). intros n ns st E. exact (prim_local Smark Ccom p Hp n ns st E).
  - f_equal. apply skeleton_map. reflexivity.
  - exists []. split; [now rewrite app_nil_r|constructor]. Qed.
Lemma Rel_fresh d : Rel d (fst (fresh d)).
Proof. unfold fresh. cbn [fst]. split; [reflexivity|]. split; [reflexivity|]. exists []. split; [now rewrite app_nil_r|constructor]. Qed.
Lemma Rel_split d uid k : Rel d (fst (fst (do_split d uid k))).
Proof. unfold do_split. pose proof (Rel_fresh d) as F. destruct (fresh d) as [d1 nu]. cbn [fst] in *.
  eapply Rel_trans; [exact F|]. exact (Rel_upd (PSplit uid nu k) d1 eq_refl). Qed.

Ltac brk := match goal with
  | |- context[match ?x with _ => _ end] => destruct x eqn:?
  | |- context[if ?x then _ else _] => destruct x eqn:?
  end.
Lemma Rel_resolve d sp a b : Rel d (fst (fst (resolve d sp a b))).
Proof. unfold resolve.
  destruct (filter o_real _) as [|first rest] eqn:Er; [apply Rel_refl|].
  set (ro := offset_in_run sp first + (a - o_start first)).
  destruct (0 <? ro) eqn:E0.
  - pose proof (Rel_split d (o_uid first) ro) as S1. destruct (do_split d (o_uid first) ro) as [[d' l] r]. cbn [fst] in S1.
    repeat (brk; cbn [fst]; try exact S1).
    all: try (match goal with H : do_split ?dd ?u ?k = (?d2, _, _) |- _ => pose proof (Rel_split dd u k) as S2; rewrite H in S2; cbn [fst] in S2; exact (Rel_trans _ _ _ S1 S2) end).
  - repeat (brk; cbn [fst]; try apply Rel_refl).
    all: try (match goal with H : do_split ?dd ?u ?k = (?d2, _, _) |- _ => pose proof (Rel_split dd u k) as S2; rewrite H in S2; cbn [fst] in S2; exact S2 end).
Qed.
Lemma Rel_anchor d sp i : Rel d (fst (insertion_anchor d sp i)).
Proof. unfold insertion_anchor, gap_anchor, after_span.
  repeat (brk; cbn [fst]; try apply Rel_refl).
  all: try (match goal with H : do_split ?dd ?u ?k = (?d2, _, _) |- _ => pose proof (Rel_split dd u k) as S2; rewrite H in S2; cbn [fst] in S2; exact S2 end).
Qed.

(* node identities only grow *)
Definition Mon (d d' : doc) : Prop := d_next_uid d <= d_next_uid d'.
Lemma Mon_refl d : Mon d d. Proof. unfold Mon. lia. Qed.
Lemma Mon_trans a b c : Mon a b -> Mon b c -> Mon a c. Proof. unfold Mon. lia. Qed.
Lemma Mon_upd f d : Mon d (upd_doc f d). Proof. unfold Mon. cbn. lia. Qed.
Lemma Mon_fresh d : Mon d (fst (fresh d)). Proof. unfold Mon, fresh. cbn. lia. Qed.
Lemma Mon_split d uid k : Mon d (fst (fst (do_split d uid k))).
Proof. unfold Mon, do_split, fresh. cbn. lia. Qed.
Lemma Mon_resolve d sp a b : Mon d (fst (fst (resolve d sp a b))).
Proof. unfold resolve.
  destruct (filter o_real _) as [|first rest] eqn:Er; [apply Mon_refl|].
  set (ro := offset_in_run sp first + (a - o_start first)).
  destruct (0 <? ro) eqn:E0.
  - pose proof (Mon_split d (o_uid first) ro) as S1. destruct (do_split d (o_uid first) ro) as [[d' l] r]. cbn [fst] in S1.
    repeat (brk; cbn [fst]; try exact S1).
    all: try (match goal with H : do_split ?dd ?u ?k = (?d2, _, _) |- _ => pose proof (Mon_split dd u k) as S2; rewrite H in S2; cbn [fst] in S2; exact (Mon_trans _ _ _ S1 S2) end).
  - repeat (brk; cbn [fst]; try apply Mon_refl).
    all: try (match goal with H : do_split ?dd ?u ?k = (?d2, _, _) |- _ => pose proof (Mon_split dd u k) as S2; rewrite H in S2; cbn [fst] in S2; exact S2 end).
Qed.
Lemma Mon_anchor d sp i : Mon d (fst (insertion_anchor d sp i)).
Proof. unfold insertion_anchor, gap_anchor, after_span.
  repeat (brk; cbn [fst]; try apply Mon_refl).
  all: try (match goal with H : do_split ?dd ?u ?k = (?d2, _, _) |- _ => pose proof (Mon_split dd u k) as S2; rewrite H in S2; cbn [fst] in S2; exact S2 end).
Qed.

(* ---------- paragraphs created by the session: identities from n0 on; they hold nothing but the session's insertions ---------- *)
Definition kid (i : nat) : bool := i <? n0.
Notation pruneS := (prune kid).
Definition tape_kid (t : nat * N * pstyle * list atom) : bool := kid (fst (fst (fst t))).
Definition tape_new_dead (t : nat * N * pstyle * list atom) : Prop := tape_kid t = false -> snd t = [].
Definition NewDead (d : doc) : Prop := Forall tape_new_dead (map ptape (doc_paras d)).
(* the relation with the session's own paragraphs dropped: exactly "dropping the run's insertions (and paragraphs made
   only of them), restoring the run's deletions and removing the run's comments gives back the input" *)
Definition RelG (d d' : doc) : Prop := Rel d (pruneS d') /\ NewDead d'.
Lemma filter_ptape l : map ptape (filter (keepP kid) l) = filter tape_kid (map ptape l).
Proof. induction l as [|p l IH]; [reflexivity|]. cbn [filter map]. unfold keepP at 1, tape_kid at 1. cbn [ptape fst].
  destruct (kid (p_id p)); cbn [map]; now rewrite IH. Qed.
Lemma skeleton_prune x : d_stories (skeleton (pruneS x)) = map (prune_story kid) (d_stories (skeleton x)).
Proof. unfold skeleton. rewrite <- prune_map_doc by reflexivity. reflexivity. Qed.
Lemma Rel_prune b c : Rel b c -> Rel (pruneS b) (pruneS c).
Proof. intros (A1 & A2 & cs & A3 & A4). split; [|split].
  - rewrite !doc_paras_prune, !filter_ptape. now rewrite A1.
  - rewrite !skeleton_prune. now rewrite A2.
  - exists cs. split; [exact A3|exact A4]. Qed.
Lemma NewDead_rel b c : Rel b c -> NewDead b -> NewDead c.
Proof. intros (A1 & _) H. unfold NewDead in *. now rewrite A1. Qed.
Lemma RelG_step a b c : RelG a b -> Rel b c -> RelG a c.
Proof. intros [R N] S. split; [exact (Rel_trans _ _ _ R (Rel_prune _ _ S))|exact (NewDead_rel _ _ S N)]. Qed.
Lemma Rel_is_RelG a b : Forall (fun p => keepP kid p = true) (doc_paras a) -> Rel a b -> RelG a b.
Proof. intros K R. assert (G : RelG a a).
  { split; [rewrite (prune_id kid a K); apply Rel_refl|]. unfold NewDead. apply Forall_forall. intros t Ht.
    apply in_map_iff in Ht as (p & <- & Hp). rewrite Forall_forall in K. specialize (K p Hp). unfold tape_new_dead, tape_kid. cbn [ptape fst].
    unfold keepP in K. rewrite K. discriminate. }
  exact (RelG_step _ _ _ G R). Qed.
(* when the result has no paragraph of the session, the relation is the plain one *)
Lemma RelG_no_new a b : RelG a b -> Forall (fun p => keepP kid p = true) (doc_paras b) -> Rel a b.
Proof. intros [R _] K. now rewrite (prune_id kid b K) in R. Qed.

(* ---------- engine state invariant ---------- *)
Variable d0 : doc.
Lemma wf_step b c : wf_ids b -> Rel b c -> Mon b c -> wf_ids c.
Proof. intros W (A1 & _) M. unfold wf_ids, Mon in *.
  assert (E : map p_id (doc_paras c) = map p_id (doc_paras b)).
  { apply (f_equal (map (fun t : nat * N * pstyle * list atom => fst (fst (fst t))))) in A1. rewrite !map_map in A1. exact A1. }
  apply Forall_forall. intros p Hp. assert (Hi : In (p_id p) (map p_id (doc_paras b))) by (rewrite <- E; now apply in_map).
  apply in_map_iff in Hi as (q & Hq & Hqin). rewrite Forall_forall in W. specialize (W q Hqin). lia. Qed.
(* g: a nested-insertion replacement has happened in this batch (the documented exception of C01: from then on the relation to the
   input is no longer claimed; identities, id counters and well-formedness still are) *)
Section Flag.
Variable g : bool.
Definition Inv (e : eng) : Prop := (g = false -> RelG d0 (e_doc e)) /\ n0 <= d_next_uid (e_doc e) /\ cur0 <= e_cur e /\ c0 <= e_next_c e /\ wf_ids (e_doc e).
Lemma Inv_with_doc e d : Inv e -> Rel (e_doc e) d -> Mon (e_doc e) d -> Inv (with_doc e d).
Proof. intros (A & N & B & C & W) R M. split; [intros Hg; exact (RelG_step _ _ _ (A Hg) R)|]. pose proof (wf_step _ _ W R M) as W'. unfold Mon in M. cbn [with_doc e_doc e_cur e_next_c]. repeat split; try assumption; lia. Qed.
Lemma new_mark_inv e : Inv e -> Inv (fst (new_mark e)) /\ Smark (snd (new_mark e)) = true.
Proof. intros (A & N & B & C & W). unfold new_mark. cbn [fst snd]. split; [split; [exact A|split; [exact N|split; [cbn; lia|split; [cbn; lia|exact W]]]]|].
  unfold Smark. cbn [m_id]. rewrite nat_of_str_of_nat. apply Nat.ltb_lt. lia. Qed.
Lemma fresh_e_inv e : Inv e -> Inv (fst (fresh_e e)).
Proof. intros H. unfold fresh_e. pose proof (Rel_fresh (e_doc e)) as F. pose proof (Mon_fresh (e_doc e)) as M.
  destruct (fresh (e_doc e)) as [d u]. cbn [fst] in *. now apply Inv_with_doc. Qed.
Lemma fresh_e_uid e : snd (fresh_e e) = d_next_uid (e_doc e) /\ d_next_uid (e_doc (fst (fresh_e e))) = S (d_next_uid (e_doc e)).
Proof. unfold fresh_e, fresh. cbn. auto. Qed.
Lemma delete_run_inv e uid : Inv e -> Inv (fst (delete_run e uid)).
Proof. intros H. unfold delete_run.
  pose proof (fresh_e_inv e H) as H1. destruct (fresh_e e) as [e1 du]. cbn [fst] in H1.
  destruct (new_mark_inv e1 H1) as [H2 Hm]. destruct (new_mark e1) as [e2 m]. cbn [fst snd] in *.
  apply Inv_with_doc; [exact H2| |apply Mon_upd]. exact (Rel_upd (PWrapDel uid du m) (e_doc e2) Hm). Qed.
(* the w:ins node built for inserted text carries a session mark *)
Definition session_ins (n : node) : Prop := exists iu m runs, n = ins_node iu m runs /\ Smark m = true.
Lemma ins_inline_inv e text anc sup : Inv e -> Inv (fst (ins_inline e text anc sup)) /\ session_ins (snd (ins_inline e text anc sup)).
Proof. intros H. unfold ins_inline.
  set (segs := parse_inline _ _ _ _ _ _).
  assert (G : forall l e0 rs, Inv e0 ->
            Inv (fst (fold_left (fun acc seg => let '(e0, rs) := acc in let '(t, b, i) := seg in
                        let '(e0', u) := fresh_e e0 in (e0', rs ++ [(u, apply_run_props anc b i sup, [CT t])])) l (e0, rs)))).
  { induction l as [|[[t b] i] l IH]; intros e0 rs H0; [exact H0|]. cbn [fold_left].
    pose proof (fresh_e_inv e0 H0) as H1. destruct (fresh_e e0) as [e0' u]. cbn [fst] in H1. now apply IH. }
  specialize (G segs e [] H). destruct (fold_left _ segs (e, [])) as [e1 runs]. cbn [fst] in G.
  pose proof (fresh_e_inv e1 G) as H2. destruct (fresh_e e1) as [e2 iu]. cbn [fst] in H2.
  destruct (new_mark_inv e2 H2) as [H3 Hm]. destruct (new_mark e2) as [e3 m]. cbn [fst snd] in *.
  split; [exact H3|]. exists iu, m, runs. split; auto. Qed.
Lemma place_after_inv e uid n : Inv e -> session_ins n -> Inv (place_after e uid n).
Proof. intros H (iu & m & runs & -> & Hm). unfold place_after. apply Inv_with_doc; auto; [|apply Mon_upd]. exact (Rel_upd (PInsAfter uid iu m runs) (e_doc e) Hm). Qed.
Lemma place_before_inv e uid n : Inv e -> session_ins n -> Inv (place_before e uid n).
Proof. intros H (iu & m & runs & -> & Hm). unfold place_before. apply Inv_with_doc; auto; [|apply Mon_upd]. exact (Rel_upd (PInsBefore uid iu m runs) (e_doc e) Hm). Qed.
Lemma attach_inv e su eu text : Inv e -> Inv (attach e su eu text).
Proof. intros (A & N & B & C & W). unfold attach. destruct text as [|c t]; [exact (conj A (conj N (conj B (conj C W))))|].
  set (cid := str_of_nat (e_next_c e)).
  assert (Hc : Ccom cid = true). { unfold Ccom, cid. rewrite nat_of_str_of_nat. apply Nat.leb_le. exact C. }
  set (d1 := {| d_stories := d_stories (e_doc e); d_next_uid := d_next_uid (e_doc e); d_comments := d_comments (e_doc e) ++ _ |}).
  assert (R1 : Rel (e_doc e) d1).
  { split; [reflexivity|]. split; [reflexivity|]. eexists. split; [reflexivity|]. constructor; [exact Hc|constructor]. }
  assert (M1 : Mon (e_doc e) d1) by (unfold Mon; cbn; lia).
  pose proof (Rel_fresh d1) as R2. pose proof (Mon_fresh d1) as M2. destruct (fresh d1) as [d2 ru]. cbn [fst] in R2, M2.
  pose proof (Rel_upd (PAnchor su eu cid ru rpr_cref) d2 Hc) as R3. pose proof (Mon_upd (prim_fun (PAnchor su eu cid ru rpr_cref)) d2) as M3.
  split; [|split; [|split; [cbn; lia|split; [cbn; lia|]]]]; cbn [e_doc].
  - intros Hg. eapply RelG_step; [|exact R3]. eapply RelG_step; [|exact R2]. eapply RelG_step; [exact (A Hg)|exact R1].
  - unfold Mon in *. cbn in *. lia.
  - exact (wf_step _ _ (wf_step _ _ (wf_step _ _ W R1 M1) R2 M2) R3 M3). Qed.

(* ---------- new paragraphs ---------- *)
Definition good_para (p : para) : Prop := kid (p_id p) = false /\ rejS (atoms_l [] (p_nodes p)) = [].
(* node identities only grow along the steps that build new paragraphs *)
Definition emon (e e' : eng) : Prop := d_next_uid (e_doc e) <= d_next_uid (e_doc e').
Lemma emon_fresh_e e : emon e (fst (fresh_e e)). Proof. unfold emon, fresh_e, fresh. cbn. lia. Qed.
Lemma emon_new_mark e : emon e (fst (new_mark e)). Proof. unfold emon, new_mark. cbn. lia. Qed.
Lemma emon_trans a b c : emon a b -> emon b c -> emon a c. Proof. unfold emon. lia. Qed.
Lemma emon_ins_inline e text anc sup : emon e (fst (ins_inline e text anc sup)).
Proof. unfold ins_inline. set (segs := parse_inline _ _ _ _ _ _).
  assert (G : forall l e0 rs, emon e0 (fst (fold_left (fun acc seg => let '(e0, rs) := acc in let '(t, b, i) := seg in
                        let '(e0', u) := fresh_e e0 in (e0', rs ++ [(u, apply_run_props anc b i sup, [CT t])])) l (e0, rs)))).
  { induction l as [|[[t b] i] l IH]; intros e0 rs; [cbn [fold_left fst]; unfold emon; lia|]. cbn [fold_left].
    pose proof (emon_fresh_e e0) as H1. destruct (fresh_e e0) as [e0' u]. cbn [fst] in H1. exact (emon_trans _ _ _ H1 (IH e0' _)). }
  specialize (G segs e []). destruct (fold_left _ segs (e, [])) as [e1 runs]. cbn [fst] in G.
  pose proof (emon_fresh_e e1) as H2. destruct (fresh_e e1) as [e2 iu]. cbn [fst] in H2.
  pose proof (emon_new_mark e2) as H3. destruct (new_mark e2) as [e3 m]. cbn [fst] in *.
  exact (emon_trans _ _ _ G (emon_trans _ _ _ H2 H3)). Qed.
Lemma new_para_inv e text anc sup st cur : Inv e ->
  Inv (fst (fst (new_para e text anc sup st cur))) /\ good_para (snd (fst (new_para e text anc sup st cur)))
  /\ p_id (snd (fst (new_para e text anc sup st cur))) < d_next_uid (e_doc (fst (fst (new_para e text anc sup st cur))))
  /\ emon e (fst (fst (new_para e text anc sup st cur))).
Proof. intros H. unfold new_para.
  pose proof (emon_ins_inline e text anc sup) as M1.
  destruct (ins_inline_inv e text anc sup H) as [H1 Hi]. destruct (ins_inline e text anc sup) as [e1 ins]. cbn [fst snd] in *.
  pose proof (fresh_e_inv e1 H1) as H2. destruct (fresh_e_uid e1) as [U1 U2]. pose proof (emon_fresh_e e1) as M2. destruct (fresh_e e1) as [e2 pid]. cbn [fst snd] in *.
  split; [exact H2|]. split; [split; cbn [p_id p_nodes]|split; [cbn [p_id]; lia|exact (emon_trans _ _ _ M1 M2)]].
  - subst pid. unfold kid. apply Nat.ltb_ge. destruct H1 as (_ & N & _). exact N.
  - destruct Hi as (iu & m & runs & -> & Hm). unfold atoms_l. cbn [flat_map]. rewrite app_nil_r. now apply rej_session_ins. Qed.
Definition good_at (e : eng) (ip : nat * para) : Prop := good_para (snd ip) /\ p_id (snd ip) < d_next_uid (e_doc e).
Lemma good_at_mono e e' ns : emon e e' -> Forall (good_at e) ns -> Forall (good_at e') ns.
Proof. intros M H. eapply Forall_impl; [|exact H]. intros ip [G L]. split; auto. unfold emon in M. lia. Qed.
Lemma new_paras_fold_inv anc sup cur skip : forall ls e ns cr i, Inv e -> Forall (good_at e) ns ->
  let '(e', ns', _, _) := fold_left (new_paras_step anc sup cur skip) ls (e, ns, cr, i) in Inv e' /\ Forall (good_at e') ns'.
Proof. induction ls as [|l ls IH]; intros e ns cr i H Hn; cbn [fold_left]; [split; assumption|].
  unfold new_paras_step at 2. destruct (md_style l) as [ct st].
  destruct (skip && _); [now apply IH|].
  destruct (new_para_inv e ct anc sup st cur H) as (H1 & Hg & Hl & Hm). destruct (new_para e ct anc sup st cur) as [[e' p] iu]. cbn [fst snd] in *.
  apply IH; [exact H1|]. apply Forall_app. split; [exact (good_at_mono _ _ _ Hm Hn)|]. constructor; [split; assumption|constructor]. Qed.
Lemma place_paras_inv e pid news : Inv e -> Forall (good_at e) news -> Inv (with_doc e (place_paras pid news (e_doc e))).
Proof. intros (A & N & B & C & W) Hn. split; [|cbn [with_doc e_doc e_cur e_next_c]; repeat split; auto].
  - intros Hg. destruct (A Hg) as [R D]. cbn [with_doc e_doc]. split.
    + rewrite prune_place; [exact R|]. apply Forall_forall. intros ip Hip. rewrite Forall_forall in Hn. exact (proj1 (proj1 (Hn ip Hip))).
    + unfold NewDead in *. apply Forall_forall. intros t Ht. apply in_map_iff in Ht as (p & <- & Hp).
      destruct (paras_place _ _ _ _ Hp) as [Ho|Hnew].
      * rewrite Forall_forall in D. apply D. now apply in_map.
      * apply in_map_iff in Hnew as (ip & <- & Hip). rewrite Forall_forall in Hn. destruct (Hn ip Hip) as [[_ G] _]. intros _. exact G.
  - unfold wf_ids in *. apply Forall_forall. intros p Hp. destruct (paras_place _ _ _ _ Hp) as [Ho|Hnew].
    + rewrite Forall_forall in W. exact (W p Ho).
    + apply in_map_iff in Hnew as (ip & <- & Hip). rewrite Forall_forall in Hn. exact (proj2 (Hn ip Hip)). Qed.
Lemma track_insert_inv e text anc cur cm sup : Inv e ->
  Inv (fst (track_insert e text anc cur cm sup)) /\ (forall ins, snd (track_insert e text anc cur cm sup) = Some ins -> session_ins ins).
Proof. intros H. unfold track_insert. destruct (split_lines text) as [|l0 rest]; [split; [exact H|discriminate]|].
  destruct (snd (md_style l0)).
  - pose proof (new_paras_fold_inv anc sup cur true (l0 :: rest) e [] [] 0 H (Forall_nil _)) as G.
    destruct (fold_left _ (l0 :: rest) (e, [], [], 0)) as [[[e1 news] created] k]. destruct G as [H1 Hn].
    pose proof (place_paras_inv e1 (p_id cur) news H1 Hn) as H2. cbn [fst snd]. split; [|discriminate].
    destruct created; [exact H2|now apply attach_inv].
  - set (rest' := match last_opt rest with Some [] => removelast rest | _ => rest end).
    assert (G0 : forall e1 oins, Inv e1 -> (forall ins, oins = Some ins -> session_ins ins) ->
      let '(e2, news, created, _) := fold_left (new_paras_step anc sup cur false) rest' (e1, [], [], 0) in
      let e3 := with_doc e2 (place_paras (p_id cur) news (e_doc e2)) in
      let r := match oins, created with
               | None, c0 :: _ => (attach e3 c0 (match last_opt created with Some x => x | None => c0 end) cm, None)
               | _, _ => (e3, oins) end in
      Inv (fst r) /\ (forall ins, snd r = Some ins -> session_ins ins)).
    { intros e1 oins H1 Ho. pose proof (new_paras_fold_inv anc sup cur false rest' e1 [] [] 0 H1 (Forall_nil _)) as G.
      destruct (fold_left _ rest' (e1, [], [], 0)) as [[[e2 news] created] k]. destruct G as [H2 Hn]. cbn zeta.
      pose proof (place_paras_inv e2 (p_id cur) news H2 Hn) as H3.
      destruct oins as [ins|]; [split; [exact H3|exact Ho]|].
      destruct created; [split; [exact H3|exact Ho]|]. cbn [fst snd]. split; [now apply attach_inv|discriminate]. }
    Ltac use_G0 G := match type of G with context[fold_left ?f ?l ?a] => destruct (fold_left f l a) as [[[e2 news] created] k] end;
                      cbv beta iota zeta in G |- *; exact G.
    destruct l0 as [|x l0'].
    + destruct rest' as [|r0 rr] eqn:Er.
      * destruct (ins_inline_inv e [] anc sup H) as [H1 Hi]. destruct (ins_inline e [] anc sup) as [e1 ins]. cbn [fst snd] in *.
        assert (Ho : forall ins', Some ins = Some ins' -> session_ins ins') by (intros ins' E; inversion E; subst; exact Hi).
        pose proof (G0 e1 (Some ins) H1 Ho) as G. use_G0 G.
      * assert (Ho : forall ins', @None node = Some ins' -> session_ins ins') by discriminate.
        pose proof (G0 e None H Ho) as G. use_G0 G.
    + destruct (ins_inline_inv e (x :: l0') anc sup H) as [H1 Hi]. destruct (ins_inline e (x :: l0') anc sup) as [e1 ins]. cbn [fst snd] in *.
      assert (Ho : forall ins', Some ins = Some ins' -> session_ins ins') by (intros ins' E; inversion E; subst; exact Hi).
      pose proof (G0 e1 (Some ins) H1 Ho) as G. use_G0 G.
Qed.

Definition InvS (s : est) : Prop := Inv (s_eng s).
Lemma fold_delete_inv : forall work e ds, Inv e ->
  Inv (fst (fold_left (fun acc u => let '(e0, ds) := acc in let '(e0', du) := delete_run e0 u in (e0', ds ++ [du])) work (e, ds))).
Proof. induction work as [|u work IH]; intros e ds H; [exact H|]. cbn [fold_left].
  pose proof (delete_run_inv e u H) as H1. destruct (delete_run e u) as [e' du]. cbn [fst] in H1. now apply IH. Qed.
End Flag.
(* the flag only ever weakens the claim *)
Lemma Inv_mono g g' e : (g' = false -> g = false) -> Inv g e -> Inv g' e.
Proof. intros Hg (A & R). split; [intros E; exact (A (Hg E))|exact R]. Qed.
(* a step that keeps the paragraph identities and does not lower next_uid keeps everything but the relation to the input *)
Lemma Inv_drop g e d : Inv g e -> map p_id (doc_paras d) = map p_id (doc_paras (e_doc e)) -> Mon (e_doc e) d -> Inv true (with_doc e d).
Proof. intros (A & N & B & C & W) E M. split; [discriminate|]. unfold Mon in M. cbn [with_doc e_doc e_cur e_next_c].
  repeat split; try assumption; try lia. exact (wf_of_ids _ _ E M W). Qed.
Definition isN (o : outcome) : bool := match o with AppliedN | SkippedN => true | _ => false end.
Lemma nested_inline_inv g e text anc : Inv g e ->
  Inv g (fst (nested_inline e text anc)) /\ (forall ins, snd (nested_inline e text anc) = Some ins -> session_ins ins).
Proof. intros H. unfold nested_inline. destruct (split_lines text) as [|l0 rest]; [split; [exact H|discriminate]|].
  destruct (snd (md_style l0)); [split; [exact H|discriminate]|].
  assert (G : Inv g (fst (let '(e1, ins) := ins_inline e l0 anc false in (e1, Some ins))) /\
              (forall ins, snd (let '(e1, ins) := ins_inline e l0 anc false in (e1, Some ins)) = Some ins -> session_ins ins)).
  { destruct (ins_inline_inv g e l0 anc false H) as [H1 Hi]. destruct (ins_inline e l0 anc false) as [e1 ins]. cbn [fst snd] in *.
    split; [exact H1|]. intros ins' E. inversion E; subst. exact Hi. }
  destruct l0 as [|x l0']; [|exact G].
  destruct (match last_opt rest with Some [] => removelast rest | _ => rest end); [exact G|split; [exact H|discriminate]]. Qed.
Lemma ids_reject i d : map p_id (doc_paras (reject_doc i d)) = map p_id (doc_paras d).
Proof. unfold reject_doc. apply ids_map_doc. reflexivity. Qed.
Lemma nested_replace_inv g s i nw cm : InvS g s ->
  InvS (g || isN (snd (nested_replace s i nw cm))) (fst (nested_replace s i nw cm)).
Proof. intros H. unfold InvS in *. unfold nested_replace.
  assert (Hk : Inv (g || true) (s_eng s)) by (revert H; apply Inv_mono; rewrite orb_true_r; discriminate).
  destruct (first_ins i (e_doc (s_eng s))) as [n|]; [|cbn [fst snd isN]; exact Hk].
  destruct n as [u f k|u0 wk m cs|j|j|t]; try (cbn [fst snd isN]; exact Hk).
  destruct nw as [|c nw'].
  - cbn [fst snd isN set_eng s_eng]. rewrite orb_true_r. eapply Inv_drop; [exact H|apply ids_reject|unfold Mon; cbn; lia].
  - match goal with |- context[nested_inline ?a ?b ?c0] => destruct (nested_inline_inv g a b c0 H) as [H1 Hi]; destruct (nested_inline a b c0) as [e1 oins] end.
    cbn [fst snd] in H1, Hi. destruct oins as [ins|]; cbn [fst snd isN set_eng s_eng]; rewrite orb_true_r.
    + apply attach_inv. pose proof (place_before_inv g e1 u0 ins H1 (Hi ins eq_refl)) as H2.
      eapply Inv_drop; [exact H2|apply ids_reject|unfold Mon; cbn; lia].
    + eapply Inv_drop; [exact H1|apply ids_reject|unfold Mon; cbn; lia]. Qed.
Ltac leafI := cbn [fst snd isN]; rewrite ?orb_false_r; unfold InvS; cbn [fst set_eng s_eng].
Lemma apply_indexed_inv g s uc st tg nw cm o : InvS g s ->
  InvS (g || isN (snd (apply_indexed s uc st tg nw cm o))) (fst (apply_indexed s uc st tg nw cm o)).
Proof. intros H. unfold apply_indexed.
  set (sp := if uc then _ else _). set (e := s_eng s) in *.
  destruct (match _ with Some c => is_some_nonempty (o_ins c) | None => false end); [now apply nested_replace_inv|].
  unfold InvS in H. fold e in H.
  destruct (negb (block_ok nw)); [leafI; exact H|].
  destruct (match o with Some x => x | None => _ end).
  - (* insertion *)
    pose proof (Rel_anchor (e_doc e) sp st) as RA. pose proof (Mon_anchor (e_doc e) sp st) as MA.
    destruct (insertion_anchor (e_doc e) sp st) as [d1 a0]. cbn [fst] in RA, MA.
    pose proof (Inv_with_doc g e d1 H RA MA) as H1.
    match goal with |- context[let '(a, before) := ?X in _] => destruct X as [a before] end.
    destruct a as [au|]; [|leafI; exact H1].
    destruct (place_uid au before d1) as [pu|]; [|leafI; exact H].
    set (style := if before then _ else _).
    destruct (inline_text nw).
    + destruct (ins_inline_inv g (with_doc e d1) nw style false H1) as [H2 Hi].
      destruct (ins_inline (with_doc e d1) nw style false) as [e2 ins]. cbn [fst snd] in H2, Hi. leafI.
      apply attach_inv. destruct before; [now apply place_before_inv|now apply place_after_inv].
    + destruct (para_rec au d1) as [cur|]; [|leafI; exact H].
      destruct (track_insert_inv g (with_doc e d1) nw style cur cm false H1) as [H2 Hi].
      destruct (track_insert (with_doc e d1) nw style cur cm false) as [e2 oi]. cbn [fst snd] in H2, Hi.
      destruct oi as [ins|]; leafI; [|exact H2].
      apply attach_inv. specialize (Hi ins eq_refl). destruct before; [now apply place_before_inv|now apply place_after_inv].
  - (* deletion *)
    pose proof (Rel_resolve (e_doc e) sp st (st + length tg)) as RR. pose proof (Mon_resolve (e_doc e) sp st (st + length tg)) as MR.
    destruct (resolve (e_doc e) sp st (st + length tg)) as [[d1 work] modif]. cbn [fst] in RR, MR.
    pose proof (Inv_with_doc g e d1 H RR MR) as H1.
    set (s1 := if modif then _ else _).
    assert (Hs1 : Inv g (s_eng s1)) by (unfold s1; destruct modif, uc; exact H1).
    destruct work as [|w0 work']; [leafI; exact Hs1|].
    destruct (negb (one_story d1 (w0 :: work'))); [leafI; exact Hs1|].
    destruct (negb (all_direct d1 (w0 :: work'))); [leafI; exact H|].
    pose proof (fold_delete_inv g (w0 :: work') (s_eng s1) [] Hs1) as HF.
    destruct (fold_left _ (w0 :: work') (s_eng s1, [])) as [e2 dels]. cbn [fst] in HF.
    leafI. now apply attach_inv.
  - (* modification *)
    pose proof (Rel_resolve (e_doc e) sp st (st + length tg)) as RR. pose proof (Mon_resolve (e_doc e) sp st (st + length tg)) as MR.
    destruct (resolve (e_doc e) sp st (st + length tg)) as [[d1 work] modif]. cbn [fst] in RR, MR.
    pose proof (Inv_with_doc g e d1 H RR MR) as H1.
    set (s1 := if modif then _ else _).
    assert (Hs1 : Inv g (s_eng s1)) by (unfold s1; destruct modif, uc; exact H1).
    destruct work as [|w0 work']; [leafI; exact Hs1|].
    destruct (negb (one_story d1 (w0 :: work'))); [leafI; exact Hs1|].
    destruct (negb (all_direct d1 (w0 :: work'))); [leafI; exact H|].
    pose proof (fold_delete_inv g (w0 :: work') (s_eng s1) [] Hs1) as HF.
    destruct (fold_left _ (w0 :: work') (s_eng s1, [])) as [e2 dels]. cbn [fst] in HF.
    destruct nw as [|c nw']; [leafI; exact HF|].
    set (tti := match md_style (c :: nw') with (ct, Some l) => _ | _ => _ end).
    destruct (inline_text tti).
    + match goal with |- context[ins_inline e2 ?t ?r ?b] => destruct (ins_inline_inv g e2 t r b HF) as [H2 Hi]; destruct (ins_inline e2 t r b) as [e3 ins] end.
      cbn [fst snd] in H2, Hi. leafI. apply attach_inv. now apply place_after_inv.
    + destruct (para_rec _ d1) as [cp|]; [|leafI; exact H].
      match goal with |- context[track_insert e2 ?t ?r ?p ?c0 ?b] => destruct (track_insert_inv g e2 t r p c0 b HF) as [H2 Hi]; destruct (track_insert e2 t r p c0 b) as [e3 oi] end.
      cbn [fst snd] in H2, Hi. destruct oi as [ins|]; leafI; [|exact H2].
      apply attach_inv. apply place_after_inv; [exact H2|]. exact (Hi ins eq_refl).
Qed.

Lemma locate_inv g s tg orc : InvS g s -> InvS g (snd (fst (locate s tg orc))).
Proof. intros H. unfold locate. destruct (find_on (s_raw s) tg); [exact H|].
  destruct (approx (s_raw s) tg orc) as [m1 orc1]. match goal with |- context[find_on ?a tg] => destruct (find_on a tg) end; [exact H|].
  destruct m1; [exact H|]. match goal with |- context[find_match ?a ?b ?c] => destruct (find_match a b c) end. exact H. Qed.
Lemma apply_located_inv g s uc st ml nw cm : InvS g s ->
  InvS (g || isN (snd (apply_located s uc st ml nw cm))) (fst (apply_located s uc st ml nw cm)).
Proof. intros H. unfold apply_located.
  destruct (existsb _ _); [leafI; exact H|].
  destruct (find _ (firstn 1 _)).
  { match goal with |- context[apply_indexed ?a ?b ?c ?d ?e ?f ?g0] => pose proof (apply_indexed_inv g a b c d e f g0 H) as HH; destruct (apply_indexed a b c d e f g0) as [s' oc] end.
    cbn [fst snd] in *. destruct oc; cbn [isN] in *; try exact HH; rewrite orb_true_r; rewrite orb_false_r in HH; revert HH; apply Inv_mono; discriminate. }
  destruct (str_eqb _ _); [leafI; exact H|]. destruct (prefixb _ _); [now apply apply_indexed_inv|].
  match goal with |- context[match ?a with [] => _ | _ :: _ => _ end] => destruct a end;
  match goal with |- context[match ?a with [] => _ | _ :: _ => _ end] => destruct a end; first [now apply apply_indexed_inv | leafI; exact H]. Qed.
Lemma apply_heuristic_inv g s tg nw cm orc : InvS g s ->
  InvS (g || isN (snd (fst (apply_heuristic s tg nw cm orc)))) (fst (fst (apply_heuristic s tg nw cm orc))).
Proof. intros H. unfold apply_heuristic. destruct tg as [|c tg']; [leafI; exact H|].
  pose proof (locate_inv g s (c :: tg') orc H) as HL. destruct (locate s (c :: tg') orc) as [[[m uc] s1] orc2]. cbn [fst snd] in HL.
  destruct m as [[st ml]|]; [|leafI; exact HL]. cbn [fst snd]. now apply apply_located_inv. Qed.
Lemma rebuild_inv g s : InvS g s -> InvS g (rebuild s). Proof. auto. Qed.

(* ---------- the invariant along a batch: the flag is "some nested replacement has been counted" ---------- *)
Definition hstate := (est * nat * nat * nat * list fm * list (nat * nat) * nat)%type.
Definition h_inv (a : hstate) : Prop := let '(s, _, _, _, _, _, nn) := a in InvS (0 <? nn) s.
Lemma step_heur_inv a edp : h_inv a -> h_inv (step_heur a edp).
Proof. destruct a as [[[[[[s ap] sk] out] orc] occ] nn]. destruct edp as [ed rng]. intros HI. unfold step_heur.
  destruct (negb (Nat.eqb out 0)); [exact HI|].
  destruct (match rng with Some (a, b) => overl occ a b | None => false end); [exact HI|].
  pose proof (apply_heuristic_inv (0 <? nn) s (ed_target ed) (ed_new ed) (ed_comment ed) orc HI) as HH.
  destruct (apply_heuristic s _ _ _ orc) as [[s' oc] orc']. cbn [fst snd] in HH. destruct oc; cbn [isN h_inv] in *; rewrite ?orb_false_r in HH; try exact HH; rewrite orb_true_r in HH; exact HH. Qed.
Lemma fold_heur_inv : forall es a, h_inv a -> h_inv (fold_left step_heur es a).
Proof. induction es as [|ed es IH]; intros a H; cbn [fold_left]; [exact H|]. apply IH. now apply step_heur_inv. Qed.
Definition istate := (est * nat * nat * nat * list (nat * nat) * nat)%type.
Definition i_inv (a : istate) : Prop := let '(s, _, _, _, _, nn) := a in InvS (0 <? nn) s.
Lemma step_idx_inv a ed : i_inv a -> i_inv (step_idx a ed).
Proof. destruct a as [[[[[s ap] sk] out] occ] nn]. intros HI. unfold step_idx.
  destruct (negb (Nat.eqb out 0)); [exact HI|].
  destruct (overl occ _ _); [exact HI|].
  match goal with |- context[apply_indexed ?a ?b ?c ?d ?e ?f ?g0] => pose proof (apply_indexed_inv (0 <? nn) a b c d e f g0 HI) as HH; destruct (apply_indexed a b c d e f g0) as [s' oc] end.
  cbn [fst snd] in HH. destruct oc; cbn [isN i_inv] in *; rewrite ?orb_false_r in HH; try exact HH; rewrite orb_true_r in HH; exact HH. Qed.
Lemma fold_idx_inv : forall es a, i_inv a -> i_inv (fold_left step_idx es a).
Proof. induction es as [|ed es IH]; intros a H; cbn [fold_left]; [exact H|]. apply IH. now apply step_idx_inv. Qed.
End EngInv.

(* ---------- counting: every submitted edit is counted exactly once (unless the model stops at an out-of-scope case) ---------- *)
Definition h_cnt (k : nat) (a : hstate) : Prop := let '(_, ap, sk, out, _, _, _) := a in out = 0 -> ap + sk = k.
Lemma step_heur_cnt k a edp : h_cnt k a -> h_cnt (S k) (step_heur a edp).
Proof. destruct a as [[[[[[s ap] sk] out] orc] occ] nn]. destruct edp as [ed rng]. intros Hc. unfold step_heur.
  destruct out as [|out']; [|intros E; discriminate]. cbn [Nat.eqb negb]. specialize (Hc eq_refl).
  destruct (match rng with Some (a, b) => overl occ a b | None => false end); [intros _; lia|].
  destruct (apply_heuristic s _ _ _ orc) as [[s' oc] orc']. destruct oc; intros E; try lia; discriminate. Qed.
Lemma fold_heur_cnt : forall es k a, h_cnt k a -> h_cnt (k + length es) (fold_left step_heur es a).
Proof. induction es as [|ed es IH]; intros k a H; cbn [fold_left length]; [now rewrite Nat.add_0_r|].
  replace (k + S (length es)) with (S k + length es) by lia. apply IH. now apply step_heur_cnt. Qed.
Definition i_cnt (k : nat) (a : istate) : Prop := let '(_, ap, sk, out, _, _) := a in out = 0 -> ap + sk = k.
Lemma step_idx_cnt k a ed : i_cnt k a -> i_cnt (S k) (step_idx a ed).
Proof. destruct a as [[[[[s ap] sk] out] occ] nn]. intros Hc. unfold step_idx.
  destruct out as [|out']; [|intros E; discriminate]. cbn [Nat.eqb negb]. specialize (Hc eq_refl).
  destruct (overl occ _ _); [intros _; lia|].
  match goal with |- context[apply_indexed ?a ?b ?c ?d ?e ?f ?g] => destruct (apply_indexed a b c d e f g) as [s' oc] end.
  destruct oc; intros E; try lia; discriminate. Qed.
Lemma fold_idx_cnt : forall es k a, i_cnt k a -> i_cnt (k + length es) (fold_left step_idx es a).
Proof. induction es as [|ed es IH]; intros k a H; cbn [fold_left length]; [now rewrite Nat.add_0_r|].
  replace (k + S (length es)) with (S k + length es) by lia. apply IH. now apply step_idx_cnt. Qed.

(* ---------- the engine on a whole batch ---------- *)
Lemma sort_by_length {A} (lt : A -> A -> bool) l : length (sort_by lt l) = length l.
Proof. unfold sort_by. assert (G : forall l acc, length (fold_left (fun acc x => insert_sorted lt x acc) l acc) = length acc + length l).
  { induction l0 as [|x l0 IH]; intros acc; simpl; [lia|]. rewrite IH.
    assert (E : length (insert_sorted lt x acc) = S (length acc)). { induction acc as [|y acc IHa]; simpl; auto. destruct (lt x y); simpl; auto. }
    lia. }
  now rewrite G. Qed.
Lemma filter_split_length {A} (p : A -> bool) l : length (filter p l) + length (filter (fun x => negb (p x)) l) = length l.
Proof. induction l as [|x l IH]; simpl; auto. destruct (p x); simpl; lia. Qed.
Lemma plan_length : forall l tx orc, length (fst (plan tx l orc)) = length l.
Proof. induction l as [|ed l IH]; intros tx orc; cbn [plan]; [reflexivity|].
  destruct (ed_target ed).
  - specialize (IH tx orc). destruct (plan tx l orc) as [l' o']. cbn [fst length] in *. now rewrite IH.
  - destruct (find_match tx (c :: s) orc) as [m orcx]. specialize (IH tx orcx). destruct (plan tx l orcx) as [l' o']. cbn [fst length] in *. now rewrite IH. Qed.


Theorem engine_counts d author ts edits orc :
  let '(_, ap, sk, out, _) := apply_edits d author ts edits orc in out = 0 -> ap + sk = length edits.
Proof. unfold apply_edits.
  set (e := mk_engine d author ts).
  set (s0 := {| s_eng := e; s_raw := _; s_clean := None; s_cm0 := _; s_cmc := []; s_xp := 0 |}).
  set (indexed := filter _ edits). set (heur := filter (fun x => match ed_index x with Some _ => false | None => true end) edits).
  assert (Hlen : length indexed + length heur = length edits).
  { unfold indexed, heur. rewrite <- (filter_split_length (fun x => match ed_index x with Some _ => true | None => false end) edits). f_equal.
    apply f_equal. apply filter_ext. intros x. destruct (ed_index x); reflexivity. }
  pose proof (fold_idx_cnt (sort_idx_desc indexed) 0 (s0, 0, 0, 0, [], 0) (fun _ => eq_refl)) as HI.
  unfold sort_idx_desc in HI at 1. rewrite sort_by_length in HI. cbn [Nat.add] in HI.
  destruct (fold_left step_idx (sort_idx_desc indexed) (s0, 0, 0, 0, [], 0)) as [[[[[s1 ap1] sk1] out1] occ1] nn1].
  destruct heur as [|h heur'] eqn:Eh.
  - intros E. cbn [i_cnt] in HI. rewrite (HI E). simpl in Hlen. lia.
  - pose proof (plan_length (sort_len_desc (h :: heur')) (s_raw (rebuild s1)) orc) as Lp.
    destruct (plan (s_raw (rebuild s1)) (sort_len_desc (h :: heur')) orc) as [planned orc1]. cbn [fst] in Lp.
    unfold sort_len_desc in Lp. rewrite sort_by_length in Lp.
    pose proof (fold_heur_cnt planned (length indexed) (rebuild s1, ap1, sk1, out1, orc1, occ1, nn1) HI) as HH.
    rewrite Lp in HH.
    destruct (fold_left step_heur planned _) as [[[[[[s2 ap2] sk2] out2] orc2] occ2] nn2]. cbn [h_cnt] in HH.
    intros E. rewrite (HH E). exact Hlen. Qed.

Theorem engine_rel d author ts edits orc :
  let nd := normalize_doc d in
  wf_ids nd ->
  let '(d', _, _, _, nn) := apply_edits d author ts edits orc in
  (nn = 0 -> RelG (scan_ids nd) (next_comment_id nd) (d_next_uid nd) nd d') /\ wf_ids d'.
Proof. cbn zeta. intros Hwf. unfold apply_edits.
  set (nd := normalize_doc d) in *. set (cur0 := scan_ids nd). set (c0 := next_comment_id nd). set (n0 := d_next_uid nd).
  set (e := mk_engine d author ts).
  assert (He : Inv cur0 c0 n0 nd false e).
  { unfold e, mk_engine. fold nd. split; [|cbn [e_doc e_cur e_next_c]; split; [unfold n0; lia|split; [unfold cur0; lia|split; [unfold c0; lia|exact Hwf]]]]. cbn [e_doc].
    intros _. apply Rel_is_RelG; [|apply Rel_refl]. unfold wf_ids in Hwf. apply Forall_forall. intros p Hp. rewrite Forall_forall in Hwf.
    unfold keepP, kid, n0. apply Nat.ltb_lt. exact (Hwf p Hp). }
  set (s0 := {| s_eng := e; s_raw := _; s_clean := None; s_cm0 := _; s_cmc := []; s_xp := 0 |}).
  set (indexed := filter _ edits). set (heur := filter (fun x => match ed_index x with Some _ => false | None => true end) edits).
  pose proof (fold_idx_inv cur0 c0 n0 nd (sort_idx_desc indexed) (s0, 0, 0, 0, [], 0) He) as HI.
  destruct (fold_left step_idx (sort_idx_desc indexed) (s0, 0, 0, 0, [], 0)) as [[[[[s1 ap1] sk1] out1] occ1] nn1]. cbn [i_inv] in HI.
  assert (Fin : forall nn s2, InvS cur0 c0 n0 nd (0 <? nn) s2 ->
          (nn = 0 -> RelG cur0 c0 n0 nd (e_doc (s_eng s2))) /\ wf_ids (e_doc (s_eng s2))).
  { intros nn s2 (A & _ & _ & _ & W). split; [|exact W]. intros E. apply A. subst nn. reflexivity. }
  destruct heur as [|h heur'].
  - now apply Fin.
  - destruct (plan (s_raw (rebuild s1)) (sort_len_desc (h :: heur')) orc) as [planned orc1].
    pose proof (fold_heur_inv cur0 c0 n0 nd planned (rebuild s1, ap1, sk1, out1, orc1, occ1, nn1) HI) as HH.
    destruct (fold_left step_heur planned _) as [[[[[[s2 ap2] sk2] out2] orc2] occ2] nn2]. now apply Fin. Qed.
Theorem engine_contract d author ts edits orc :
  let nd := normalize_doc d in
  let '(d', ap, sk, out, nn) := apply_edits d author ts edits orc in
  (wf_ids nd -> nn = 0 -> RelG (scan_ids nd) (next_comment_id nd) (d_next_uid nd) nd d') /\ (out = 0 -> ap + sk = length edits).
Proof. cbn zeta. pose proof (engine_rel d author ts edits orc) as R. pose proof (engine_counts d author ts edits orc) as K. cbn zeta in R.
  destruct (apply_edits d author ts edits orc) as [[[[d' ap] sk] out] nn]. split; [intros W; exact (proj1 (R W))|assumption]. Qed.
(* a result without paragraphs of the session (no block insertion happened) satisfies the plain relation: same paragraphs *)
Theorem engine_plain d author ts edits orc :
  let nd := normalize_doc d in
  let '(d', _, _, _, nn) := apply_edits d author ts edits orc in
  wf_ids nd -> nn = 0 -> Forall (fun p => p_id p < d_next_uid nd) (doc_paras d') -> Rel (scan_ids nd) (next_comment_id nd) nd d'.
Proof. cbn zeta. pose proof (engine_rel d author ts edits orc) as R. cbn zeta in R.
  destruct (apply_edits d author ts edits orc) as [[[[d' ap] sk] out] nn]. intros W E K. eapply RelG_no_new; [exact (proj1 (R W) E)|].
  apply Forall_forall. intros p Hp. rewrite Forall_forall in K. unfold keepP, kid. apply Nat.ltb_lt. exact (K p Hp). Qed.
Print Assumptions engine_rel.
Print Assumptions engine_counts.

(* ---------- the input carries no session mark / comment: rejecting the session leaves it untouched ---------- *)
Lemma max_list_ge : forall l x, In x l -> x <= max_list l.
Proof. unfold max_list. assert (G : forall l a x, In x l \/ x <= a -> x <= fold_left Nat.max l a).
  { induction l as [|y l IH]; intros a x [H|H]; simpl in *; try contradiction; auto.
    - destruct H as [->|H]; apply IH; [right; lia|left; exact H].
    - apply IH. right. lia. }
  intros l x H. apply G. now left. Qed.
Section InputFixed.
Variable cur0 c0 : nat.
Notation rejS := (rej (Smark cur0) (Ccom c0)).
Fixpoint marks_of (n : node) : list mark := match n with NWrap _ _ m cs => m :: flat_map marks_of cs | _ => [] end.
Definition anchor_ids_kid (k : rchild) : list str := match k with CRef i => [i] | _ => [] end.
Fixpoint anchor_ids (n : node) : list str :=
  match n with
  | NRun _ _ ks => flat_map anchor_ids_kid ks
  | NWrap _ _ _ cs => flat_map anchor_ids cs
  | NCrs i | NCre i => [i]
  | NOther _ => [] end.
Definition old_stack (st : list (wkind * mark)) : Prop := Forall (fun km => Smark cur0 (snd km) = false) st.
Lemma strip_old st : old_stack st -> strip (Smark cur0) st = st.
Proof. unfold strip. induction 1 as [|km st H _ IH]; simpl; auto. now rewrite H, IH. Qed.
Lemma dead_old st : old_stack st -> dead (Smark cur0) st = false.
Proof. unfold dead. induction 1 as [|km st H _ IH]; simpl; auto. rewrite IH, H. destruct (fst km); reflexivity. Qed.
Lemma rej_fixed : forall n st, old_stack st -> Forall (fun m => Smark cur0 m = false) (marks_of n) ->
  Forall (fun i => Ccom c0 i = false) (anchor_ids n) -> rejS (atoms st n) = atoms st n.
Proof. induction n using node_ind'; intros st Hst Hm Ha; cbn [atoms].
  - cbn [anchor_ids] in Ha. clear Hm. induction k as [|x ks IHk]; [reflexivity|]. cbn [flat_map] in *. apply Forall_app in Ha as [Ha1 Ha2].
    unfold rej in *. rewrite flat_map_app, (IHk Ha2). f_equal.
    destruct x; cbn [kid_atoms flat_map rej_atom]; rewrite ?(dead_old _ Hst), ?(strip_old _ Hst); try reflexivity.
    + induction s as [|c s IHs]; simpl; auto. now rewrite (dead_old _ Hst), (strip_old _ Hst), IHs.
    + induction s as [|c s IHs]; simpl; auto. now rewrite (dead_old _ Hst), (strip_old _ Hst), IHs.
    + cbn [anchor_ids_kid] in Ha1. inversion Ha1; subst. now rewrite H1.
  - cbn [marks_of anchor_ids] in *. inversion Hm; subst. clear Hm.
    assert (Hst' : old_stack ((k, m) :: st)) by (constructor; auto).
    induction H as [|c cs Hc _ IHc]; [reflexivity|]. cbn [flat_map] in *.
    apply Forall_app in H3 as [M1 M2]. apply Forall_app in Ha as [A1 A2].
    unfold rej in *. rewrite flat_map_app. f_equal; [exact (Hc _ Hst' M1 A1)|exact (IHc A2 M2)].
  - cbn [anchor_ids] in Ha. inversion Ha; subst. unfold rej. cbn [flat_map rej_atom]. now rewrite H1, (dead_old _ Hst), (strip_old _ Hst).
  - cbn [anchor_ids] in Ha. inversion Ha; subst. unfold rej. cbn [flat_map rej_atom]. now rewrite H1, (dead_old _ Hst), (strip_old _ Hst).
  - unfold rej. cbn [flat_map rej_atom]. now rewrite (dead_old _ Hst), (strip_old _ Hst).
Qed.
End InputFixed.
(* every mark present when the session starts has an id <= scan_ids, hence is not a session mark *)
Lemma node_ids_marks n : forall m, In m (marks_of n) -> forall k, nat_of_str (m_id m) = Some k -> In k (node_ids n).
Proof. induction n using node_ind'; intros m0 Hin k0 Hk; cbn [marks_of node_ids] in *; try contradiction.
  destruct Hin as [<-|Hin]; [rewrite Hk; now left|]. apply in_or_app. right.
  apply in_flat_map in Hin as (c & Hc & Hin). apply in_flat_map. exists c. split; auto. rewrite Forall_forall in H. eapply H; eauto. Qed.
Theorem input_marks_old d p n : In p (doc_paras d) -> In n (p_nodes p) -> Forall (fun m => Smark (scan_ids d) m = false) (marks_of n).
Proof. intros Hp Hn. apply Forall_forall. intros m Hm. unfold Smark. destruct (nat_of_str (m_id m)) as [k|] eqn:E; auto.
  apply Nat.ltb_ge. apply max_list_ge. unfold scan_ids. apply in_flat_map. exists p. split; auto. apply in_flat_map. exists n. split; auto.
  eapply node_ids_marks; eauto. Qed.
Print Assumptions input_marks_old.

(* ---------- ids, comments, formatting: small facts used by C09 / C10 / C16 ---------- *)
Theorem new_mark_fresh e : let '(e', m) := new_mark e in
  nat_of_str (m_id m) = Some (S (e_cur e)) /\ e_cur e' = S (e_cur e) /\ m_author m = e_author e /\ m_date m = e_ts e.
Proof. unfold new_mark. cbn [m_id m_author m_date e_cur]. rewrite nat_of_str_of_nat. auto. Qed.
Theorem attach_one_comment e su eu c t :
  d_comments (e_doc (attach e su eu (c :: t))) =
  d_comments (e_doc e) ++ [{| c_id := str_of_nat (e_next_c e); c_author := e_author e; c_date := e_ts e; c_text := c :: t; c_parent := None |}]
  /\ e_next_c (attach e su eu (c :: t)) = S (e_next_c e).
Proof. unfold attach. cbn [e_doc e_next_c]. split; [|reflexivity].
  unfold fresh, upd_doc, map_doc. cbn [d_comments fst]. reflexivity. Qed.
Theorem attach_no_comment e su eu : attach e su eu [] = e.
Proof. reflexivity. Qed.
(* inherited formatting: every rPr token other than the bold / italic toggles survives apply_run_props, in order *)
Definition others (l : list (N * N)) : list (N * N) := filter (fun tv => negb (N.eqb (fst tv) t_b) && negb (N.eqb (fst tv) t_i)) l.
Lemma set_first_others tag v : (tag = t_b \/ tag = t_i) -> forall l done, others (set_first tag v l done) = others l.
Proof. intros Ht. induction l as [|[t v0] r IH]; intros done; [reflexivity|]. cbn [set_first]. destruct (N.eqb t tag && negb done) eqn:E.
  - apply andb_true_iff in E as [E _]. apply N.eqb_eq in E. subst t. unfold others in *. cbn [filter fst]. rewrite IH. destruct Ht as [-> | ->]; reflexivity.
  - unfold others in *. cbn [filter fst]. now rewrite IH. Qed.
Lemma set_prop_others tag on sup l : (tag = t_b \/ tag = t_i) -> others (set_prop tag on sup l) = others l.
Proof. intros Ht. unfold set_prop. destruct on.
  - destruct (existsb _ l); [now apply set_first_others|]. unfold others. rewrite filter_app. cbn [filter fst]. destruct Ht as [-> | ->]; cbn; now rewrite app_nil_r.
  - destruct sup; [now apply set_first_others|reflexivity]. Qed.
Theorem apply_run_props_inherits f b i sup :
  others (match apply_run_props f b i sup with Some l => l | None => [] end) = others (match f with Some l => l | None => [] end).
Proof. unfold apply_run_props. destruct (negb b && negb i && negb sup); [reflexivity|].
  rewrite set_prop_others by (now right). apply set_prop_others. now left. Qed.
Definition is_on (tag : N) (l : list (N * N)) : bool := existsb (fun tv => N.eqb (fst tv) tag && negb (N.eqb (snd tv) 0)) l.
Lemma set_first_on tag : forall l, existsb (fun tv => N.eqb (fst tv) tag) l = true -> is_on tag (set_first tag 2%N l false) = true.
Proof. unfold is_on. induction l as [|[t v] r IH]; [discriminate|]. cbn [existsb fst set_first]. destruct (N.eqb t tag) eqn:Et; cbn [andb negb orb].
  - intros _. cbn [existsb fst snd]. now rewrite Et.
  - intros H. cbn [existsb fst snd]. rewrite Et. cbn [andb orb]. now apply IH. Qed.
Lemma set_first_other_on tag tag' v : tag <> tag' -> forall l done, is_on tag (set_first tag' v l done) = is_on tag l.
Proof. intros Hne. unfold is_on. induction l as [|[t v0] r IH]; intros done; [reflexivity|]. cbn [set_first]. destruct (N.eqb t tag' && negb done) eqn:E.
  - apply andb_true_iff in E as [E _]. apply N.eqb_eq in E. subst t. cbn [existsb fst snd]. rewrite IH.
    assert (N.eqb tag' tag = false) by (apply N.eqb_neq; congruence). now rewrite H.
  - cbn [existsb fst snd]. now rewrite IH. Qed.
Theorem apply_run_props_bold f i sup : prop_on t_b (apply_run_props f true i sup) = true.
Proof. unfold apply_run_props. cbn [negb andb]. unfold prop_on. fold (is_on t_b (set_prop t_i i sup (set_prop t_b true sup (match f with Some l => l | None => [] end)))).
  set (l := match f with Some l => l | None => [] end).
  assert (G : is_on t_b (set_prop t_b true sup l) = true).
  { unfold set_prop. destruct (existsb (fun tv => N.eqb (fst tv) t_b) l) eqn:E; [now apply set_first_on|]. unfold is_on. rewrite existsb_app. cbn. now rewrite orb_true_r. }
  unfold set_prop at 1. destruct i.
  - destruct (existsb _ _); [rewrite set_first_other_on by discriminate; exact G|]. unfold is_on in *. rewrite existsb_app, G. reflexivity.
  - destruct sup; [rewrite set_first_other_on by discriminate; exact G|exact G]. Qed.
(* literal text: without a well-formed span the new text is inserted as one run, character for character *)
Theorem parse_inline_literal isspace isword fuel s b i : s <> [] -> search isspace isword s None 0 = None ->
  parse_inline isspace isword (S fuel) s b i = [(s, b, i)].
Proof. intros Hs H. cbn [parse_inline]. destruct s; [congruence|]. now rewrite H. Qed.
Print Assumptions apply_run_props_inherits.

(* ---------- block insertions: heading lines, paragraph properties, one comment ---------- *)
Lemma strip_hashes_repeat k t : strip_hashes (repeat c_hashN k ++ 32%N :: t) = 32%N :: t.
Proof. induction k as [|k IH]; [reflexivity|]. cbn [repeat app strip_hashes]. now rewrite N.eqb_refl. Qed.
Lemma count_hashes_repeat k t : count_hashes (repeat c_hashN k ++ 32%N :: t) = k.
Proof. induction k as [|k IH]; [reflexivity|]. cbn [repeat app count_hashes]. now rewrite N.eqb_refl, IH. Qed.
(* k >= 1 '#' followed by a space: a heading line of level k; its text is what follows, stripped *)
Theorem md_style_heading k t : md_style (repeat c_hashN (S k) ++ 32%N :: t) = (strip_ws (32%N :: t), Some (S k)).
Proof. unfold md_style. cbn [repeat app]. rewrite N.eqb_refl.
  change (c_hashN :: repeat c_hashN k ++ 32%N :: t) with (repeat c_hashN (S k) ++ 32%N :: t).
  rewrite strip_hashes_repeat, count_hashes_repeat. reflexivity. Qed.
Theorem md_style_plain c s : N.eqb c c_hashN = false -> md_style (c :: s) = (c :: s, None).
Proof. intros H. unfold md_style. now rewrite H. Qed.
(* the paragraph created for a line: one w:ins holding the line's runs; a heading line gets the heading style and no other
   paragraph property, any other line a copy of the current paragraph's properties and style *)
Theorem new_para_shape e text anc sup st cur :
  let '(_, p, iu) := new_para e text anc sup st cur in
  p_nodes p = [snd (ins_inline e text anc sup)] /\ iu = node_uid (snd (ins_inline e text anc sup)) /\
  p_style p = match st with Some l => PSHeading l | None => p_style cur end /\
  p_ppr p = match st with Some _ => 0%N | None => ppr_no_sect (p_ppr cur) end.
Proof. unfold new_para. destruct (ins_inline e text anc sup) as [e1 ins]. destruct (fresh_e e1) as [e2 pid]. cbn. auto. Qed.

Definition same_meta (e e' : eng) : Prop :=
  d_comments (e_doc e') = d_comments (e_doc e) /\ e_next_c e' = e_next_c e /\ e_author e' = e_author e /\ e_ts e' = e_ts e.
Lemma sm_refl e : same_meta e e. Proof. repeat split. Qed.
Lemma sm_trans a b c : same_meta a b -> same_meta b c -> same_meta a c.
Proof. intros (A1 & A2 & A3 & A4) (B1 & B2 & B3 & B4). repeat split; congruence. Qed.
Lemma sm_fresh_e e : same_meta e (fst (fresh_e e)). Proof. repeat split. Qed.
Lemma sm_new_mark e : same_meta e (fst (new_mark e)). Proof. repeat split. Qed.
Lemma sm_with_doc e d : d_comments d = d_comments (e_doc e) -> same_meta e (with_doc e d). Proof. intros H. repeat split; auto. Qed.
Lemma sm_ins_inline e text anc sup : same_meta e (fst (ins_inline e text anc sup)).
Proof. unfold ins_inline. set (segs := parse_inline _ _ _ _ _ _).
  assert (G : forall l e0 rs, same_meta e0 (fst (fold_left (fun acc seg => let '(e0, rs) := acc in let '(t, b, i) := seg in
                        let '(e0', u) := fresh_e e0 in (e0', rs ++ [(u, apply_run_props anc b i sup, [CT t])])) l (e0, rs)))).
  { induction l as [|[[t b] i] l IH]; intros e0 rs; [apply sm_refl|]. cbn [fold_left].
    pose proof (sm_fresh_e e0) as H1. destruct (fresh_e e0) as [e0' u]. cbn [fst] in H1. exact (sm_trans _ _ _ H1 (IH e0' _)). }
  specialize (G segs e []). destruct (fold_left _ segs (e, [])) as [e1 runs]. cbn [fst] in G.
  pose proof (sm_fresh_e e1) as H2. destruct (fresh_e e1) as [e2 iu]. cbn [fst] in H2.
  pose proof (sm_new_mark e2) as H3. destruct (new_mark e2) as [e3 m]. cbn [fst] in *.
  exact (sm_trans _ _ _ G (sm_trans _ _ _ H2 H3)). Qed.
Lemma sm_new_para e text anc sup st cur : same_meta e (fst (fst (new_para e text anc sup st cur))).
Proof. unfold new_para. pose proof (sm_ins_inline e text anc sup) as H1. destruct (ins_inline e text anc sup) as [e1 ins]. cbn [fst] in H1.
  pose proof (sm_fresh_e e1) as H2. destruct (fresh_e e1) as [e2 pid]. cbn [fst] in *. exact (sm_trans _ _ _ H1 H2). Qed.
Lemma sm_fold anc sup cur skip : forall ls e ns cr i,
  same_meta e (fst (fst (fst (fold_left (new_paras_step anc sup cur skip) ls (e, ns, cr, i))))).
Proof. induction ls as [|l ls IH]; intros e ns cr i; cbn [fold_left]; [apply sm_refl|].
  unfold new_paras_step at 2. destruct (md_style l) as [ct st]. destruct (skip && _); [apply IH|].
  pose proof (sm_new_para e ct anc sup st cur) as H1. destruct (new_para e ct anc sup st cur) as [[e' p] iu]. cbn [fst] in H1.
  exact (sm_trans _ _ _ H1 (IH _ _ _ _)). Qed.
Lemma fold_created_nonempty anc sup cur skip : forall ls e ns cr i, cr <> [] ->
  snd (fst (fold_left (new_paras_step anc sup cur skip) ls (e, ns, cr, i))) <> [].
Proof. induction ls as [|l ls IH]; intros e ns cr i H; cbn [fold_left]; [exact H|].
  unfold new_paras_step at 2. destruct (md_style l) as [ct st]. destruct (skip && _); [now apply IH|].
  destruct (new_para e ct anc sup st cur) as [[e' p] iu]. apply IH. destruct cr; discriminate. Qed.
Lemma split_lines_aux_nonempty : forall s cur b, split_lines_aux s cur b <> [].
Proof. induction s as [|c r IH]; intros cur b; cbn [split_lines_aux]; [discriminate|].
  destruct (is_nl c); [destruct b; [apply IH|discriminate]|apply IH]. Qed.
(* a commented block insertion adds exactly one comment record: on the heading path track_insert attaches it itself (and
   returns no inline element), otherwise the caller attaches it to the inline w:ins it gets back *)
Theorem track_insert_one_comment e text anc cur c t sup :
  let r := track_insert e text anc cur (c :: t) sup in
  d_comments (e_doc (fst r)) = d_comments (e_doc e) ++
    match snd r with
    | Some _ => []
    | None => [{| c_id := str_of_nat (e_next_c e); c_author := e_author e; c_date := e_ts e; c_text := c :: t; c_parent := None |}]
    end.
Proof. cbn zeta. unfold track_insert. destruct (split_lines text) as [|l0 rest] eqn:El; [exfalso; exact (split_lines_aux_nonempty _ _ _ El)|].
  destruct (md_style l0) as [ct0 st0] eqn:E0. cbn [snd]. destruct st0 as [lv|].
  - pose proof (sm_fold anc sup cur true (l0 :: rest) e [] [] 0) as G.
    assert (Hne : snd (fst (fold_left (new_paras_step anc sup cur true) (l0 :: rest) (e, [], [], 0))) <> []).
    { cbn [fold_left]. unfold new_paras_step at 2. rewrite E0. cbv beta iota zeta.
      assert (Ek : (true && match ct0 with [] => false | _ :: _ => false end) = false) by (destruct ct0; reflexivity).
      try rewrite Ek.
      destruct (new_para e ct0 anc sup (Some lv) cur) as [[e' p] iu]. apply fold_created_nonempty. discriminate. }
    destruct (fold_left _ (l0 :: rest) (e, [], [], 0)) as [[[e1 news] created] k]. cbn [fst snd] in *.
    destruct created as [|c0' cr]; [congruence|].
    destruct G as (G1 & G2 & G3 & G4).
    match goal with |- context[attach ?ee ?a ?b (c :: t)] => destruct (attach_one_comment ee a b c t) as [A1 _]; rewrite A1 end.
    cbn [with_doc e_doc e_next_c e_author e_ts place_paras d_comments]. now rewrite G1, G2, G3, G4.
  - set (rest' := match last_opt rest with Some [] => removelast rest | _ => rest end).
    assert (G0 : forall e1 (oins : option node), same_meta e e1 -> (oins = None -> rest' <> []) ->
      let '(e2, news, created, _) := fold_left (new_paras_step anc sup cur false) rest' (e1, [], [], 0) in
      let e3 := with_doc e2 (place_paras (p_id cur) news (e_doc e2)) in
      let r := match oins, created with
               | None, c0 :: _ => (attach e3 c0 (match last_opt created with Some x => x | None => c0 end) (c :: t), None)
               | _, _ => (e3, oins) end in
      d_comments (e_doc (fst r)) = d_comments (e_doc e) ++
        match snd r with
        | Some _ => []
        | None => [{| c_id := str_of_nat (e_next_c e); c_author := e_author e; c_date := e_ts e; c_text := c :: t; c_parent := None |}]
        end).
    { intros e1 oins S1 Hne. pose proof (sm_fold anc sup cur false rest' e1 [] [] 0) as G.
      assert (Hcr : oins = None -> snd (fst (fold_left (new_paras_step anc sup cur false) rest' (e1, [], [], 0))) <> []).
      { intros En. specialize (Hne En). destruct rest' as [|r0 rr]; [congruence|]. cbn [fold_left]. unfold new_paras_step at 2.
        destruct (md_style r0) as [ct st]. cbn [andb]. destruct (new_para e1 ct anc sup st cur) as [[e' p] iu]. apply fold_created_nonempty. discriminate. }
      destruct (fold_left _ rest' (e1, [], [], 0)) as [[[e2 news] created] k]. cbn [fst snd] in *. cbn zeta.
      pose proof (sm_trans _ _ _ S1 G) as (G1 & G2 & G3 & G4).
      destruct oins as [ins|].
      - cbn [fst snd with_doc e_doc place_paras d_comments]. now rewrite app_nil_r.
      - specialize (Hcr eq_refl). destruct created as [|c0' cr]; [congruence|]. cbn [fst snd].
        match goal with |- context[attach ?ee ?a ?b (c :: t)] => destruct (attach_one_comment ee a b c t) as [A1 _]; rewrite A1 end.
        cbn [with_doc e_doc e_next_c e_author e_ts place_paras d_comments]. now rewrite G1, G2, G3, G4. }
    destruct l0 as [|x l0'].
    + destruct rest' as [|r0 rr] eqn:Er.
      * pose proof (sm_ins_inline e [] anc sup) as H1. destruct (ins_inline e [] anc sup) as [e1 ins]. cbn [fst] in H1.
        pose proof (G0 e1 (Some ins) H1 ltac:(discriminate)) as G.
        match type of G with context[fold_left ?f ?l ?a] => destruct (fold_left f l a) as [[[e2 news] created] k] end. cbv beta iota zeta in G |- *. exact G.
      * pose proof (G0 e None (sm_refl e) ltac:(discriminate)) as G.
        match type of G with context[fold_left ?f ?l ?a] => destruct (fold_left f l a) as [[[e2 news] created] k] end. cbv beta iota zeta in G |- *. exact G.
    + pose proof (sm_ins_inline e (x :: l0') anc sup) as H1. destruct (ins_inline e (x :: l0') anc sup) as [e1 ins]. cbn [fst] in H1.
      pose proof (G0 e1 (Some ins) H1 ltac:(discriminate)) as G.
      match type of G with context[fold_left ?f ?l ?a] => destruct (fold_left f l a) as [[[e2 news] created] k] end. cbv beta iota zeta in G |- *. exact G.
Qed.
Print Assumptions track_insert_one_comment.

(* ---------- C03: the map's text is the reader's text; resolving a range never changes the tape ---------- *)
Lemma offsets_text d : forall l off, map_text (offsets d l off) = flat_map sp_text l.
Proof. induction l as [|s l IH]; intros off; [reflexivity|]. cbn [offsets]. unfold map_text in *. cbn [flat_map o_text]. now rewrite IH. Qed.
Theorem map_text_is_extract clean d : map_text (build_map clean (d_comments d) d) = extract_u clean d.
Proof. unfold build_map. rewrite offsets_text. unfold extract_u, extract, full_text, doc_spans_u, with_comments.
  destruct d; reflexivity. Qed.
Lemma offsets_contiguous d : forall l off, 
  (fix chain (l : list ospan) (o : nat) : Prop := match l with [] => True | s :: r => o_start s = o /\ o_end s = o + length (o_text s) /\ chain r (o_end s) end) (offsets d l off) off.
Proof. induction l as [|s l IH]; intros off; [exact I|]. cbn [offsets o_start o_end o_text]. repeat split. apply IH. Qed.
Definition atape (p : para) := (p_id p, p_ppr p, p_style p, atoms_l [] (p_nodes p)).
Definition ARel (d d' : doc) : Prop := map atape (doc_paras d') = map atape (doc_paras d) /\ d_stories (skeleton d') = d_stories (skeleton d) /\ d_comments d' = d_comments d.
Lemma ARel_refl d : ARel d d. Proof. repeat split. Qed.
Lemma ARel_trans a b c : ARel a b -> ARel b c -> ARel a c.
Proof. intros (A1 & A2 & A3) (B1 & B2 & B3). repeat split; congruence. Qed.
Lemma ARel_upd f d : (forall n ns st, f n = Some ns -> atoms_l st ns = atoms st n) -> ARel d (upd_doc f d).
Proof. intros Hf. unfold upd_doc. split; [|split].
  - rewrite doc_paras_map, map_map. apply map_ext. intros q. unfold atape, with_nodes. cbn [p_id p_ppr p_style p_nodes]. f_equal.
    unfold upd_l, atoms_l. induction (p_nodes q) as [|n ns IH]; [reflexivity|]. cbn [flat_map]. rewrite flat_map_app, IH. f_equal. now apply upd_atoms.
  - f_equal. apply skeleton_map. reflexivity.
  - reflexivity. Qed.
Lemma ARel_fresh d : ARel d (fst (fresh d)). Proof. repeat split. Qed.
Lemma ARel_split d uid k : ARel d (fst (fst (do_split d uid k))).
Proof. unfold do_split. pose proof (ARel_fresh d) as F. destruct (fresh d) as [d1 nu]. cbn [fst] in *.
  eapply ARel_trans; [exact F|]. apply ARel_upd. intros n ns st E. exact (split_run_atoms _ _ _ _ _ st E). Qed.
Ltac brk2 := match goal with
  | |- context[match ?x with _ => _ end] => destruct x eqn:?
  | |- context[if ?x then _ else _] => destruct x eqn:?
  end.
Theorem resolve_keeps_tape d sp a b : ARel d (fst (fst (resolve d sp a b))).
Proof. unfold resolve.
  destruct (filter o_real _) as [|first rest] eqn:Er; [apply ARel_refl|].
  set (ro := offset_in_run sp first + (a - o_start first)).
  destruct (0 <? ro) eqn:E0.
  - pose proof (ARel_split d (o_uid first) ro) as S1. destruct (do_split d (o_uid first) ro) as [[d' l] r]. cbn [fst] in S1.
    repeat (brk2; cbn [fst]; try exact S1).
    all: try (match goal with H : do_split ?dd ?u ?k = (?d2, _, _) |- _ => pose proof (ARel_split dd u k) as S2; rewrite H in S2; cbn [fst] in S2; exact (ARel_trans _ _ _ S1 S2) end).
  - repeat (brk2; cbn [fst]; try apply ARel_refl).
    all: try (match goal with H : do_split ?dd ?u ?k = (?d2, _, _) |- _ => pose proof (ARel_split dd u k) as S2; rewrite H in S2; cbn [fst] in S2; exact S2 end).
Qed.
Theorem anchor_keeps_tape d sp i : ARel d (fst (insertion_anchor d sp i)).
Proof. unfold insertion_anchor, gap_anchor, after_span.
  repeat (brk2; cbn [fst]; try apply ARel_refl).
  all: try (match goal with H : do_split ?dd ?u ?k = (?d2, _, _) |- _ => pose proof (ARel_split dd u k) as S2; rewrite H in S2; cbn [fst] in S2; exact S2 end).
Qed.
Print Assumptions resolve_keeps_tape.

(* ---------- C08: an edit that is not applied leaves no trace (only run boundaries may move) ---------- *)
Definition sdoc (s : est) : doc := e_doc (s_eng s).
Definition applied (o : outcome) : bool := match o with Applied | AppliedN => true | _ => false end.
Ltac leafA := cbn [fst snd applied]; let HH := fresh "HH" in intros HH; try discriminate HH; try apply ARel_refl.
Lemma nested_replace_not_applied s i nw cm :
  applied (snd (nested_replace s i nw cm)) = false -> fst (nested_replace s i nw cm) = s.
Proof. unfold nested_replace. destruct (first_ins i (e_doc (s_eng s))) as [n|]; [|reflexivity].
  destruct n; try reflexivity. destruct nw; [discriminate|].
  destruct (nested_inline _ _ _) as [e1 oins]. destruct oins; discriminate. Qed.
Lemma apply_indexed_not_applied s uc st tg nw cm o :
  applied (snd (apply_indexed s uc st tg nw cm o)) = false -> ARel (sdoc s) (sdoc (fst (apply_indexed s uc st tg nw cm o))).
Proof. unfold apply_indexed, sdoc.
  set (sp := if uc then _ else _). set (e := s_eng s) in *.
  destruct (match _ with Some c => is_some_nonempty (o_ins c) | None => false end).
  { intros HH. rewrite (nested_replace_not_applied _ _ _ _ HH). apply ARel_refl. }
  destruct (negb (block_ok nw)); [leafA|].
  destruct (match o with Some x => x | None => _ end).
  - pose proof (anchor_keeps_tape (e_doc e) sp st) as RA. destruct (insertion_anchor (e_doc e) sp st) as [d1 a0]. cbn [fst] in RA.
    match goal with |- context[let '(a, before) := ?X in _] => destruct X as [a before] end.
    destruct a as [au|]; [|cbn [fst snd set_eng s_eng with_doc e_doc]; intros _; exact RA].
    destruct (place_uid au before d1) as [pu|]; [|leafA].
    destruct (inline_text nw).
    + match goal with |- context[ins_inline ?a ?b ?c ?d] => destruct (ins_inline a b c d) as [e2 ins] end. leafA.
    + destruct (para_rec au d1); [|leafA].
      match goal with |- context[track_insert ?a ?b ?c ?d ?e0 ?f] => destruct (track_insert a b c d e0 f) as [e2 oi] end. destruct oi; leafA.
  - pose proof (resolve_keeps_tape (e_doc e) sp st (st + length tg)) as RR. destruct (resolve (e_doc e) sp st (st + length tg)) as [[d1 work] modif]. cbn [fst] in RR.
    set (s1 := if modif then _ else _).
    assert (Hs1 : e_doc (s_eng s1) = d1) by (unfold s1; destruct modif, uc; reflexivity).
    destruct work as [|w0 work']; [cbn [fst snd]; intros _; rewrite Hs1; exact RR|].
    destruct (negb (one_story d1 (w0 :: work'))); [cbn [fst snd]; intros _; rewrite Hs1; exact RR|].
    destruct (negb (all_direct d1 (w0 :: work'))); [leafA|].
    match goal with |- context[fold_left ?f ?l ?a] => destruct (fold_left f l a) as [e2 dels] end. leafA.
  - pose proof (resolve_keeps_tape (e_doc e) sp st (st + length tg)) as RR. destruct (resolve (e_doc e) sp st (st + length tg)) as [[d1 work] modif]. cbn [fst] in RR.
    set (s1 := if modif then _ else _).
    assert (Hs1 : e_doc (s_eng s1) = d1) by (unfold s1; destruct modif, uc; reflexivity).
    destruct work as [|w0 work']; [cbn [fst snd]; intros _; rewrite Hs1; exact RR|].
    destruct (negb (one_story d1 (w0 :: work'))); [cbn [fst snd]; intros _; rewrite Hs1; exact RR|].
    destruct (negb (all_direct d1 (w0 :: work'))); [leafA|].
    match goal with |- context[fold_left ?f ?l ?a] => destruct (fold_left f l a) as [e2 dels] end.
    destruct nw as [|c nw']; [leafA|].
    match goal with |- context[inline_text ?t] => destruct (inline_text t) end.
    + match goal with |- context[ins_inline ?a ?b ?c0 ?d] => destruct (ins_inline a b c0 d) as [e3 ins] end. leafA.
    + destruct (para_rec _ d1); [|leafA].
      match goal with |- context[track_insert ?a ?b ?c0 ?d ?e0 ?f] => destruct (track_insert a b c0 d e0 f) as [e3 oi] end. destruct oi; leafA.
Qed.
Lemma apply_located_not_applied s uc st ml nw cm :
  applied (snd (apply_located s uc st ml nw cm)) = false -> ARel (sdoc s) (sdoc (fst (apply_located s uc st ml nw cm))).
Proof. unfold apply_located.
  destruct (existsb _ _); [leafA|]. destruct (find _ (firstn 1 _)).
  { match goal with |- context[apply_indexed ?a ?b ?c ?d ?e ?f ?g0] => pose proof (apply_indexed_not_applied a b c d e f g0) as HH; destruct (apply_indexed a b c d e f g0) as [s' oc] end.
    cbn [fst snd] in *. destruct oc; cbn [applied] in *; intros E; try discriminate E; exact (HH eq_refl). }
  destruct (str_eqb _ _); [leafA|]. destruct (prefixb _ _); [apply apply_indexed_not_applied|].
  match goal with |- context[match ?a with [] => _ | _ :: _ => _ end] => destruct a end;
  match goal with |- context[match ?a with [] => _ | _ :: _ => _ end] => destruct a end; first [apply apply_indexed_not_applied | leafA]. Qed.
Lemma locate_doc s tg orc : sdoc (snd (fst (locate s tg orc))) = sdoc s.
Proof. unfold locate, sdoc. destruct (find_on (s_raw s) tg); [reflexivity|].
  destruct (approx (s_raw s) tg orc) as [m1 orc1]. match goal with |- context[find_on ?a tg] => destruct (find_on a tg) end; [reflexivity|].
  destruct m1; [reflexivity|]. match goal with |- context[find_match ?a ?b ?c] => destruct (find_match a b c) end. reflexivity. Qed.
Lemma apply_heuristic_not_applied s tg nw cm orc :
  applied (snd (fst (apply_heuristic s tg nw cm orc))) = false -> ARel (sdoc s) (sdoc (fst (fst (apply_heuristic s tg nw cm orc)))).
Proof. unfold apply_heuristic. destruct tg as [|c tg']; [intros _; apply ARel_refl|].
  pose proof (locate_doc s (c :: tg') orc) as HL. destruct (locate s (c :: tg') orc) as [[[m uc] s1] orc2]. cbn [fst snd] in HL.
  destruct m as [[st ml]|]; cbn [fst snd]; [|intros _; rewrite HL; apply ARel_refl].
  intros H. rewrite <- HL. now apply apply_located_not_applied. Qed.
Section NoTrace.
Variable d0 : doc.
Definition h_nt (a : hstate) : Prop := let '(s, ap, _, _, _, _, _) := a in ap = 0 -> ARel d0 (sdoc s).
Lemma step_heur_nt a edp : h_nt a -> h_nt (step_heur a edp).
Proof. destruct a as [[[[[[s ap] sk] out] orc] occ] nn]. destruct edp as [ed rng]. intros HI. unfold step_heur.
  destruct (negb (Nat.eqb out 0)); [exact HI|].
  destruct (match rng with Some (a, b) => overl occ a b | None => false end); [exact HI|].
  pose proof (apply_heuristic_not_applied s (ed_target ed) (ed_new ed) (ed_comment ed) orc) as HH.
  destruct (apply_heuristic s _ _ _ orc) as [[s' oc] orc']. cbn [fst snd] in HH. destruct oc; cbn [h_nt applied] in *; try discriminate;
  intros E; exact (ARel_trans _ _ _ (HI E) (HH eq_refl)). Qed.
Lemma fold_heur_nt : forall es a, h_nt a -> h_nt (fold_left step_heur es a).
Proof. induction es as [|ed es IH]; intros a H; cbn [fold_left]; [exact H|]. apply IH. now apply step_heur_nt. Qed.
Definition i_nt (a : istate) : Prop := let '(s, ap, _, _, _, _) := a in ap = 0 -> ARel d0 (sdoc s).
Lemma step_idx_nt a ed : i_nt a -> i_nt (step_idx a ed).
Proof. destruct a as [[[[[s ap] sk] out] occ] nn]. intros HI. unfold step_idx.
  destruct (negb (Nat.eqb out 0)); [exact HI|].
  destruct (overl occ _ _); [exact HI|].
  match goal with |- context[apply_indexed ?a ?b ?c ?d ?e ?f ?g] => pose proof (apply_indexed_not_applied a b c d e f g) as HH; destruct (apply_indexed a b c d e f g) as [s' oc] end.
  cbn [fst snd] in HH. destruct oc; cbn [i_nt applied] in *; try discriminate; intros E; exact (ARel_trans _ _ _ (HI E) (HH eq_refl)). Qed.
Lemma fold_idx_nt : forall es a, i_nt a -> i_nt (fold_left step_idx es a).
Proof. induction es as [|ed es IH]; intros a H; cbn [fold_left]; [exact H|]. apply IH. now apply step_idx_nt. Qed.
End NoTrace.
(* a batch in which nothing was applied - every edit skipped, or the model stopped at an out-of-scope edit - leaves the
   normalised input as it was: the same atoms (characters, formatting, marks, anchors, other content) in every paragraph, the
   same stories / tables / cells, the same comment records; only run boundaries may have moved *)
Theorem engine_no_trace d author ts edits orc :
  let '(d', ap, _, _, _) := apply_edits d author ts edits orc in ap = 0 -> ARel (normalize_doc d) d'.
Proof. unfold apply_edits. set (nd := normalize_doc d).
  set (e := mk_engine d author ts).
  set (s0 := {| s_eng := e; s_raw := _; s_clean := None; s_cm0 := _; s_cmc := []; s_xp := 0 |}).
  assert (H0 : i_nt nd (s0, 0, 0, 0, [], 0)) by (intros _; apply ARel_refl).
  set (indexed := filter _ edits). set (heur := filter (fun x => match ed_index x with Some _ => false | None => true end) edits).
  pose proof (fold_idx_nt nd (sort_idx_desc indexed) _ H0) as HI.
  destruct (fold_left step_idx (sort_idx_desc indexed) (s0, 0, 0, 0, [], 0)) as [[[[[s1 ap1] sk1] out1] occ1] nn1]. cbn [i_nt] in HI.
  destruct heur as [|h heur']; [exact HI|].
  destruct (plan (s_raw (rebuild s1)) (sort_len_desc (h :: heur')) orc) as [planned orc1].
  pose proof (fold_heur_nt nd planned (rebuild s1, ap1, sk1, out1, orc1, occ1, nn1) HI) as HH.
  destruct (fold_left step_heur planned _) as [[[[[[s2 ap2] sk2] out2] orc2] occ2] nn2]. exact HH. Qed.
Print Assumptions engine_no_trace.

(* ---------- histories: every session satisfies its single-step contract relative to the document it loaded ---------- *)
From Adeu Require Import History.
(* paragraph identities are kept by everything that maps over paragraphs; next_uid only grows: well-formedness survives every session *)
Lemma wf_map_doc f d : (forall p, p_id (f p) = p_id p) -> wf_ids d -> wf_ids (map_doc f d).
Proof. intros Hf. apply wf_of_ids; [now apply ids_map_doc|cbn; lia]. Qed.
Lemma ids_normalize d : map p_id (doc_paras (normalize_doc d)) = map p_id (doc_paras d).
Proof. unfold doc_paras, normalize_doc. cbn [d_stories]. rewrite fm_map', !map_fm. apply fm_ext_in. intros s _.
  unfold normalize_story. destruct (N.eqb (s_kind s) 1); unfold map_story; cbn [s_blocks]; rewrite fm_map', !map_fm; apply fm_ext_in; intros b _;
  rewrite block_paras_map, map_map; apply map_ext; reflexivity. Qed.
Lemma wf_normalize d : wf_ids d -> wf_ids (normalize_doc d).
Proof. apply wf_of_ids; [apply ids_normalize|cbn; lia]. Qed.
Lemma wf_upd_doc f d : wf_ids d -> wf_ids (upd_doc f d).
Proof. unfold upd_doc. apply wf_map_doc. reflexivity. Qed.
Lemma wf_reply a t d tg tx : wf_ids d -> wf_ids (fst (reply_doc a t d tg tx)).
Proof. intros W. unfold reply_doc. destruct (negb (existsb _ (d_comments d))); [exact W|].
  set (d1 := {| d_stories := d_stories d; d_next_uid := d_next_uid d; d_comments := _ |}).
  assert (W1 : wf_ids d1) by exact W.
  assert (W2 : wf_ids (fst (fresh d1))). { revert W1. apply wf_of_ids; [reflexivity|cbn; lia]. }
  destruct (fresh d1) as [d2 ru]. cbn [fst] in W2.
  destruct (negb _); [exact W2|]. cbn [fst]. now repeat apply wf_upd_doc. Qed.
Lemma wf_apply_actions a t : forall acts st, wf_ids (fst (fst st)) -> wf_ids (fst (fst (fold_left (step_action (reply_doc a t)) acts st))).
Proof. induction acts as [|x acts IH]; intros st W; cbn [fold_left]; [exact W|]. apply IH.
  destruct st as [[d ap] sk]. cbn [fst] in W. unfold step_action. destruct (route (a_target x)) as [[tid ic] im].
  destruct (a_kind x).
  - destruct (ic && doc_has_id tid d); cbn [fst]; [unfold accept_doc; apply wf_map_doc; [reflexivity|exact W]|exact W].
  - destruct (ic && doc_has_id tid d); cbn [fst]; [unfold reject_doc; apply wf_map_doc; [reflexivity|exact W]|exact W].
  - destruct im.
    + pose proof (wf_reply a t d tid (a_text x) W) as Wr. destruct (reply_doc a t d tid (a_text x)) as [d' ok]. cbn [fst] in Wr. destruct ok; exact Wr.
    + exact W. Qed.
Lemma wf_run_session d s : wf_ids d -> wf_ids (run_session d s).
Proof. intros W. destruct s as [a t es o|a t acts|]; cbn [run_session].
  - pose proof (engine_rel d a t es o (wf_normalize d W)) as H. destruct (apply_edits d a t es o) as [[[[d' ap] sk] out] nn]. exact (proj2 H).
  - unfold review_session, apply_actions. pose proof (wf_apply_actions a t acts (normalize_doc d, 0, 0) (wf_normalize d W)) as H.
    destruct (fold_left _ acts (normalize_doc d, 0, 0)) as [[d' ap] sk]. exact H.
  - unfold accept_all_doc. apply wf_map_doc; [reflexivity|now apply wf_normalize]. Qed.
Definition session_contract (d : doc) (s : session) (d' : doc) : Prop :=
  match s with
  | SEdits a t es o => let nd := normalize_doc d in snd (apply_edits d a t es o) = 0 -> RelG (scan_ids nd) (next_comment_id nd) (d_next_uid nd) nd d'
  | SReview a t acts => exists ap sk, review_session d a t acts = (d', ap, sk) /\ ap + sk = length acts
  | SAcceptAll => d' = accept_all_doc (normalize_doc d)
  end.
Lemma run_session_contract d s : wf_ids d -> session_contract d s (run_session d s).
Proof. intros W. destruct s as [a t es o|a t acts|]; cbn [run_session session_contract].
  - pose proof (engine_rel d a t es o (wf_normalize d W)) as H. destruct (apply_edits d a t es o) as [[[[d' ap] sk] out] nn]. cbn [snd]. exact (proj1 H).
  - pose proof (actions_count (reply_doc a t) (normalize_doc d) acts) as H. unfold review_session in *.
    destruct (apply_actions (reply_doc a t) (normalize_doc d) acts) as [[d' ap] sk]. exists ap, sk. auto.
  - reflexivity. Qed.
Fixpoint trace_ok (d : doc) (ss : list session) (tr : list doc) : Prop :=
  match ss, tr with
  | [], [] => True
  | s :: r, d' :: tr' => session_contract d s d' /\ wf_ids d' /\ trace_ok d' r tr'
  | _, _ => False end.
Theorem history_contracts : forall ss d, wf_ids d -> trace_ok d ss (run_history d ss).
Proof. induction ss as [|s r IH]; intros d W; cbn [run_history trace_ok]; auto.
  pose proof (wf_run_session d s W) as W'. split; [now apply run_session_contract|]. split; [exact W'|now apply IH]. Qed.
Print Assumptions history_contracts.

(* the instrumented batch (which also reports the model's count of cross-paragraph deletions / modifications) is the batch *)
Lemma apply_edits_x_fst d author ts edits orc : fst (apply_edits_x d author ts edits orc) = apply_edits d author ts edits orc.
Proof. unfold apply_edits_x, apply_edits.
  destruct (fold_left step_idx _ _) as [[[[[s1 ap1] sk1] out1] occ1] nn1].
  destruct (filter (fun x => match ed_index x with Some _ => false | None => true end) edits) as [|h heur']; [reflexivity|].
  destruct (plan _ _ _) as [planned orc1].
  destruct (fold_left step_heur _ _) as [[[[[[s2 ap2] sk2] out2] orc2] occ2] nn2]. reflexivity. Qed.

(* decision rule of fix D57: a deletion or modification is carried out only when the runs its range resolves to lie in ONE story -
   revision marks and comment ranges never span document parts.  (Applied, not AppliedN: the nested-insertion shortcut rewrites
   one w:ins, which lies in one paragraph.) *)
Lemma nested_replace_not_Applied s i nw cm : snd (nested_replace s i nw cm) <> Applied.
Proof. unfold nested_replace. destruct (first_ins i (e_doc (s_eng s))) as [n|]; [|cbn; discriminate].
  destruct n; try (cbn; discriminate). destruct nw; [cbn; discriminate|].
  destruct (nested_inline _ _ _) as [e1 oins]. destruct oins; cbn; discriminate. Qed.
Lemma apply_indexed_one_story s uc st tg nw cm o :
  match o with Some OpIns => False | Some _ => True | None => tg <> [] end ->
  snd (apply_indexed s uc st tg nw cm o) = Applied ->
  let sp := if uc then match s_clean s with Some m => m | None => s_raw s end else s_raw s in
  let '(d1, work, _) := resolve (e_doc (s_eng s)) sp st (st + length tg) in one_story d1 work = true.
Proof. intros Ho. unfold apply_indexed.
  set (sp := if uc then _ else _). set (e := s_eng s) in *.
  destruct (match _ with Some c => is_some_nonempty (o_ins c) | None => false end).
  { intros HH. exfalso. exact (nested_replace_not_Applied _ _ _ _ HH). }
  destruct (negb (block_ok nw)); [cbn [snd]; discriminate|].
  cbn zeta.
  assert (Hop : (match o with Some x => x | None => match tg, nw with [], _ :: _ => OpIns | _ :: _, [] => OpDel | _, _ => OpMod end end) <> OpIns).
  { destruct o as [[| |]|]; try discriminate; [contradiction|]. destruct tg as [|c t]; [contradiction|]. destruct nw; discriminate. }
  destruct (match o with Some x => x | None => _ end); [contradiction| |].
  - destruct (resolve (e_doc e) sp st (st + length tg)) as [[d1 work] modif].
    destruct work as [|w0 work']; [cbn [snd]; discriminate|].
    destruct (one_story d1 (w0 :: work')); [reflexivity|]. cbn [negb snd]. discriminate.
  - destruct (resolve (e_doc e) sp st (st + length tg)) as [[d1 work] modif].
    destruct work as [|w0 work']; [cbn [snd]; discriminate|].
    destruct (one_story d1 (w0 :: work')); [reflexivity|]. cbn [negb snd]. discriminate.
Qed.

(* decision rule: text that is already marked deleted is not edited again - a located range that covers a deleted span is skipped and
   nothing at all changes (not even run boundaries) *)
Lemma apply_located_deleted (s : est) (uc : bool) (st ml : nat) (nw cm : str) :
  let sp : list ospan := if uc then match s_clean s with Some c => c | None => [] end else s_raw s in
  existsb (fun x => is_some_nonempty (o_del x)) (filter (fun x => o_real x && (st <? o_end x) && (o_start x <? st + ml)) sp) = true ->
  apply_located s uc st ml nw cm = (s, Skipped).
Proof. cbn zeta. intros H. unfold apply_located. now rewrite H. Qed.

(* fix D59: the element new text is placed next to is always a DIRECT child of a paragraph - the anchor run itself, or the tracked-change
   wrapper whose outermost run (on the side of the insertion) the anchor is; a w:ins is never put inside somebody's wrapper *)
Lemma edge_wrapper_spec uid before : forall ns u, edge_wrapper uid before ns = Some u ->
  exists k m cs r, In (NWrap u k m cs) ns /\ (if before then hd_error cs else last_opt cs) = Some r /\ is_run uid r = true.
Proof. induction ns as [|n ns IH]; intros u H; cbn [edge_wrapper] in H; [discriminate|].
  destruct n as [u0 f ks|u0 k m cs|c|c|o]; try (destruct (IH u H) as (k' & m' & cs' & r & Hi & He & Hr); exists k', m', cs', r; repeat split; auto; now right).
  destruct (if before then hd_error cs else last_opt cs) as [r|] eqn:E.
  - destruct (is_run uid r) eqn:Er.
    + inversion H; subst. exists k, m, cs, r. repeat split; auto. now left.
    + destruct (IH u H) as (k' & m' & cs' & r' & Hi & He & Hr). exists k', m', cs', r'. repeat split; auto. now right.
  - destruct (IH u H) as (k' & m' & cs' & r' & Hi & He & Hr). exists k', m', cs', r'. repeat split; auto. now right. Qed.
Lemma fold_first_some {A B} (f : A -> option B) : forall l acc b,
  fold_left (fun acc x => match acc with Some _ => acc | None => f x end) l acc = Some b -> acc = Some b \/ exists x, In x l /\ f x = Some b.
Proof. induction l as [|x l IH]; intros acc b H; cbn [fold_left] in H; [now left|].
  apply IH in H as [H|(y & Hy & Hf)].
  - destruct acc as [a|]; [now left|]. right. exists x. split; [now left|exact H].
  - right. exists y. split; [now right|exact Hf]. Qed.
Theorem place_uid_direct au before d pu : place_uid au before d = Some pu ->
  exists p n, In p (doc_paras d) /\ In n (p_nodes p) /\ has_uid pu n = true.
Proof. unfold place_uid. destruct (is_direct au d) eqn:E.
  - intros H. inversion H; subst. unfold is_direct in E. apply existsb_exists in E as (p & Hp & E).
    apply existsb_exists in E as (n & Hn & E). exists p, n. repeat split; auto.
    destruct n; cbn [is_run] in E; try discriminate. exact E.
  - intros H. apply fold_first_some in H as [H|(p & Hp & H)]; [discriminate|].
    apply edge_wrapper_spec in H as (k & m & cs & r & Hi & _ & _). exists p, (NWrap pu k m cs). repeat split; auto.
    cbn [has_uid]. apply Nat.eqb_refl. Qed.
