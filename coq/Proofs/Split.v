From Coq Require Import List NArith Bool Arith Lia.
Import ListNotations.
From Adeu Require Import Str Doc Prims Tree.
(* ---- the split is invisible on the atom tape, in every mark context ---- *)
Definition kids_atoms f st (kids : list rchild) := flat_map (kid_atoms f st) kids.
Lemma merge_text_atoms f st kids : kids_atoms f st (merge_text kids) = kids_atoms f st kids.
Proof.
  induction kids as [|x rest IH]; [reflexivity|].
  destruct x; cbn [merge_text]; try (unfold kids_atoms in *; cbn [flat_map]; now rewrite IH).
  - destruct (merge_text rest) as [|y r'] eqn:E; unfold kids_atoms in *; cbn [flat_map] in *; [now rewrite <- IH|].
    destruct y; cbn [flat_map] in *; rewrite <- IH; cbn [kid_atoms flat_map]; try reflexivity.
    now rewrite map_app, app_assoc.
  - destruct (merge_text rest) as [|y r'] eqn:E; unfold kids_atoms in *; cbn [flat_map] in *; [now rewrite <- IH|].
    destruct y; cbn [flat_map] in *; rewrite <- IH; cbn [kid_atoms flat_map]; try reflexivity.
    now rewrite map_app, app_assoc.
Qed.

Lemma left_empty f st : forall rest, let '(l, r) := split_kids 0 true rest in kids_atoms f st l = [].
Proof.
  unfold kids_atoms. induction rest as [|kid rest IH]; [reflexivity|].
  destruct kid; cbn [split_kids]; try (destruct (split_kids 0 true rest) as [l r]; exact IH).
  - destruct (length s <=? 0) eqn:E.
    + apply Nat.leb_le in E. destruct s; [|simpl in E; lia]. cbn [length Nat.sub].
      destruct (split_kids 0 true rest) as [l r]. cbn [flat_map kid_atoms map]. exact IH.
    + cbn [Nat.eqb]. destruct (split_kids 0 true rest) as [l r]. exact IH.
  - destruct (length s <=? 0) eqn:E.
    + apply Nat.leb_le in E. destruct s; [|simpl in E; lia]. cbn [length Nat.sub].
      destruct (split_kids 0 true rest) as [l r]. cbn [flat_map kid_atoms map]. exact IH.
    + cbn [Nat.eqb]. destruct (split_kids 0 true rest) as [l r]. exact IH.
Qed.

Lemma split_kids_atoms f st : forall kids k passed, (passed = true -> k = 0) ->
  let '(l, r) := split_kids k passed kids in kids_atoms f st l ++ kids_atoms f st r = kids_atoms f st kids.
Proof.
  unfold kids_atoms. induction kids as [|kid rest IH]; intros k passed Hp; [reflexivity|].
  pose proof (left_empty f st rest) as LE. unfold kids_atoms in LE.
  destruct kid; cbn [split_kids].
  - destruct (length s <=? k).
    + specialize (IH (k - length s) passed ltac:(intros E; rewrite (Hp E); reflexivity)). destruct (split_kids _ _ rest) as [l r]. cbn [flat_map]. now rewrite <- app_assoc, IH.
    + specialize (IH 0 true ltac:(reflexivity)). destruct (split_kids 0 true rest) as [l r]. rewrite LE in IH. simpl in IH.
      destruct (k =? 0); cbn [flat_map kid_atoms].
      * rewrite LE. simpl. now rewrite IH.
      * rewrite LE, app_nil_r. rewrite IH. rewrite app_assoc, <- map_app, firstn_skipn. reflexivity.
  - destruct (length s <=? k).
    + specialize (IH (k - length s) passed ltac:(intros E; rewrite (Hp E); reflexivity)). destruct (split_kids _ _ rest) as [l r]. cbn [flat_map]. now rewrite <- app_assoc, IH.
    + specialize (IH 0 true ltac:(reflexivity)). destruct (split_kids 0 true rest) as [l r]. rewrite LE in IH. simpl in IH.
      destruct (k =? 0); cbn [flat_map kid_atoms].
      * rewrite LE. simpl. now rewrite IH.
      * rewrite LE, app_nil_r. rewrite IH. rewrite app_assoc, <- map_app, firstn_skipn. reflexivity.
  - destruct (0 <? k).
    + specialize (IH (k - 1) passed ltac:(intros E; rewrite (Hp E); reflexivity)). destruct (split_kids _ _ rest) as [l r]. cbn [flat_map]. now rewrite <- app_assoc, IH.
    + specialize (IH 0 true ltac:(reflexivity)). destruct (split_kids 0 true rest) as [l r]. rewrite LE in IH |- *. simpl in IH |- *. now rewrite IH.
  - destruct (0 <? k).
    + specialize (IH (k - 1) passed ltac:(intros E; rewrite (Hp E); reflexivity)). destruct (split_kids _ _ rest) as [l r]. cbn [flat_map]. now rewrite <- app_assoc, IH.
    + specialize (IH 0 true ltac:(reflexivity)). destruct (split_kids 0 true rest) as [l r]. rewrite LE in IH |- *. simpl in IH |- *. now rewrite IH.
  - destruct (0 <? k).
    + specialize (IH (k - 1) passed ltac:(intros E; rewrite (Hp E); reflexivity)). destruct (split_kids _ _ rest) as [l r]. cbn [flat_map]. now rewrite <- app_assoc, IH.
    + specialize (IH 0 true ltac:(reflexivity)). destruct (split_kids 0 true rest) as [l r]. rewrite LE in IH |- *. simpl in IH |- *. now rewrite IH.
  - destruct passed.
    + rewrite (Hp eq_refl) in *. specialize (IH 0 true ltac:(reflexivity)). destruct (split_kids 0 true rest) as [l r].
      rewrite LE in IH |- *. simpl in IH |- *. now rewrite IH.
    + specialize (IH k false ltac:(discriminate)). destruct (split_kids k false rest) as [l r]. cbn [flat_map]. now rewrite <- app_assoc, IH.
  - destruct passed.
    + rewrite (Hp eq_refl) in *. specialize (IH 0 true ltac:(reflexivity)). destruct (split_kids 0 true rest) as [l r].
      rewrite LE in IH |- *. simpl in IH |- *. now rewrite IH.
    + specialize (IH k false ltac:(discriminate)). destruct (split_kids k false rest) as [l r]. cbn [flat_map]. now rewrite <- app_assoc, IH.
Qed.

(* the D2 primitive satisfies the local condition of upd_rej trivially: it does not change the atoms at all *)
Theorem split_run_atoms uid nu k n ns st : split_run uid nu k n = Some ns -> atoms_l st ns = atoms st n.
Proof.
  destruct n; simpl; try discriminate. destruct (Nat.eqb uid0 uid); [|discriminate].
  pose proof (split_kids_atoms f st kids k false ltac:(discriminate)) as H.
  destruct (split_kids k false kids) as [l r]. intros E; inversion E; subst; clear E.
  unfold atoms_l. cbn [flat_map atoms]. rewrite app_nil_r.
  fold (kids_atoms f st (merge_text l)). fold (kids_atoms f st (merge_text r)).
  rewrite !merge_text_atoms. exact H.
Qed.
Lemma upd_atoms (f : node -> option (list node)) :
  (forall n ns st, f n = Some ns -> atoms_l st ns = atoms st n) ->
  forall n st, atoms_l st (upd f n) = atoms st n.
Proof.
  intros Hloc. induction n using node_ind'; intros st; cbn [upd];
    try (match goal with |- context[f ?x] => destruct (f x) eqn:E end;
         [exact (Hloc _ _ st E)|unfold atoms_l; cbn [flat_map]; now rewrite app_nil_r]).
  match goal with |- context[f ?x] => destruct (f x) eqn:E end; [exact (Hloc _ _ st E)|].
  unfold atoms_l. cbn [flat_map atoms]. rewrite app_nil_r. clear E.
  match goal with H : Forall _ _ |- _ => induction H as [|c cs' Hc Hcs IH] end; cbn [flat_map]; auto.
  rewrite flat_map_app, IH. f_equal. apply Hc.
Qed.
Corollary split_run_tape uid nu k ns st : atoms_l st (upd_l (split_run uid nu k) ns) = atoms_l st ns.
Proof.
  unfold upd_l, atoms_l. induction ns as [|n ns IH]; [reflexivity|]. cbn [flat_map]. rewrite flat_map_app, IH. f_equal.
  apply upd_atoms. intros n0 ns0 st0 E. exact (split_run_atoms _ _ _ _ _ st0 E).
Qed.
Print Assumptions split_run_tape.
