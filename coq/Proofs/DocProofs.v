From Coq Require Import List NArith Bool Arith Lia.
Import ListNotations.
From Adeu Require Import Str ListX Doc Norm Project DocOps Review Tree Normalize ReviewProofs.

(* nested induction principle for blocks *)
Section BlockInd.
  Variable P : block -> Prop.
  Hypothesis Hp : forall p, P (BPara p).
  Hypothesis Ht : forall t rows, Forall (fun r => Forall (fun c => Forall P (snd c)) r) rows -> P (BTbl t rows).
  Fixpoint block_ind' (b : block) : P b :=
    match b with
    | BPara p => Hp p
    | BTbl t rows => Ht t rows
        ((fix rows_go (rs : list (list (N * list block))) : Forall (fun r => Forall (fun c => Forall P (snd c)) r) rs :=
            match rs with
            | [] => Forall_nil _
            | r :: rs' => Forall_cons _
                ((fix cells_go (cs : list (N * list block)) : Forall (fun c => Forall P (snd c)) cs :=
                    match cs with
                    | [] => Forall_nil _
                    | c :: cs' => Forall_cons _
                        ((fix bl_go (bs : list block) : Forall P bs :=
                            match bs with [] => Forall_nil _ | b' :: bs' => Forall_cons _ (block_ind' b') (bl_go bs') end) (snd c))
                        (cells_go cs')
                    end) r)
                (rows_go rs')
            end) rows)
    end.
End BlockInd.

Lemma fm_map' {A B C} (f : A -> B) (g : B -> list C) l : flat_map g (map f l) = flat_map (fun x => g (f x)) l.
Proof. induction l; simpl; congruence. Qed.
Lemma fm_ext_in {A B} (f g : A -> list B) l : (forall x, In x l -> f x = g x) -> flat_map f l = flat_map g l.
Proof. induction l; simpl; intros H; auto. rewrite H, IHl; auto. Qed.
Lemma map_fm {A B C} (f : B -> C) (g : A -> list B) l : map f (flat_map g l) = flat_map (fun x => map f (g x)) l.
Proof. induction l; simpl; auto. now rewrite map_app, IHl. Qed.

(* paragraphs of a transformed document = transformed paragraphs, same order *)
Lemma block_paras_map f : forall b, block_paras (map_block f b) = map f (block_paras b).
Proof. induction b using block_ind'; cbn [map_block block_paras]; auto.
  rewrite fm_map', map_fm. apply fm_ext_in. intros r Hr. rewrite Forall_forall in H. specialize (H r Hr).
  rewrite fm_map', map_fm. apply fm_ext_in. intros c Hc. rewrite Forall_forall in H. specialize (H c Hc). cbn [snd].
  rewrite fm_map', map_fm. apply fm_ext_in. intros b Hb. rewrite Forall_forall in H. exact (H b Hb). Qed.
Theorem doc_paras_map f d : doc_paras (map_doc f d) = map f (doc_paras d).
Proof. unfold doc_paras, map_doc. cbn [d_stories]. rewrite fm_map', map_fm. apply fm_ext_in. intros s _.
  unfold map_story. cbn [s_blocks]. rewrite fm_map', map_fm. apply fm_ext_in. intros b _. apply block_paras_map. Qed.
(* and nothing else moves: the skeleton (everything but paragraph content) is unchanged *)
Definition blank (p : para) : para := with_nodes p [].
Definition skeleton (d : doc) : doc := map_doc blank d.
Lemma map_block_comp f g : forall b, map_block f (map_block g b) = map_block (fun p => f (g p)) b.
Proof. induction b using block_ind'; cbn [map_block]; auto. f_equal.
  rewrite map_map. apply map_ext_in. intros r Hr. rewrite Forall_forall in H. specialize (H r Hr).
  rewrite map_map. apply map_ext_in. intros c Hc. rewrite Forall_forall in H. specialize (H c Hc). cbn [fst snd]. f_equal.
  rewrite map_map. apply map_ext_in. intros b Hb. rewrite Forall_forall in H. exact (H b Hb). Qed.
Lemma map_block_ext f g : (forall p, f p = g p) -> forall b, map_block f b = map_block g b.
Proof. intros E. induction b using block_ind'; cbn [map_block]; [now rewrite E|]. f_equal.
  apply map_ext_in. intros r Hr. rewrite Forall_forall in H. specialize (H r Hr).
  apply map_ext_in. intros c Hc. rewrite Forall_forall in H. specialize (H c Hc). f_equal.
  apply map_ext_in. intros b Hb. rewrite Forall_forall in H. exact (H b Hb). Qed.
Theorem skeleton_map f d : (forall p, blank (f p) = blank p) -> skeleton (map_doc f d) = skeleton d.
Proof. intros E. unfold skeleton, map_doc. cbn [d_stories d_comments d_next_uid]. f_equal.
  rewrite map_map. apply map_ext. intros s. unfold map_story. cbn [s_kind s_blocks]. f_equal.
  rewrite map_map. apply map_ext. intros b. rewrite map_block_comp. now apply map_block_ext. Qed.

(* ---------- C05 at document level ---------- *)
Definition para_tape (p : para) := (p_id p, p_ppr p, p_style p, atoms_l [] (p_nodes p)).
Definition para_tape_np (p : para) := (p_id p, p_ppr p, p_style p, atoms_l [] (np (p_nodes p))).
Lemma coalesce_para_atoms st ns : atoms_l st (coalesce_para ns) = atoms_l st ns.
Proof. apply coalesce_atoms. Qed.
(* per story: body paragraphs lose their proofErr marks, nothing else changes anywhere *)
Theorem normalize_story_tapes s :
  map para_tape (flat_map block_paras (s_blocks (normalize_story s))) =
  map (if N.eqb (s_kind s) 1 then para_tape_np else para_tape) (flat_map block_paras (s_blocks s)).
Proof. unfold normalize_story. destruct (N.eqb (s_kind s) 1); unfold map_story; cbn [s_blocks];
  rewrite fm_map', !map_fm; apply fm_ext_in; intros b _; rewrite block_paras_map, map_map; apply map_ext; intros p;
  unfold para_tape, para_tape_np, with_nodes; cbn [p_id p_ppr p_style p_nodes]; f_equal.
  - apply C05_para_neutral.
  - apply coalesce_para_atoms. Qed.
Theorem normalize_doc_skeleton d : skeleton (normalize_doc d) = skeleton d.
Proof. unfold skeleton, normalize_doc, map_doc. cbn [d_stories d_comments d_next_uid]. f_equal.
  rewrite map_map. apply map_ext. intros s. unfold normalize_story, map_story.
  destruct (N.eqb (s_kind s) 1); cbn [s_kind s_blocks]; f_equal; rewrite map_map; apply map_ext; intros b;
  rewrite map_block_comp; apply map_block_ext; reflexivity. Qed.
Theorem normalize_doc_comments d : d_comments (normalize_doc d) = d_comments d.
Proof. reflexivity. Qed.
(* idempotence, paragraph level *)
Lemma coalesce_fix : forall f ns, coalesce f (coalesce f ns) = coalesce f ns -> True. Proof. auto. Qed.
Print Assumptions normalize_story_tapes.
