From Coq Require Import List NArith Bool Arith Lia.
Import ListNotations.
From Adeu Require Import Str ListX Diff.

Definition is_eqdel o := match o with OIns => false | _ => true end.
Definition is_eqins o := match o with ODel => false | _ => true end.
Definition keep (f : op -> bool) (ds : list (op * str)) : str :=
  concat (map snd (filter (fun d => f (fst d)) ds)).
Definition op_eqb a b := match a, b with OEq, OEq | ODel, ODel | OIns, OIns => true | _, _ => false end.
Fixpoint no_adj (ds : list (op * str)) : Prop :=
  match ds with
  | [] => True
  | (o1, _) :: r => match r with (o2, _) :: _ => op_eqb o1 o2 = false | [] => True end /\ no_adj r
  end.

Definition guard (c : nat) (e : edit) (t : str) : bool :=
  (c <=? e_idx e) && str_eqb (slice t (e_idx e) (e_idx e + length (e_tgt e))) (e_tgt e)
  && (e_idx e + length (e_tgt e) <=? length t).
Fixpoint app_pre (es : list edit) (t : str) (c : nat) : option (str * nat) :=
  match es with
  | [] => Some ([], c)
  | e :: es' =>
    if guard c e t then
      match app_pre es' t (e_idx e + length (e_tgt e)) with
      | Some (o, c') => Some (slice t c (e_idx e) ++ e_new e ++ o, c')
      | None => None end
    else None
  end.
Lemma apply_script_pre es t c :
  apply_script es t c = match app_pre es t c with Some (o, c') => Some (o ++ skipn c' t) | None => None end.
Proof. revert c; induction es as [|e es IH]; intros c; simpl; auto.
  fold (guard c e t). destruct (guard c e t); auto. rewrite IH.
  destruct (app_pre es t _) as [[o c']|]; auto. now rewrite <- !app_assoc. Qed.
Lemma app_pre_snoc es e t c :
  app_pre (es ++ [e]) t c =
  match app_pre es t c with
  | Some (o, c') => if guard c' e t then Some (o ++ slice t c' (e_idx e) ++ e_new e, e_idx e + length (e_tgt e)) else None
  | None => None end.
Proof. revert c; induction es as [|e0 es IH]; intros c; simpl.
  - destruct (guard c e t); auto. now rewrite app_nil_r.
  - destruct (guard c e0 t); auto. rewrite IH. destruct (app_pre es t _) as [[o c']|]; auto.
    destruct (guard c' e t); auto. now rewrite <- !app_assoc. Qed.
Lemma guard_true c e t : c <= e_idx e -> slice t (e_idx e) (e_idx e + length (e_tgt e)) = e_tgt e ->
  e_idx e + length (e_tgt e) <= length t -> guard c e t = true.
Proof. intros H1 H2 H3. unfold guard. apply andb_true_iff; split; [apply andb_true_iff; split|].
  - now apply Nat.leb_le. - now apply str_eqb_eq. - now apply Nat.leb_le. Qed.

Lemma line_start_aux_le t cur pos best : best <= pos -> line_start_aux t cur pos best <= pos + cur.
Proof. revert t pos best; induction cur; intros [|c t] pos best H; simpl; try lia.
  destruct (ch_eqb c c_nl); (eapply Nat.le_trans; [apply IHcur|]; lia). Qed.
Lemma line_start_le t cur : line_start t cur <= cur.
Proof. unfold line_start. pose proof (line_start_aux_le t cur 0 0). lia. Qed.

Lemma take_until_space_prefix s : firstn (length (take_until_space s)) s = take_until_space s /\ length (take_until_space s) <= length s.
Proof. induction s as [|c s [IH1 IH2]]; simpl; auto. destruct (ch_eqb c c_sp); simpl; [split; [auto|lia]|]. rewrite IH1. split; [auto|lia]. Qed.
Lemma anchor_target_prefix nx : firstn (length (anchor_target nx)) nx = anchor_target nx /\ length (anchor_target nx) <= length nx.
Proof. unfold anchor_target. destruct (has_space nx); [apply take_until_space_prefix|].
  rewrite firstn_length. split; [|lia].
  destruct (le_lt_dec 20 (length nx)) as [H|H].
  - now replace (Nat.min 20 (length nx)) with 20 by lia.
  - replace (Nat.min 20 (length nx)) with (length nx) by lia. rewrite firstn_all. symmetry. apply firstn_all2. lia. Qed.

Record Inv (t : str) (s : st) (ds : list (op * str)) (m1 : str) : Prop := {
  i_cur : skipn (cur s) t = keep is_eqdel ds;
  i_le : cur s <= length t;
  i_pend : match pend s with
           | Some (i, d) => i + length d = cur s /\ slice t i (cur s) = d /\ last_end s <= i /\
                            match ds with (ODel, _) :: _ => False | _ => True end
           | None => True end;
  i_out : exists out, app_pre (rev (acc s)) t 0 = Some (out, last_end s) /\
          ((last_end s <= (match pend s with Some (i, _) => i | None => cur s end) /\
            out ++ slice t (last_end s) (match pend s with Some (i, _) => i | None => cur s end) = m1) \/
           (pend s = None /\ exists w nx rest, ds = (OEq, nx) :: rest /\ firstn (length w) nx = w /\
              length w <= length nx /\ last_end s = cur s + length w /\ out = m1 ++ w)) }.

Lemma keep_cons f o x ds : keep f ((o, x) :: ds) = if f o then x ++ keep f ds else keep f ds.
Proof. unfold keep. simpl. destruct (f o); reflexivity. Qed.

Lemma step_inv t s o x rest m1 :
  Inv t s ((o, x) :: rest) m1 -> no_adj ((o, x) :: rest) ->
  Inv t (step t s o x (hd_error rest)) rest (m1 ++ if is_eqins o then x else []).
Proof.
  intros [Hcur Hle Hpend (out & Hout & Hdisj)] Hadj.
  assert (Hnext : forall o2 x2 r2, rest = (o2, x2) :: r2 -> op_eqb o o2 = false).
  { intros o2 x2 r2 ->. simpl in Hadj. tauto. }
  assert (Hadj' : no_adj rest) by (simpl in Hadj; tauto).
  destruct o; simpl is_eqins; cbv iota.
  - (* Eq *)
    rewrite keep_cons in Hcur; simpl in Hcur.
    pose proof (skipn_app_prefix _ _ _ _ Hcur) as Hx.
    pose proof (skipn_app_rest _ _ _ _ Hcur) as Hr.
    pose proof (skipn_len_le _ _ _ _ Hle Hcur) as Hl.
    unfold step, flush. destruct (pend s) as [[i d]|] eqn:Ep.
    + destruct Hpend as (Hi & Hd & Hli & _).
      destruct Hdisj as [[Hb Ho]|[Hp _]]; [|discriminate].
      constructor; simpl; auto.
      exists (out ++ slice t (last_end s) i ++ []). split.
      * rewrite app_pre_snoc, Hout. rewrite guard_true; simpl; auto; try lia. now rewrite Hi.
      * left. split; [lia|]. rewrite app_nil_r, Ho, Hi, Hx. reflexivity.
    + constructor; simpl; auto.
      exists out. split; auto. left.
      destruct Hdisj as [[Hb Ho]|[_ (w & nx & r' & E & Hw & Hwl & Hle' & Ho)]].
      * split; [lia|]. rewrite <- Ho, <- app_assoc. f_equal.
        rewrite <- (slice_app t (last_end s) (cur s) (cur s + length x)) by lia. f_equal. exact Hx.
      * inversion E; subst nx r'. split; [lia|]. subst out. rewrite <- app_assoc. f_equal.
        rewrite Hle'.
        assert (Hw2 : slice t (cur s) (cur s + length w) = w).
        { unfold slice. replace (cur s + length w - cur s) with (length w) by lia.
          rewrite Hcur, firstn_app. replace (length w - length x) with 0 by lia. simpl. rewrite app_nil_r. exact Hw. }
        rewrite <- Hw2 at 1. rewrite slice_app by lia. exact Hx.
  - (* Del *)
    rewrite keep_cons in Hcur; simpl in Hcur.
    pose proof (skipn_app_prefix _ _ _ _ Hcur) as Hx.
    pose proof (skipn_app_rest _ _ _ _ Hcur) as Hr.
    pose proof (skipn_len_le _ _ _ _ Hle Hcur) as Hl.
    destruct (pend s) as [[i d]|] eqn:Ep; [destruct Hpend as (_ & _ & _ & F); destruct F|].
    destruct Hdisj as [[Hb Ho]|[_ (w & nx & r' & E & _)]]; [|discriminate].
    unfold step. rewrite app_nil_r. constructor; simpl; auto.
    + repeat split; auto. destruct rest as [|[o2 x2] r2]; auto. specialize (Hnext _ _ _ eq_refl). destruct o2; auto; discriminate.
    + exists out. split; auto.
  - (* Ins *)
    rewrite keep_cons in Hcur; simpl in Hcur.
    unfold step. destruct (pend s) as [[i d]|] eqn:Ep.
    + destruct Hpend as (Hi & Hd & Hli & _).
      destruct Hdisj as [[Hb Ho]|[Hp _]]; [|discriminate].
      constructor; simpl; auto.
      exists (out ++ slice t (last_end s) i ++ x). split.
      * rewrite app_pre_snoc, Hout. rewrite guard_true; simpl; auto; try lia. now rewrite Hi.
      * left. split; [lia|]. rewrite Hi, slice_nil, app_nil_r, app_assoc, Ho. reflexivity.
    + destruct Hdisj as [[Hb Ho]|[_ (w & nx & r' & E & _)]]; [|discriminate].
      set (a0 := anchor_start t s).
      assert (Ha0 : last_end s <= a0 /\ a0 <= cur s) by (pose proof (line_start_le t (cur s)); unfold a0, anchor_start; lia).
      set (anchor := slice t a0 (cur s)).
      destruct (fwd_anchor anchor (hd_error rest)) as [w|] eqn:Ef.
      * (* forward anchor *)
        unfold fwd_anchor in Ef.
        destruct (is_nil anchor) eqn:En; [|discriminate].
        destruct rest as [|[o2 nx] r2]; [discriminate|]. simpl in Ef.
        destruct o2; try discriminate.
        destruct (is_nil (anchor_target nx)) eqn:Ew; [discriminate|]. inversion Ef; subst w; clear Ef.
        destruct (anchor_target_prefix nx) as [Hp1 Hp2].
        rewrite keep_cons in Hcur; simpl in Hcur.
        assert (Hw : slice t (cur s) (cur s + length (anchor_target nx)) = anchor_target nx).
        { unfold slice. replace (cur s + length (anchor_target nx) - cur s) with (length (anchor_target nx)) by lia.
          rewrite Hcur, firstn_app. replace (length (anchor_target nx) - length nx) with 0 by lia.
          simpl. rewrite app_nil_r. exact Hp1. }
        pose proof (skipn_len_le _ _ _ _ Hle Hcur) as Hl.
        assert (Hc2 : skipn (cur s) t = keep is_eqdel ((OEq, nx) :: r2)) by (rewrite keep_cons; exact Hcur).
        constructor; [exact Hc2 | simpl; auto | simpl; auto | simpl].
        -- exists (out ++ slice t (last_end s) (cur s) ++ x ++ anchor_target nx). split.
           ++ rewrite app_pre_snoc, Hout. rewrite guard_true; simpl; auto; lia.
           ++ right. split; auto. exists (anchor_target nx), nx, r2. repeat split; auto.
              rewrite <- Ho. now rewrite <- !app_assoc.
      * (* standard anchored insertion *)
        assert (Hal : length anchor = cur s - a0) by (unfold anchor; apply slice_length; lia).
        constructor; simpl; auto.
        exists (out ++ slice t (last_end s) a0 ++ anchor ++ x). split.
        -- rewrite app_pre_snoc, Hout. fold a0. fold anchor.
           assert (G : guard (last_end s) (mkEdit a0 anchor (anchor ++ x)) t = true).
           { apply guard_true; simpl; try lia.
             - rewrite Hal. replace (a0 + (cur s - a0)) with (cur s) by lia. reflexivity. }
           rewrite G. simpl. rewrite Hal. replace (a0 + (cur s - a0)) with (cur s) by lia. reflexivity.
        -- left. split; [lia|]. rewrite slice_nil, app_nil_r.
           rewrite !app_assoc. f_equal. rewrite <- Ho, <- app_assoc. f_equal. unfold anchor. apply slice_app; lia.
Qed.

Lemma keep_app_nil f : keep f [] = []. Proof. reflexivity. Qed.

Lemma run_inv t : forall ds s m1, Inv t s ds m1 -> no_adj ds ->
  Inv t (run t s ds) [] (m1 ++ keep is_eqins ds).
Proof.
  induction ds as [|[o x] rest IH]; intros s m1 HI Hadj; simpl.
  - now rewrite keep_app_nil, app_nil_r.
  - pose proof (step_inv _ _ _ _ _ _ HI Hadj) as H.
    assert (Hadj' : no_adj rest) by (simpl in Hadj; tauto).
    specialize (IH _ _ H Hadj').
    rewrite keep_cons. destruct o; simpl in *; rewrite <- ?app_assoc in IH; try rewrite app_nil_r in IH; exact IH.
Qed.

Definition valid_diff (ds : list (op * str)) (t1 t2 : str) : Prop :=
  keep is_eqdel ds = t1 /\ keep is_eqins ds = t2 /\ no_adj ds.

Theorem C13_exact ds t1 t2 : valid_diff ds t1 t2 ->
  apply_script (edits_of_diffs t1 ds) t1 0 = Some t2.
Proof.
  intros (H1 & H2 & H3).
  assert (I0 : Inv t1 (mkSt 0 None 0 []) ds []).
  { constructor; simpl; auto; try lia. exists []. split; auto. }
  pose proof (run_inv t1 ds _ _ I0 H3) as [Hcur Hle Hpend (out & Hout & Hdisj)].
  simpl in Hcur. rewrite H2 in Hdisj. simpl in Hdisj.
  set (s := run t1 (mkSt 0 None 0 []) ds) in *.
  assert (Hend : cur s = length t1).
  { assert (L : length (skipn (cur s) t1) = 0) by now rewrite Hcur. rewrite skipn_length in L. lia. }
  unfold edits_of_diffs. fold s. rewrite apply_script_pre. unfold flush.
  destruct (pend s) as [[i d]|] eqn:Ep.
  - destruct Hpend as (Hi & Hd & Hli & _).
    destruct Hdisj as [[Hb Ho]|[Hp _]]; [|discriminate].
    simpl. rewrite app_pre_snoc, Hout. rewrite guard_true; simpl; auto; try lia; [|now rewrite Hi].
    rewrite Hi, Hend, skipn_all, !app_nil_r. now rewrite Ho.
  - destruct Hdisj as [[Hb Ho]|[_ (w & nx & r' & E & _)]]; [|discriminate].
    rewrite Hout. rewrite <- Ho, Hend, slice_to_end. reflexivity.
Qed.

(* The guards of apply_script make the rest of the statement explicit. *)
Fixpoint script_ok (es : list edit) (t : str) (c : nat) : Prop :=
  match es with
  | [] => True
  | e :: es' => c <= e_idx e /\ slice t (e_idx e) (e_idx e + length (e_tgt e)) = e_tgt e
                /\ e_idx e + length (e_tgt e) <= length t /\ script_ok es' t (e_idx e + length (e_tgt e))
  end.
Lemma apply_script_ok es t : forall c r, apply_script es t c = Some r -> script_ok es t c.
Proof. induction es as [|e es IH]; intros c r H; simpl in *; auto.
  destruct (_ && _ && _) eqn:G; [|discriminate].
  apply andb_true_iff in G as [G G3]. apply andb_true_iff in G as [G1 G2].
  apply Nat.leb_le in G1, G3. apply str_eqb_eq in G2.
  destruct (apply_script es t _) eqn:E; [|discriminate]. repeat split; auto. eapply IH; eauto. Qed.
Corollary C13_sorted_disjoint_targets ds t1 t2 : valid_diff ds t1 t2 -> script_ok (edits_of_diffs t1 ds) t1 0.
Proof. intros H. apply (apply_script_ok _ _ 0 t2). apply C13_exact. exact H. Qed.
Theorem C13_identity t : edits_of_diffs t [(OEq, t)] = [].
Proof. reflexivity. Qed.
Print Assumptions C13_exact.
Print Assumptions C13_sorted_disjoint_targets.

(* ---------- tokenizer ---------- *)
Section TokProofs.
Variable isspace isword : char -> bool.
Lemma toks_concat s : forall cur k, concat (toks isspace isword s cur k) = rev cur ++ s.
Proof. induction s as [|c s IH]; intros cur k; cbn [toks].
  - destruct cur; simpl; [reflexivity|]. now rewrite !app_nil_r.
  - destruct (_ && _).
    + rewrite IH. simpl. now rewrite <- app_assoc.
    + rewrite concat_app, IH. destruct cur; simpl; [reflexivity|]. now rewrite app_nil_r. Qed.
Theorem tokens_lossless s : concat (tokens isspace isword s) = s.
Proof. unfold tokens. now rewrite toks_concat. Qed.
Lemma toks_nonempty s : forall cur k, Forall (fun t => t <> []) (toks isspace isword s cur k).
Proof. induction s as [|c s IH]; intros cur k; cbn [toks].
  - destruct cur as [|x cur]; simpl; constructor; auto. intros E. apply (f_equal (@length _)) in E. simpl in E. rewrite app_length in E. simpl in E. lia.
  - destruct (_ && _); [apply IH|]. apply Forall_app. split; [|apply IH].
    destruct cur as [|x cur]; simpl; constructor; auto. intros E. apply (f_equal (@length _)) in E. simpl in E. rewrite app_length in E. simpl in E. lia. Qed.
End TokProofs.

(* ---------- shapes of the emitted edits: the differing part of a deletion / replacement is a Del piece (and the Ins
   piece that follows it); an insertion only adds an Ins piece before or after an anchor copied from text 1 ---------- *)
Inductive shape (ds : list (op * str)) (e : edit) : Prop :=
| ShDel : In (ODel, e_tgt e) ds -> e_new e = [] -> shape ds e
| ShRepl : In (ODel, e_tgt e) ds -> In (OIns, e_new e) ds -> shape ds e
| ShInsAfter x : In (OIns, x) ds -> e_new e = e_tgt e ++ x -> shape ds e
| ShInsBefore x : In (OIns, x) ds -> e_new e = x ++ e_tgt e -> shape ds e.
Definition pend_in (ds : list (op * str)) (s : st) : Prop :=
  match pend s with Some (_, d) => In (ODel, d) ds | None => True end.
Lemma step_shape t ds s o x nx : In (o, x) ds -> Forall (shape ds) (acc s) -> pend_in ds s ->
  Forall (shape ds) (acc (step t s o x nx)) /\ pend_in ds (step t s o x nx).
Proof. intros Hin Hacc Hp. unfold step, pend_in in *. destruct o.
  - unfold flush. destruct (pend s) as [[i d]|]; simpl; split; auto. constructor; auto. apply ShDel; auto.
  - simpl. split; auto.
  - destruct (pend s) as [[i d]|]; simpl.
    + split; auto. constructor; auto. apply ShRepl; auto.
    + destruct (fwd_anchor _ nx); simpl; split; auto; constructor; auto.
      * eapply ShInsBefore; eauto.
      * eapply ShInsAfter; eauto. Qed.
Lemma run_shape t ds0 : forall ds s, incl ds ds0 -> Forall (shape ds0) (acc s) -> pend_in ds0 s ->
  Forall (shape ds0) (acc (run t s ds)) /\ pend_in ds0 (run t s ds).
Proof. induction ds as [|[o x] ds IH]; intros s Hi Ha Hp; simpl; auto.
  destruct (step_shape t ds0 s o x (hd_error ds)) as [A B]; auto. { apply Hi. now left. }
  apply IH; auto. intros y Hy. apply Hi. now right. Qed.
Theorem edits_shapes t ds : Forall (shape ds) (edits_of_diffs t ds).
Proof. unfold edits_of_diffs.
  destruct (run_shape t ds ds (mkSt 0 None 0 []) (incl_refl _)) as [A B]; [constructor|exact I|].
  apply Forall_rev. unfold flush. unfold pend_in in B. destruct (pend _) as [[i d]|]; simpl; auto.
  constructor; auto. apply ShDel; auto. Qed.
