From Coq Require Import List NArith Bool Arith Lia.
Import ListNotations.
From Adeu Require Import Str Trim.

Lemma back_le P k : back P k <= k.
Proof. induction k; simpl; auto. destruct (P (S k)); lia. Qed.

Lemma ch_eqb_eq a b : ch_eqb a b = true <-> a = b.
Proof. apply N.eqb_eq. Qed.

Lemma common_prefix_spec a b : forall p, p <= common_prefix a b -> firstn p a = firstn p b /\ p <= length a /\ p <= length b.
Proof.
  revert b; induction a as [|x a IH]; intros b p H.
  - simpl in H. assert (p = 0) by lia; subst. simpl. repeat split; lia.
  - destruct b as [|y b]; simpl in H.
    + assert (p = 0) by lia; subst. simpl. repeat split; lia.
    + destruct (ch_eqb x y) eqn:E.
      * destruct p as [|p]; simpl; [repeat split; lia|].
        apply ch_eqb_eq in E; subst. destruct (IH b p) as (H1 & H2 & H3); [lia|]. rewrite H1. repeat split; lia.
      * assert (p = 0) by lia; subst; simpl; repeat split; lia.
Qed.

Lemma prefixb_firstn m s : prefixb m s = true -> firstn (length m) s = m.
Proof. revert s; induction m as [|x m IH]; intros [|y s]; simpl; auto; try discriminate.
  intros H. apply andb_true_iff in H as [H1 H2]. apply ch_eqb_eq in H1; subst. now rewrite IH. Qed.

Lemma lastn_rev n s : lastn n s = rev (firstn n (rev s)).
Proof.
  unfold lastn. destruct (le_lt_dec n (length s)) as [H|H].
  - rewrite <- (rev_involutive s) at 2. rewrite <- (firstn_skipn n (rev s)) at 1.
    rewrite rev_app_distr. rewrite skipn_app.
    assert (L: length (rev (skipn n (rev s))) = length s - n) by (rewrite rev_length, skipn_length, rev_length; lia).
    rewrite <- L at 1. rewrite skipn_all. simpl.
    replace (length s - n - length (rev (skipn n (rev s)))) with 0 by lia. reflexivity.
  - replace (length s - n) with 0 by lia. simpl. rewrite firstn_all2 by (rewrite rev_length; lia). now rewrite rev_involutive.
Qed.

Definition Good (t n : str) (ps : nat * nat) : Prop :=
  let '(p, s) := ps in
  p + s <= Nat.min (length t) (length n) /\ firstn p t = firstn p n /\ lastn s t = lastn s n.

Lemma firstn_add {A} a b (l : list A) : firstn (a + b) l = firstn a l ++ firstn b (skipn a l).
Proof. revert l; induction a; intros l; simpl; auto. destruct l; simpl; [now rewrite firstn_nil|]. now rewrite IHa. Qed.

Lemma slice_prefix m (t : str) p e : prefixb m (slice t p e) = true -> firstn (length m) (skipn p t) = m.
Proof.
  intros H. apply prefixb_firstn in H. unfold slice in H.
  assert (L : length m <= e - p).
  { rewrite <- H at 1. rewrite firstn_length, firstn_length. lia. }
  rewrite firstn_firstn in H. now replace (Nat.min (length m) (e - p)) with (length m) in H by lia.
Qed.

Lemma suffixb_lastn m s : suffixb m s = true -> lastn (length m) s = m.
Proof. unfold suffixb. intros H. apply prefixb_firstn in H. rewrite rev_length in H.
  rewrite lastn_rev, H. apply rev_involutive. Qed.

Lemma lastn_length n (s : str) : n <= length s -> length (lastn n s) = n.
Proof. unfold lastn. rewrite skipn_length. lia. Qed.

Lemma lastn_add a b (l : str) : a + b <= length l ->
  lastn (a + b) l = lastn b (firstn (length l - a) l) ++ lastn a l.
Proof.
  intros H. unfold lastn.
  set (l1 := firstn (length l - a) l). set (l2 := skipn (length l - a) l).
  assert (E : l = l1 ++ l2) by (unfold l1, l2; now rewrite firstn_skipn).
  assert (L1 : length l1 = length l - a) by (unfold l1; rewrite firstn_length; lia).
  rewrite L1.
  replace (skipn (length l - (a + b)) l) with (skipn (length l - (a + b)) (l1 ++ l2)) by now rewrite <- E.
  rewrite skipn_app. rewrite L1.
  replace (length l - (a + b) - (length l - a)) with 0 by lia. simpl.
  f_equal. f_equal. lia.
Qed.

Lemma skipn_skipn' {A} a b (l : list A) : skipn a (skipn b l) = skipn (b + a) l.
Proof. revert l; induction b; intros l; simpl; auto. destruct l; [now rewrite !skipn_nil|apply IHb]. Qed.

Lemma slice_suffix m (t : str) p s : p + s <= length t -> length m <= length t - s - p ->
  suffixb m (slice t p (length t - s)) = true -> lastn (length m) (firstn (length t - s) t) = m.
Proof.
  intros Hps Hm H. apply suffixb_lastn in H. unfold slice in H.
  rewrite <- H at 2. unfold lastn.
  set (u := firstn (length t - s) t).
  assert (Lu : length u = length t - s) by (unfold u; rewrite firstn_length; lia).
  assert (Eu : firstn (length t - s - p) (skipn p t) = skipn p u).
  { unfold u. rewrite skipn_firstn_comm. reflexivity. }
  rewrite Eu. rewrite skipn_length, Lu.
  rewrite skipn_skipn'. f_equal. lia.
Qed.

Lemma absorb_good t n m ps : Good t n ps -> Good t n (absorb t n m ps).
Proof.
  destruct ps as [p s]. unfold Good, absorb. intros (Hle & Hp & Hs).
  destruct (prefixb m _ && prefixb m _ && suffixb m _ && suffixb m _ && _ && _) eqn:E; [|auto].
  repeat (apply andb_true_iff in E as [E ?]).
  repeat match goal with H : (_ <? _) = true |- _ => apply Nat.ltb_lt in H end.
  unfold slice in *. rewrite !firstn_length, !skipn_length in *.
  assert (Ht : 2 * length m < length t - s - p) by lia.
  assert (Hn : 2 * length m < length n - s - p) by lia.
  split; [lia|]. split.
  - rewrite !firstn_add, Hp. f_equal.
    match goal with H1 : prefixb m (firstn _ (skipn p t)) = true, H2 : prefixb m (firstn _ (skipn p n)) = true |- _ =>
      apply (slice_prefix m t p (length t - s)) in H1; apply (slice_prefix m n p (length n - s)) in H2; congruence end.
  - rewrite !lastn_add by lia. rewrite Hs. f_equal.
    match goal with H1 : suffixb m (firstn _ (skipn p t)) = true, H2 : suffixb m (firstn _ (skipn p n)) = true |- _ =>
      apply (slice_suffix m t p s) in H1; [|lia|lia]; apply (slice_suffix m n p s) in H2; [|lia|lia]; congruence end.
Qed.

Lemma header_back_le t k p : k <= p -> header_back t k p <= p.
Proof. induction k; simpl; intros H; auto. destruct (ch_eqb _ c_hash); [pose proof (back_le (fun j => negb (ch_eqb (nthc t (j - 1)) c_nl)) k); lia|].
  destruct (ch_eqb _ c_nl); [lia|]. apply IHk; lia. Qed.

Lemma lastn_0 (s : str) : lastn 0 s = [].
Proof. unfold lastn. rewrite Nat.sub_0_r. apply skipn_all. Qed.
Lemma good_zero t n : Good t n (0, 0).
Proof. unfold Good. rewrite !lastn_0. simpl. repeat split; lia. Qed.

Lemma if_back_le (b : bool) P k : (if b then back P k else k) <= k.
Proof. destruct b; [apply back_le|lia]. Qed.

Lemma trim_ne_good isspace t n : Good t n (trim_ne isspace t n).
Proof.
  unfold trim_ne.
  apply absorb_good, absorb_good.
  set (p0 := common_prefix t n).
  set (p1 := if ((p0 <? length t) && (p0 <? length n))%bool then _ else p0).
  assert (H1 : p1 <= p0) by apply if_back_le.
  set (p2 := header_back t p1 p1).
  assert (H2 : p2 <= p1) by (apply header_back_le; lia).
  set (p3 := back _ p2).
  assert (H3 : p3 <= p2) by apply back_le.
  destruct (common_prefix_spec t n p3) as (Hp & Hpt & Hpn); [unfold p0 in *; lia|].
  set (lim := Nat.min (length t - p3) (length n - p3)).
  set (s0 := Nat.min lim (common_prefix (rev t) (rev n))).
  set (s1 := if ((0 <? s0) && (s0 <? length t))%bool then _ else s0).
  assert (G1 : s1 <= s0) by apply if_back_le.
  set (s2 := back _ s1).
  assert (G2 : s2 <= s1) by apply back_le.
  set (s3 := if ((0 <? s2) && _)%bool then 0 else s2).
  assert (G3 : s3 <= s2) by (unfold s3; match goal with |- (if ?b then _ else _) <= _ => destruct b end; lia).
  destruct (common_prefix_spec (rev t) (rev n) s3) as (Hs & _ & _); [unfold s0 in *; lia|].
  unfold Good. split; [unfold s0, lim in *; lia|]. split; [exact Hp|].
  rewrite !lastn_rev. now rewrite Hs.
Qed.

Theorem trim_contract isspace t n : Good t n (trim isspace t n).
Proof.
  destruct t as [|c1 t']; [apply good_zero|].
  destruct n as [|c2 n']; [apply good_zero|].
  apply trim_ne_good.
Qed.
Print Assumptions trim_contract.

(* where the cuts fall (fix D48): before the two whole-delimiter absorptions, the prefix cut and the suffix cut each either vanish or
   stand at a place that does not halve a ** delimiter and leaves the trimmed context with balanced ** and _ counts *)
Lemma back_spec P k : back P k = 0 \/ P (back P k) = false.
Proof. induction k as [|k IH]; cbn [back]; [now left|]. destruct (P (S k)) eqn:E; [exact IH|right; exact E]. Qed.
Theorem trim_cuts isspace t n : t <> [] -> n <> [] ->
  exists p s, trim isspace t n = absorb t n [c_us] (absorb t n [c_star; c_star] (p, s))
    /\ (p = 0 \/ (unbalanced (firstn p t) = false /\ splits_star t p = false))
    /\ (s = 0 \/ (unbalanced (lastn s t) = false /\ splits_star t (length t - s) = false)).
Proof. intros Ht Hn. destruct t as [|a t']; [contradiction|]. destruct n as [|b n']; [contradiction|].
  unfold trim, trim_ne. eexists. eexists. split; [reflexivity|]. split.
  - match goal with |- back ?P ?k = 0 \/ _ => destruct (back_spec P k) as [H|H]; [now left|right] end.
    now apply orb_false_iff in H.
  - match goal with |- (if ?c then 0 else ?s2) = 0 \/ _ => destruct c; [now left|] end.
    match goal with |- back ?P ?k = 0 \/ _ => destruct (back_spec P k) as [H|H]; [now left|right] end.
    now apply orb_false_iff in H. Qed.

(* what trimming is for: replacing only the untrimmed middle of the target, in place, IS replacing the whole target by the whole new
   text - in every surrounding text *)
Lemma three_parts (l : str) p s : p + s <= length l -> l = firstn p l ++ slice l p (length l - s) ++ lastn s l.
Proof. intros H. unfold slice, lastn. rewrite <- (firstn_skipn p l) at 1. f_equal.
  rewrite <- (firstn_skipn (length l - s - p) (skipn p l)) at 1. f_equal.
  rewrite skipn_skipn'. replace (p + (length l - s - p)) with (length l - s) by lia. reflexivity. Qed.
Theorem trim_replace (t n : str) p s (pre post : str) : Good t n (p, s) ->
  firstn (length pre + p) (pre ++ t ++ post) ++ slice n p (length n - s) ++ skipn (length pre + (length t - s)) (pre ++ t ++ post)
  = pre ++ n ++ post.
Proof. intros H. unfold Good in H. destruct H as (Hl & Hp & Hs).
  pose proof (Nat.le_min_l (length t) (length n)) as M1. pose proof (Nat.le_min_r (length t) (length n)) as M2.
  assert (Ht : p + s <= length t) by exact (Nat.le_trans _ _ _ Hl M1). assert (Hn : p + s <= length n) by exact (Nat.le_trans _ _ _ Hl M2). clear M1 M2 Hl.
  rewrite firstn_app_2.
  assert (E1 : firstn p (t ++ post) = firstn p t).
  { rewrite firstn_app. replace (p - length t) with 0 by lia. rewrite firstn_O. apply app_nil_r. }
  rewrite E1.
  assert (E2 : skipn (length pre + (length t - s)) (pre ++ t ++ post) = lastn s t ++ post).
  { rewrite skipn_app. assert (E : skipn (length pre + (length t - s)) pre = []) by (apply skipn_all2; lia). rewrite E. cbn [app].
    replace (length pre + (length t - s) - length pre) with (length t - s) by lia.
    rewrite skipn_app. replace (length t - s - length t) with 0 by lia. reflexivity. }
  rewrite E2, Hp, Hs. rewrite <- app_assoc. f_equal.
  transitivity ((firstn p n ++ slice n p (length n - s) ++ lastn s n) ++ post); [now rewrite <- !app_assoc|now rewrite <- (three_parts n p s Hn)]. Qed.
