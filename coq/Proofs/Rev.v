From Coq Require Import List NArith Bool Lia.
Import ListNotations.
Definition char := N. Definition str := list char.
Inductive rchild := CT (s:str) | CDelT (s:str) | CTab | CBr | COther (tok:N).
Record run := { r_pr : N; r_kids : list rchild }.
Record mark := { m_id : N; m_author : N }.
Inductive pitem := IRun (r:run) | IIns (m:mark) (rs:list run) | IDel (m:mark) (rs:list run) | IOther (tok:N).
Definition para := list pitem.

Inductive status := SN | SI (m:mark) | SD (m:mark).
Inductive atom := ACh (c:char) (f:N) (st:status) | ASp (tok:N) (f:N) (st:status) | AOther (tok:N).

Definition kid_atoms (f:N) (st:status) (k:rchild) : list atom :=
  match k with
  | CT s | CDelT s => map (fun c => ACh c f st) s
  | CTab => [ACh 9%N f st] | CBr => [ACh 10%N f st]
  | COther t => [ASp t f st]
  end.
Definition run_atoms st (r:run) := flat_map (kid_atoms (r_pr r) st) (r_kids r).
Definition item_atoms (i:pitem) : list atom :=
  match i with
  | IRun r => run_atoms SN r
  | IIns m rs => flat_map (run_atoms (SI m)) rs
  | IDel m rs => flat_map (run_atoms (SD m)) rs
  | IOther t => [AOther t]
  end.
Definition atoms (p:para) := flat_map item_atoms p.

(* concrete accept/reject, as engine._accept_change/_reject_change do on one paragraph *)
Definition undel_kid k := match k with CDelT s => CT s | _ => k end.
Definition undel_run r := {| r_pr := r_pr r; r_kids := map undel_kid (r_kids r) |}.
Definition accept_item (i:N) (it:pitem) : list pitem :=
  match it with
  | IIns m rs => if N.eqb (m_id m) i then map IRun rs else [it]
  | IDel m rs => if N.eqb (m_id m) i then [] else [it]
  | _ => [it]
  end.
Definition reject_item (i:N) (it:pitem) : list pitem :=
  match it with
  | IIns m rs => if N.eqb (m_id m) i then [] else [it]
  | IDel m rs => if N.eqb (m_id m) i then map (fun r => IRun (undel_run r)) rs else [it]
  | _ => [it]
  end.
Definition accept i (p:para) := flat_map (accept_item i) p.
Definition reject i (p:para) := flat_map (reject_item i) p.

(* spec on atoms *)
Definition st_id st := match st with SN => None | SI m | SD m => Some (m_id m) end.
Definition acc_atom (i:N) (a:atom) : list atom :=
  match a with
  | ACh c f (SI m) => if N.eqb (m_id m) i then [ACh c f SN] else [a]
  | ASp t f (SI m) => if N.eqb (m_id m) i then [ASp t f SN] else [a]
  | ACh _ _ (SD m) | ASp _ _ (SD m) => if N.eqb (m_id m) i then [] else [a]
  | _ => [a]
  end.
Definition rej_atom (i:N) (a:atom) : list atom :=
  match a with
  | ACh c f (SD m) => if N.eqb (m_id m) i then [ACh c f SN] else [a]
  | ASp t f (SD m) => if N.eqb (m_id m) i then [ASp t f SN] else [a]
  | ACh _ _ (SI m) | ASp _ _ (SI m) => if N.eqb (m_id m) i then [] else [a]
  | _ => [a]
  end.

Lemma flat_map_flat_map {A B C} (f:A->list B) (g:B->list C) l :
  flat_map g (flat_map f l) = flat_map (fun x => flat_map g (f x)) l.
Proof. induction l; simpl; auto. now rewrite flat_map_app, IHl. Qed.
Lemma flat_map_map {A B C} (f:A->B) (g:B->list C) l : flat_map g (map f l) = flat_map (fun x => g (f x)) l.
Proof. induction l; simpl; congruence. Qed.
Lemma flat_map_ext' {A B} (f g:A->list B) l : (forall x, In x l -> f x = g x) -> flat_map f l = flat_map g l.
Proof. induction l; simpl; intros H; auto. rewrite H, IHl; auto. Qed.
Lemma flat_map_nil {A B} (l:list A) : flat_map (fun _ => @nil B) l = [].
Proof. induction l; auto. Qed.

Lemma kid_acc_hit i f m k : m_id m = i ->
  flat_map (acc_atom i) (kid_atoms f (SI m) k) = kid_atoms f SN k.
Proof. intros <-. destruct k; simpl; rewrite ?N.eqb_refl; auto;
  induction s; simpl; rewrite ?N.eqb_refl; simpl; congruence. Qed.
Lemma kid_acc_del i f m k : m_id m = i ->
  flat_map (acc_atom i) (kid_atoms f (SD m) k) = [].
Proof. intros <-. destruct k; simpl; rewrite ?N.eqb_refl; auto;
  induction s; simpl; rewrite ?N.eqb_refl; simpl; congruence. Qed.
Lemma kid_acc_miss i f st k : st_id st <> Some i ->
  flat_map (acc_atom i) (kid_atoms f st k) = kid_atoms f st k.
Proof. intros H. assert (E: forall a, In a (kid_atoms f st k) -> acc_atom i a = [a]).
  { intros a Ha. destruct k; simpl in Ha; try (apply in_map_iff in Ha; destruct Ha as [c [<- _]]);
    try (destruct Ha as [<-|[]]); destruct st; simpl in *; auto;
    destruct (N.eqb_spec (m_id m) i); congruence. }
  rewrite (flat_map_ext' _ (fun a => [a])); auto. clear. induction (kid_atoms f st k); simpl; congruence. Qed.

Theorem accept_spec i p : atoms (accept i p) = flat_map (acc_atom i) (atoms p).
Proof.
  unfold atoms, accept. rewrite !flat_map_flat_map. apply flat_map_ext'. intros it _.
  destruct it as [r|m rs|m rs|t]; simpl.
  - rewrite app_nil_r. unfold run_atoms. rewrite flat_map_flat_map. apply flat_map_ext'. intros k _.
    symmetry; apply kid_acc_miss; discriminate.
  - destruct (N.eqb_spec (m_id m) i) as [E|E].
    + rewrite flat_map_map. rewrite flat_map_flat_map. apply flat_map_ext'. intros r _. simpl.
      unfold run_atoms. rewrite flat_map_flat_map. apply flat_map_ext'. intros k _. symmetry; now apply kid_acc_hit.
    + simpl. rewrite app_nil_r, flat_map_flat_map. apply flat_map_ext'. intros r _.
      unfold run_atoms. rewrite flat_map_flat_map. apply flat_map_ext'. intros k _. symmetry; apply kid_acc_miss; simpl; congruence.
  - destruct (N.eqb_spec (m_id m) i) as [E|E].
    + simpl. rewrite flat_map_flat_map. rewrite (flat_map_ext' _ (fun _ => [])); [now rewrite flat_map_nil|].
      intros r _. unfold run_atoms. rewrite flat_map_flat_map. rewrite (flat_map_ext' _ (fun _ => [])); [now rewrite flat_map_nil|].
      intros k _. now apply kid_acc_del.
    + simpl. rewrite app_nil_r, flat_map_flat_map. apply flat_map_ext'. intros r _.
      unfold run_atoms. rewrite flat_map_flat_map. apply flat_map_ext'. intros k _. symmetry; apply kid_acc_miss; simpl; congruence.
  - reflexivity.
Qed.
Print Assumptions accept_spec.

(* commutation at the spec level, then transported *)
Lemma acc_acc_comm i j a : i <> j ->
  flat_map (acc_atom i) (acc_atom j a) = flat_map (acc_atom j) (acc_atom i a).
Proof. intros H. destruct a as [c f [|m|m]|t f [|m|m]|t]; simpl; auto;
  destruct (N.eqb_spec (m_id m) j), (N.eqb_spec (m_id m) i); subst; simpl; try congruence;
  repeat match goal with |- context[N.eqb ?a ?b] => destruct (N.eqb_spec a b) end; simpl; congruence. Qed.
Theorem accept_commute i j p : i <> j -> atoms (accept i (accept j p)) = atoms (accept j (accept i p)).
Proof. intros H. rewrite !accept_spec, !flat_map_flat_map. apply flat_map_ext'. intros a _. now apply acc_acc_comm. Qed.
