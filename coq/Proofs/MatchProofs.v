(* The exact stage of the matcher after fixes D54 and D55: the position it returns is the FIRST occurrence of the target in the
   projected text that touches text of the document itself (a span with a run) and reaches into no tracked deletion; an occurrence
   lying wholly in generated text, or overlapping deleted text, is passed over. *)
From Coq Require Import List NArith Arith Bool Lia.
Import ListNotations.
From Adeu Require Import Str Doc Project Engine TrimProofs.

Lemma find_real_sound sp n : forall s i j, find_real sp n s i = Some j ->
  i <= j /\ prefixb n (skipn (j - i) s) = true /\ touches_real sp j (j + length n) = true.
Proof. induction s as [|c s IH]; intros i j H; cbn [find_real] in H.
  - destruct (prefixb n [] && touches_real sp i (i + length n)) eqn:E; [|discriminate].
    inversion H; subst. apply andb_prop in E as [E1 E2]. rewrite Nat.sub_diag. cbn [skipn]. auto.
  - destruct (prefixb n (c :: s) && touches_real sp i (i + length n)) eqn:E.
    + inversion H; subst. apply andb_prop in E as [E1 E2]. rewrite Nat.sub_diag. cbn [skipn]. auto.
    + apply IH in H as (H1 & H2 & H3). split; [lia|]. split; [|exact H3].
      replace (j - i) with (S (j - S i)) by lia. cbn [skipn]. exact H2. Qed.

Lemma find_real_first sp n : forall s i j, find_real sp n s i = Some j ->
  forall k, i <= k < j -> prefixb n (skipn (k - i) s) = true -> touches_real sp k (k + length n) = false.
Proof. induction s as [|c s IH]; intros i j H k Hk Hp; cbn [find_real] in H.
  - destruct (prefixb n [] && touches_real sp i (i + length n)) eqn:E; [|discriminate]. inversion H; subst. lia.
  - destruct (prefixb n (c :: s) && touches_real sp i (i + length n)) eqn:E.
    + inversion H; subst. lia.
    + destruct (Nat.eq_dec k i) as [->|Hne].
      * rewrite Nat.sub_diag in Hp. cbn [skipn] in Hp. rewrite Hp in E. cbn [andb] in E. exact E.
      * apply (IH (S i) j H k); [lia|]. replace (k - i) with (S (k - S i)) in Hp by lia. exact Hp. Qed.

Lemma find_real_none sp n : forall s i, find_real sp n s i = None ->
  forall k, i <= k <= i + length s -> prefixb n (skipn (k - i) s) = true -> touches_real sp k (k + length n) = false.
Proof. induction s as [|c s IH]; intros i H k Hk Hp; cbn [find_real] in H.
  - destruct (prefixb n [] && touches_real sp i (i + length n)) eqn:E; [discriminate|]. cbn [length] in Hk.
    assert (k = i) as -> by lia. rewrite Nat.sub_diag in Hp. cbn [skipn] in Hp. rewrite Hp in E. exact E.
  - destruct (prefixb n (c :: s) && touches_real sp i (i + length n)) eqn:E; [discriminate|].
    destruct (Nat.eq_dec k i) as [->|Hne].
    + rewrite Nat.sub_diag in Hp. cbn [skipn] in Hp. rewrite Hp in E. exact E.
    + cbn [length] in Hk. apply (IH (S i) H k); [lia|]. replace (k - i) with (S (k - S i)) in Hp by lia. exact Hp. Qed.

Lemma touches_real_span sp a b : touches_real sp a b = true ->
  (exists x, In x sp /\ o_real x = true /\ a < o_end x /\ o_start x < b)
  /\ (forall x, In x sp -> o_real x = true -> a < o_end x -> o_start x < b -> is_some_nonempty (o_del x) = false).
Proof. unfold touches_real. intros H. apply andb_prop in H as [H Hn]. split.
  - apply existsb_exists in H as (x & Hin & Hx). unfold covers in Hx.
    apply andb_prop in Hx as [Hx H3]. apply andb_prop in Hx as [H1 H2].
    exists x. repeat split; [exact Hin|exact H1|now apply Nat.ltb_lt|now apply Nat.ltb_lt].
  - intros x Hin Hr Ha Hb. apply negb_true_iff in Hn.
    destruct (is_some_nonempty (o_del x)) eqn:Ed; [|reflexivity]. exfalso.
    assert (existsb (fun x => covers a b x && is_some_nonempty (o_del x)) sp = true) as Hc.
    { apply existsb_exists. exists x. split; [exact Hin|]. unfold covers. rewrite Hr, Ed.
      apply Nat.ltb_lt in Ha. apply Nat.ltb_lt in Hb. now rewrite Ha, Hb. }
    rewrite Hc in Hn. discriminate. Qed.

(* the position returned by the exact stage: the target stands there in the projected text, it covers at least one character
   position of a span with a run, and no earlier occurrence does *)
Theorem find_on_spec sp t i : find_on sp t = Some i ->
  firstn (length t) (skipn i (map_text sp)) = t
  /\ (exists x, In x sp /\ o_real x = true /\ i < o_end x /\ o_start x < i + length t)
  /\ (forall x, In x sp -> o_real x = true -> i < o_end x -> o_start x < i + length t -> is_some_nonempty (o_del x) = false)
  /\ (forall k, k < i -> prefixb t (skipn k (map_text sp)) = true -> touches_real sp k (k + length t) = false).
Proof. unfold find_on. intros H. pose proof (find_real_sound _ _ _ _ _ H) as (_ & H2 & H3).
  rewrite Nat.sub_0_r in H2. split; [now apply prefixb_firstn|]. apply touches_real_span in H3 as [Ha Hb]. split; [exact Ha|]. split; [exact Hb|].
  intros k Hk Hp. apply (find_real_first _ _ _ _ _ H k); [lia|]. now rewrite Nat.sub_0_r. Qed.

(* when the exact stage finds nothing, every occurrence of the target in the projected text lies wholly in generated text or
   reaches into a tracked deletion (touches_real is false there) *)
Theorem find_on_none sp t k : find_on sp t = None -> k <= length (map_text sp) ->
  prefixb t (skipn k (map_text sp)) = true -> touches_real sp k (k + length t) = false.
Proof. unfold find_on. intros H Hk Hp. apply (find_real_none _ _ _ _ H k); [lia|]. now rewrite Nat.sub_0_r. Qed.

(* an exact raw-view match on document text is what the heuristic path edits: no oracle answer is consumed, the raw map is used *)
Lemma locate_exact s t orc i : find_on (s_raw s) t = Some i -> locate s t orc = (Some (i, length t), false, s, orc).
Proof. intros H. unfold locate. now rewrite H. Qed.

(* the exact stage never reports a range that leaves the projected text *)
Lemma prefixb_length (m s : str) : prefixb m s = true -> length m <= length s.
Proof. revert s. induction m as [|x m IH]; intros s H; cbn [length]; [lia|].
  destruct s as [|y s]; cbn [prefixb] in H; [discriminate|]. apply andb_prop in H as [_ H]. apply IH in H. cbn [length]. lia. Qed.
Lemma find_real_bound sp n : forall s i j, find_real sp n s i = Some j -> j <= i + length s.
Proof. induction s as [|c s IH]; intros i j H; cbn [find_real] in H.
  - destruct (prefixb n [] && touches_real sp i (i + length n)); [|discriminate]. inversion H; subst. lia.
  - destruct (prefixb n (c :: s) && touches_real sp i (i + length n)).
    + inversion H; subst. lia.
    + apply IH in H. cbn [length]. lia. Qed.
Theorem find_on_in_range sp t i : find_on sp t = Some i -> i + length t <= length (map_text sp).
Proof. unfold find_on. intros H. pose proof (find_real_bound _ _ _ _ _ H) as Hb.
  apply find_real_sound in H as (_ & H2 & _). rewrite Nat.sub_0_r in H2.
  apply prefixb_length in H2. rewrite skipn_length in H2. cbn [Nat.add] in Hb.
  destruct t as [|c t]; cbn [length] in *; lia. Qed.

(* ---------- stage 2: smart-quote normalisation (modelled since the last round; before, a recorded answer) ---------- *)
Lemma qn_idem c : qn (qn c) = qn c.
Proof. unfold qn. destruct (N.eqb c 8220 || N.eqb c 8221) eqn:E1; [reflexivity|].
  destruct (N.eqb c 8216 || N.eqb c 8217) eqn:E2; [reflexivity|]. now rewrite E1, E2. Qed.
(* the position the quote stage returns: the text standing there equals the target up to quote style, character for character; the range
   lies inside the projected text, touches text of the document itself and no tracked deletion; no earlier place does all that *)
Theorem find_quote_spec sp t i : find_quote sp t = Some i ->
  map qn (firstn (length t) (skipn i (map_text sp))) = map qn t
  /\ i + length t <= length (map_text sp)
  /\ (exists x, In x sp /\ o_real x = true /\ i < o_end x /\ o_start x < i + length t)
  /\ (forall x, In x sp -> o_real x = true -> i < o_end x -> o_start x < i + length t -> is_some_nonempty (o_del x) = false)
  /\ (forall k, k < i -> prefixb (map qn t) (skipn k (map qn (map_text sp))) = true -> touches_real sp k (k + length t) = false).
Proof. unfold find_quote. intros H. pose proof (find_real_bound _ _ _ _ _ H) as Hb.
  pose proof (find_real_first _ _ _ _ _ H) as Hf.
  apply find_real_sound in H as (_ & H2 & H3). rewrite Nat.sub_0_r in H2. rewrite map_length in H3.
  split. { apply prefixb_firstn in H2. rewrite map_length, skipn_map, firstn_map in H2. exact H2. }
  split. { apply prefixb_length in H2. rewrite skipn_length, !map_length in H2. rewrite map_length in Hb. cbn [Nat.add] in Hb.
    destruct t as [|c t]; cbn [length] in *; lia. }
  apply touches_real_span in H3 as [Ha Hc]. split; [exact Ha|]. split; [exact Hc|].
  intros k Hk Hp. specialize (Hf k). rewrite map_length, Nat.sub_0_r in Hf. apply Hf; [lia|exact Hp]. Qed.
(* such an answer is the one used: no recorded answer of the later stages is consumed *)
Lemma approx_quote_used sp t orc i : find_quote sp t = Some i -> approx sp t orc = (Some (i, length t), orc).
Proof. intros H. unfold approx. now rewrite H. Qed.
Lemma find_match_quote_used sp t orc i : find_on sp t = None -> find_quote sp t = Some i -> find_match sp t orc = (Some (i, length t), orc).
Proof. intros H0 H. unfold find_match, approx. now rewrite H0, H. Qed.
(* where neither the text nor the target carries a typographic quote, the quote stage is the exact stage *)
Lemma map_qn_plain (s : str) : (forall c, In c s -> qn c = c) -> map qn s = s.
Proof. intros H. rewrite <- (map_id s) at 2. apply map_ext_in. exact H. Qed.
Theorem find_quote_plain sp t : (forall c, In c t -> qn c = c) -> (forall c, In c (map_text sp) -> qn c = c) -> find_quote sp t = find_on sp t.
Proof. intros Ht Hs. unfold find_quote, find_on. now rewrite (map_qn_plain _ Ht), (map_qn_plain _ Hs). Qed.

(* ---------- how the heuristic path weighs the views (fix D44) once the quote stage is part of the model ---------- *)
(* the accepted-view map the heuristic path consults: the cached one, else built from the document as it stands *)
Definition clean_of (s : est) : list ospan :=
  match s_clean s with Some c => c | None => build_map true (d_comments (e_doc (s_eng s))) (e_doc (s_eng s)) end.
(* fix D44 with the quote stage modelled: when the raw view has no exact occurrence, an exact accepted-view occurrence on document text is what
   the edit is applied to, on the accepted-view map - whatever the quote stage or a later stage answered on the raw view *)
Lemma locate_clean_exact s t orc i : find_on (s_raw s) t = None -> find_on (clean_of s) t = Some i ->
  fst (fst (fst (locate s t orc))) = Some (i, length t) /\ snd (fst (fst (locate s t orc))) = true
  /\ snd (locate s t orc) = snd (approx (s_raw s) t orc).
Proof. intros H0 H1. unfold locate, clean_of in *. rewrite H0. destruct (approx (s_raw s) t orc) as [m1 orc1].
  destruct (s_clean s) as [c|]; cbn [fst snd]; rewrite H1; cbn [fst snd]; auto. Qed.
(* ... and when neither view has an exact occurrence, a raw-view quote-stage answer is the one used, on the raw map *)
Lemma locate_quote_raw s t orc i : find_on (s_raw s) t = None -> find_on (clean_of s) t = None -> find_quote (s_raw s) t = Some i ->
  fst (fst (fst (locate s t orc))) = Some (i, length t) /\ snd (fst (fst (locate s t orc))) = false /\ snd (locate s t orc) = orc.
Proof. intros H0 H1 H2. unfold locate, clean_of in *. rewrite H0. unfold approx. rewrite H2.
  destruct (s_clean s) as [c|]; cbn [fst snd]; rewrite H1; cbn [fst snd]; auto. Qed.
