(* C10: where the comment range lands - immediately around the elements it was attached to. *)
From Coq Require Import List NArith Bool Arith Lia.
Import ListNotations.
From Adeu Require Import Str Doc Prims Tree.

(* the identity occurs somewhere in the node (at it or nested in it) *)
Fixpoint mentions (uid : nat) (n : node) : bool :=
  has_uid uid n || match n with NWrap _ _ _ cs => existsb (mentions uid) cs | _ => false end.
Lemma flat_map_id_in {A} (g : A -> list A) cs : (forall c, In c cs -> g c = [c]) -> flat_map g cs = cs.
Proof. induction cs as [|c cs IH]; intros H; [reflexivity|]. cbn [flat_map]. rewrite (H c (or_introl eq_refl)). cbn [app]. f_equal.
  apply IH. intros c' Hc'. apply H. now right. Qed.
Lemma anchor_misses su eu cid ru rf : forall n, mentions su n = false -> mentions eu n = false -> upd (anchor su eu cid ru rf) n = [n].
Proof. induction n using node_ind'; intros Hs He; cbn [mentions] in Hs, He;
    apply orb_false_iff in Hs as [Hs1 Hs2]; apply orb_false_iff in He as [He1 He2];
    cbn [upd]; unfold anchor at 1; rewrite Hs1, He1; cbn [andb]; try reflexivity.
  f_equal. f_equal. apply flat_map_id_in. intros c Hc. rewrite Forall_forall in H. apply (H c Hc).
  - destruct (mentions su c) eqn:E; auto. assert (existsb (mentions su) cs = true) by (apply existsb_exists; eauto). congruence.
  - destruct (mentions eu c) eqn:E; auto. assert (existsb (mentions eu) cs = true) by (apply existsb_exists; eauto). congruence. Qed.
Lemma upd_l_misses su eu cid ru rf ns : Forall (fun n => mentions su n = false /\ mentions eu n = false) ns ->
  upd_l (anchor su eu cid ru rf) ns = ns.
Proof. intros H. unfold upd_l. apply flat_map_id_in. intros c Hc. rewrite Forall_forall in H. destruct (H c Hc). now apply anchor_misses. Qed.

Lemma upd_hit f n ns : f n = Some ns -> upd f n = ns.
Proof. intros H. destruct n; cbn [upd]; now rewrite H. Qed.
(* the range of a comment attached to (su .. eu), two different elements of one node list whose identities occur nowhere else:
   commentRangeStart immediately before the first, commentRangeEnd and the reference run immediately after the last *)
Theorem anchor_range su eu cid ru rf pre n1 mid n2 post :
  has_uid su n1 = true -> has_uid eu n1 = false -> has_uid eu n2 = true -> has_uid su n2 = false ->
  Forall (fun n => mentions su n = false /\ mentions eu n = false) (pre ++ mid ++ post) ->
  upd_l (anchor su eu cid ru rf) (pre ++ [n1] ++ mid ++ [n2] ++ post) =
  pre ++ [NCrs cid; n1] ++ mid ++ [n2; NCre cid; NRun ru rf [CRef cid]] ++ post.
Proof. intros A1 A2 B1 B2 H. apply Forall_app in H as [Hp H]. apply Forall_app in H as [Hm Ho].
  unfold upd_l. rewrite !flat_map_app. fold (upd_l (anchor su eu cid ru rf) pre) (upd_l (anchor su eu cid ru rf) mid) (upd_l (anchor su eu cid ru rf) post).
  rewrite !upd_l_misses by assumption. cbn [flat_map].
  rewrite (upd_hit _ n1 [NCrs cid; n1]) by (unfold anchor; now rewrite A1, A2).
  rewrite (upd_hit _ n2 [n2; NCre cid; NRun ru rf [CRef cid]]) by (unfold anchor; now rewrite B2, B1).
  now rewrite !app_nil_r. Qed.
(* attached to one element *)
Theorem anchor_single su cid ru rf pre n post : has_uid su n = true ->
  Forall (fun x => mentions su x = false) (pre ++ post) ->
  upd_l (anchor su su cid ru rf) (pre ++ [n] ++ post) = pre ++ [NCrs cid; n; NCre cid; NRun ru rf [CRef cid]] ++ post.
Proof. intros A H. apply Forall_app in H as [Hp Ho].
  assert (G : forall l, Forall (fun x => mentions su x = false) l -> Forall (fun n0 => mentions su n0 = false /\ mentions su n0 = false) l)
    by (intros l Hl; eapply Forall_impl; [|exact Hl]; auto).
  unfold upd_l. rewrite !flat_map_app. fold (upd_l (anchor su su cid ru rf) pre) (upd_l (anchor su su cid ru rf) post).
  rewrite !upd_l_misses by (apply G; assumption). cbn [flat_map].
  rewrite (upd_hit _ n [NCrs cid; n; NCre cid; NRun ru rf [CRef cid]]) by (unfold anchor; now rewrite A).
  now rewrite !app_nil_r. Qed.
Print Assumptions anchor_range.
