From Coq Require Import List NArith Bool Arith Lia.
Import ListNotations.
From Adeu Require Import Str ListX Markup.
Section MP.
Variable isword : char -> bool.
Variable show_nat : nat -> str.

Lemma prefixb_app m s : prefixb m s = true -> exists r, s = m ++ r.
Proof. revert s; induction m as [|x m IH]; intros s H; simpl in *.
  - exists s. reflexivity.
  - destruct s as [|y s]; [discriminate|]. apply andb_true_iff in H as [H1 H2]. apply N.eqb_eq in H1. subst y.
    destruct (IH _ H2) as [r ->]. exists r. reflexivity. Qed.
Lemma suffixb_app m s : suffixb m s = true -> exists r, s = r ++ m.
Proof. unfold suffixb. intros H. apply prefixb_app in H as [r E]. exists (rev r).
  apply (f_equal (@rev _)) in E. rewrite rev_involutive, rev_app_distr, rev_involutive in E. exact E. Qed.

(* a text that starts and ends with m and is at least 2|m| long decomposes as m ++ inner ++ m *)
Lemma strip_decomp (t m : str) : prefixb m t = true -> suffixb m t = true -> 2 * length m <= length t ->
  m ++ slice t (length m) (length t - length m) ++ m = t.
Proof. intros Hp Hs Hl. apply prefixb_app in Hp as [r E1]. apply suffixb_app in Hs as [r' E2].
  assert (Lr : length m <= length r). { subst t. rewrite app_length in Hl. lia. }
  (* r = inner ++ m *)
  assert (exists inner, r = inner ++ m) as [inner Er].
  { exists (firstn (length r - length m) r).
    assert (E : m ++ r = r' ++ m) by congruence.
    assert (L : length r' = length r). { apply (f_equal (@length _)) in E. rewrite !app_length in E. lia. }
    apply (f_equal (skipn (length r'))) in E. rewrite skipn_app in E at 1.
    rewrite (skipn_all2 m) in E by lia. rewrite skipn_app, skipn_all, Nat.sub_diag in E. simpl in E.
    rewrite <- (firstn_skipn (length r - length m) r) at 1. f_equal.
    replace (length r' - length m) with (length r - length m) in E by lia. exact E. }
  subst t r. unfold slice. rewrite !app_length.
  replace (length m + (length inner + length m) - length m - length m) with (length inner) by lia.
  rewrite skipn_app, skipn_all, Nat.sub_diag. simpl. rewrite firstn_app, firstn_all, Nat.sub_diag. simpl.
  rewrite app_nil_r. reflexivity. Qed.

Theorem strip_balanced_decomp t : let '(pre, ct, suf) := strip_balanced isword t in pre ++ ct ++ suf = t.
Proof. unfold strip_balanced.
  assert (H : forall m, should_strip isword t m = true -> m ++ slice t (length m) (length t - length m) ++ m = t).
  { intros m Hm. unfold should_strip in Hm. repeat (apply andb_true_iff in Hm as [Hm ?]).
    apply strip_decomp; auto. apply Nat.leb_le. assumption. }
  destruct (should_strip isword t m_bb) eqn:E1; [apply H; exact E1|].
  destruct (should_strip isword t m_uu) eqn:E2; [apply H; exact E2|].
  destruct (should_strip isword t m_u) eqn:E3; [apply H; exact E3|].
  destruct (should_strip isword t m_b) eqn:E4; [apply H; exact E4|].
  simpl. apply app_nil_r. Qed.

(* ---- the selected matches: indexes are positions in the submitted list, ranges are non-empty and pairwise disjoint ---- *)
Definition disj (a b : nat * nat) : Prop := snd a <= fst b \/ snd b <= fst a.
Lemma overlaps_false occ s e : overlaps occ s e = false -> forall o, In o occ -> ~ (s < snd o /\ fst o < e).
Proof. unfold overlaps. intros H o Ho [A B]. assert (existsb (fun oe => (s <? snd oe) && (fst oe <? e)) occ = true).
  { apply existsb_exists. exists o. split; auto. apply andb_true_iff. split; apply Nat.ltb_lt; auto. }
  congruence. Qed.
Definition rng (m : nat * nat * medit * nat) : nat * nat := (fst (fst (fst m)), snd (fst (fst m))).
Lemma select_spec text : forall es idx occ,
  let sel := select text es idx occ in
  Forall (fun m => fst (rng m) <> snd (rng m) /\ (forall o, In o occ -> ~ (fst (rng m) < snd o /\ fst o < snd (rng m)))
                   /\ idx <= snd m /\ nth_error es (snd m - idx) = Some (snd (fst m))
                   /\ find_match text (me_target (snd (fst m))) (me_fuzzy (snd (fst m))) = Some (rng m)) sel
  /\ ForallOrdPairs (fun a b => ~ (fst (rng b) < snd (rng a) /\ fst (rng a) < snd (rng b))) sel.
Proof. induction es as [|e es IH]; intros idx occ; simpl; [split; constructor|].
  destruct (find_match text (me_target e) (me_fuzzy e)) as [[s en]|] eqn:Ef.
  - destruct ((s =? en) || overlaps occ s en) eqn:Eo.
    + destruct (IH (S idx) occ) as [A B]. split; auto.
      eapply Forall_impl; [|exact A]. intros m (H0 & H1 & H2 & H3 & H4). repeat split; auto; try lia.
      replace (snd m - idx) with (S (snd m - S idx)) by lia. exact H3.
    + apply orb_false_iff in Eo as [En Eo]. apply Nat.eqb_neq in En.
      destruct (IH (S idx) (occ ++ [(s, en)])) as [A B]. split.
      * constructor.
        -- simpl. repeat split; auto. ++ apply overlaps_false; auto. ++ rewrite Nat.sub_diag. reflexivity.
        -- eapply Forall_impl; [|exact A]. intros m (H0 & H1 & H2 & H3 & H4). repeat split; auto; try lia.
           ++ intros o Ho. apply H1. apply in_or_app. now left.
           ++ replace (snd m - idx) with (S (snd m - S idx)) by lia. exact H3.
      * constructor; auto. eapply Forall_impl; [|exact A]. intros m (H0 & H1 & _). simpl.
        assert (Hin : In (s, en) (occ ++ [(s, en)])) by (apply in_or_app; right; left; reflexivity).
        specialize (H1 (s, en) Hin). simpl in H1. exact H1.
  - destruct (IH (S idx) occ) as [A B]. split; auto.
    eapply Forall_impl; [|exact A]. intros m (H0 & H1 & H2 & H3 & H4). repeat split; auto; try lia.
    replace (snd m - idx) with (S (snd m - S idx)) by lia. exact H3. Qed.
End MP.
