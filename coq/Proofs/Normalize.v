From Coq Require Import List NArith Bool Arith Lia.
Import ListNotations.
From Adeu Require Import Str Doc Norm Tree.
Lemma rpr_list_eqb_eq a b : rpr_list_eqb a b = true -> a = b.
Proof. revert b; induction a as [|[x1 y1] a IH]; intros [|[x2 y2] b]; simpl; try discriminate; auto.
  intros H. apply andb_true_iff in H as [H H3]. apply andb_true_iff in H as [H1 H2].
  apply N.eqb_eq in H1, H2. subst. f_equal. now apply IH. Qed.
Lemma rpr_eqb_eq a b : rpr_eqb a b = true -> a = b.
Proof. destruct a, b; simpl; try discriminate; auto. intros H. f_equal. now apply rpr_list_eqb_eq. Qed.

(* C05: the atom tape (proofErr aside) is unchanged, in every mark context *)
Lemma coalesce_atoms st : forall fuel ns, atoms_l st (coalesce fuel ns) = atoms_l st ns.
Proof.
  induction fuel as [|f IH]; intros ns; [reflexivity|].
  destruct ns as [|x rest]; [reflexivity|].
  destruct x as [u1 f1 k1|u k m cs|i|i|t]; cbn [coalesce];
    try (unfold atoms_l in *; cbn [flat_map]; now rewrite IH).
  destruct rest as [|y rest']; [unfold atoms_l in *; cbn [flat_map]; now rewrite IH|].
  destruct y as [u2 f2 k2|u k m cs|i|i|t];
    try (unfold atoms_l in *; cbn [flat_map]; now rewrite IH).
  destruct (negb (special k1) && negb (special k2) && rpr_eqb f1 f2) eqn:E.
  - apply andb_true_iff in E as [_ E]. apply rpr_eqb_eq in E. subst f2.
    rewrite IH. unfold atoms_l. cbn [flat_map atoms]. rewrite flat_map_app. now rewrite app_assoc.
  - unfold atoms_l in *. cbn [flat_map]. now rewrite IH.
Qed.

Theorem C05_para_neutral st ns : atoms_l st (normalize_para ns) = atoms_l st (np ns).
Proof. unfold normalize_para, np. apply coalesce_atoms. Qed.

(* merging never crosses an intervening element, never drops a node other than the absorbed run, keeps order:
   the sequence of non-run nodes is untouched *)
Lemma coalesce_non_runs : forall fuel ns, non_runs (coalesce fuel ns) = non_runs ns.
Proof.
  induction fuel as [|f IH]; intros ns; [reflexivity|].
  destruct ns as [|x rest]; [reflexivity|].
  destruct x as [u1 f1 k1|u k m cs|i|i|t]; cbn [coalesce]; try (cbn [non_runs filter]; f_equal; apply IH).
  destruct rest as [|y rest']; [cbn [non_runs filter]; apply IH|].
  destruct y as [u2 f2 k2|u k m cs|i|i|t]; try (cbn [non_runs filter]; rewrite IH; reflexivity).
  destruct (_ && _ && _); [rewrite IH; reflexivity|cbn [non_runs filter]; rewrite IH; reflexivity].
Qed.
Print Assumptions C05_para_neutral.
