From Coq Require Import List NArith Bool Arith Lia.
Import ListNotations.
From Adeu Require Import Str Doc Prims Tree Split.
Section Core.
  Variable S : mark -> bool.     (* marks created by this session *)
  Variable C : str -> bool.        (* comment ids created by this session *)
  Notation rej := (rej S C).

  (* a primitive is "of the session" when its marks / comment ids are *)
  Definition session_prim (p : prim) : bool :=
    match p with
    | PSplit _ _ _ => true
    | PWrapDel _ _ m => S m
    | PInsAfter _ _ m _ | PInsBefore _ _ m _ => S m
    | PAnchor _ _ cid _ _ => C cid
    end.

  Lemma rej_dead_kids f st kids : dead S st = true -> rej (flat_map (kid_atoms f st) kids) = [].
  Proof.
    intros Hd. induction kids as [|kid k IHk]; [reflexivity|]. cbn [flat_map]. rewrite rej_app, IHk, app_nil_r.
    destruct kid as [s|s| | | |i|t]; cbn [kid_atoms]; unfold Doc.rej; cbn [flat_map rej_atom]; rewrite ?Hd, ?orb_true_r; try reflexivity.
    - induction s as [|c s IHs]; cbn [map flat_map rej_atom]; rewrite ?Hd; auto.
    - induction s as [|c s IHs]; cbn [map flat_map rej_atom]; rewrite ?Hd; auto.
  Qed.
  Lemma rej_session_ins st iu m runs : S m = true -> rej (atoms st (ins_node iu m runs)) = [].
  Proof.
    intros Hm. unfold ins_node. cbn [atoms].
    assert (Hd : dead S ((KIns, m) :: st) = true) by (unfold dead; simpl; now rewrite Hm).
    induction runs as [|[[u f] kids] runs IH]; [reflexivity|].
    cbn [map flat_map atoms fst snd]. rewrite rej_app, IH, app_nil_r. now apply rej_dead_kids.
  Qed.

  Lemma prim_local p : session_prim p = true ->
    forall n ns st, prim_fun p n = Some ns -> rej (atoms_l st ns) = rej (atoms st n).
  Proof.
    intros Hs n ns st E. destruct p; cbn [prim_fun session_prim] in *.
    - (* split: atoms unchanged *) now rewrite (split_run_atoms _ _ _ _ _ st E).
    - (* wrap_del *)
      destruct n; simpl in E; try discriminate. destruct (Nat.eqb uid0 uid); [|discriminate]. inversion E; subst; clear E.
      unfold atoms_l. cbn [flat_map atoms]. rewrite !app_nil_r.
      induction kids as [|k kids IH]; [reflexivity|]. cbn [map flat_map]. rewrite !rej_app, IH. f_equal.
      rewrite kid_to_del. now apply rej_kid_del.
    - (* insert after *)
      unfold insert_after in E. destruct (has_uid uid n); [|discriminate]. inversion E; subst; clear E.
      unfold atoms_l. cbn [flat_map]. rewrite app_nil_r, rej_app, rej_session_ins by exact Hs. now rewrite app_nil_r.
    - (* insert before *)
      unfold insert_before in E. destruct (has_uid uid n); [|discriminate]. inversion E; subst; clear E.
      unfold atoms_l. cbn [flat_map]. rewrite app_nil_r, rej_app, rej_session_ins by exact Hs. reflexivity.
    - (* comment anchors of a session comment *)
      unfold anchor in E.
      assert (H1 : rej [ACrs cid st] = []) by (unfold Doc.rej; cbn [flat_map rej_atom]; now rewrite Hs).
      assert (H2 : rej [ACre cid st] = []) by (unfold Doc.rej; cbn [flat_map rej_atom]; now rewrite Hs).
      assert (H3 : rej (atoms st (NRun ru rf [CRef cid])) = []) by (unfold Doc.rej; simpl; now rewrite Hs).
      change (rej (atoms st (NCrs cid)) = []) in H1. change (rej (atoms st (NCre cid)) = []) in H2.
      destruct (has_uid su n && has_uid eu n); [|destruct (has_uid su n); [|destruct (has_uid eu n); [|discriminate]]];
        inversion E; subst; clear E; unfold atoms_l; cbn [flat_map]; rewrite ?app_nil_r, ?rej_app, ?H1, ?H2, ?H3, ?app_nil_r; reflexivity.
  Qed.

  (* C01, paragraph level: any sequence of session primitives is invisible to the session-rejected view *)
  Theorem C01_para_core ps : forallb session_prim ps = true ->
    forall ns st, rej (atoms_l st (fold_left apply_prim ps ns)) = rej (atoms_l st ns).
  Proof.
    induction ps as [|p ps IH]; intros Hs ns st; [reflexivity|].
    cbn [forallb] in Hs. apply andb_true_iff in Hs as [Hp Hps]. cbn [fold_left].
    rewrite (IH Hps). unfold apply_prim. apply upd_l_rej. now apply prim_local.
  Qed.
End Core.
Print Assumptions C01_para_core.
