From Coq Require Import List NArith Bool Arith Lia.
Import ListNotations.
From Adeu Require Import Str ListX Doc ParaMachine ParaProofs Project ReviewProofs.

Definition ptext (l : list part) : str := flat_map p_text l.
Definition real_text (l : list part) : str := ptext (reals l).
Lemma reals_app' a b : reals (a ++ b) = reals a ++ reals b. Proof. apply filter_app. Qed.
Lemma reals_virt' s : reals (virt s) = []. Proof. destruct s; reflexivity. Qed.
Lemma real_text_app a b : real_text (a ++ b) = real_text a ++ real_text b.
Proof. unfold real_text, ptext. now rewrite reals_app', flat_map_app. Qed.

Lemma real_text_virt s : real_text (virt s) = [].
Proof. unfold real_text. now rewrite reals_virt'. Qed.
Lemma real_text_real u t : real_text [real u t] = t.
Proof. unfold real_text, ptext, reals, real. cbn [filter p_real flat_map p_text]. apply app_nil_r. Qed.
(* split_nl / join round trip *)
Lemma split_nl_nonempty s cur : split_nl s cur <> [].
Proof. revert cur; induction s as [|c s IH]; intros cur; cbn [split_nl]; [discriminate|]. destruct (N.eqb c 10); [discriminate|apply IH]. Qed.
Lemma split_nl_join : forall s cur, join s_nl (split_nl s cur) = rev cur ++ s.
Proof. induction s as [|c s IH]; intros cur; cbn [split_nl].
  - simpl. now rewrite app_nil_r.
  - destruct (N.eqb_spec c 10).
    + subst c. specialize (IH []). destruct (split_nl s []) as [|x l] eqn:E; [exfalso; exact (split_nl_nonempty s [] E)|].
      cbn [join]. cbn [join rev app] in IH. rewrite IH. reflexivity.
    + rewrite IH. simpl. now rewrite <- app_assoc. Qed.
Lemma existsb_rev {A} (p : A -> bool) l : existsb p (rev l) = existsb p l.
Proof. induction l as [|x l IH]; simpl; auto. rewrite existsb_app, IH. simpl. rewrite orb_false_r. apply orb_comm. Qed.
Lemma split_nl_no_nl : forall s cur, has_nl cur = false -> Forall (fun p => has_nl p = false) (split_nl s cur).
Proof. induction s as [|c s IH]; intros cur Hc; cbn [split_nl].
  - constructor; auto. unfold has_nl in *. rewrite existsb_rev. exact Hc.
  - destruct (N.eqb c 10) eqn:E.
    + constructor; [unfold has_nl in *; now rewrite existsb_rev|]. apply IH. reflexivity.
    + apply IH. unfold has_nl in *. cbn [existsb]. rewrite N.eqb_sym, E. exact Hc. Qed.

(* the real text of a run's parts is the run's text *)
Definition go_parts (uid : nat) (pre suf : str) :=
  fix go (first : bool) (ps : list str) : list part :=
    match ps with
    | [] => []
    | p :: ps' => (if first then [] else [real uid s_nl]) ++
                  (match p with [] => [] | _ => virt pre ++ [real uid p] ++ virt suf end) ++ go false ps'
    end.
Lemma go_parts_text uid pre suf : forall ps first, ps <> [] ->
  real_text (go_parts uid pre suf first ps) = (if first then [] else s_nl) ++ join s_nl ps.
Proof. induction ps as [|p ps IH]; intros first Hne; [congruence|]. cbn [go_parts].
  rewrite !real_text_app.
  assert (E1 : real_text (if first then [] else [real uid s_nl]) = if first then [] else s_nl) by (destruct first; [reflexivity|apply real_text_real]).
  assert (E2 : real_text (match p with [] => [] | _ => virt pre ++ [real uid p] ++ virt suf end) = p).
  { destruct p; [reflexivity|]. rewrite !real_text_app, !real_text_virt, real_text_real. cbn [app]. f_equal. apply app_nil_r. }
  rewrite E1, E2. destruct ps as [|q ps'].
  - simpl. now rewrite app_nil_r.
  - rewrite IH by discriminate. cbn [join]. reflexivity. Qed.
Theorem run_parts_text uid pre suf text : real_text (run_parts uid pre suf text) = text.
Proof. unfold run_parts. destruct text as [|c t]; [reflexivity|].
  destruct pre as [|a pre']; [destruct suf as [|b suf']|].
  - apply real_text_real.
  - destruct (has_nl (c :: t)).
    + change (real_text (go_parts uid [] (b :: suf') true (split_nl (c :: t) [])) = c :: t).
      rewrite go_parts_text by apply split_nl_nonempty. now rewrite split_nl_join.
    + rewrite !real_text_app, !real_text_virt, real_text_real. cbn [app]. f_equal. apply app_nil_r.
  - destruct (has_nl (c :: t)).
    + change (real_text (go_parts uid (a :: pre') suf true (split_nl (c :: t) [])) = c :: t).
      rewrite go_parts_text by apply split_nl_nonempty. now rewrite split_nl_join.
    + rewrite !real_text_app, !real_text_virt, real_text_real. cbn [app]. f_equal. apply app_nil_r. Qed.

(* newline isolation: a real part of a run is either free of line breaks or is exactly the line break, which sits outside
   the bold/italic markers *)
Definition nl_ok (pt : part) : Prop := p_real pt = true -> has_nl (p_text pt) = false \/ p_text pt = s_nl.
Lemma nl_ok_virt s : Forall nl_ok (virt s).
Proof. destruct s; simpl; constructor; auto. intros H. discriminate. Qed.
Lemma go_parts_nl uid pre suf : forall ps first, Forall (fun p => has_nl p = false) ps ->
  Forall nl_ok (go_parts uid pre suf first ps).
Proof. induction ps as [|p ps IH]; intros first Hf; cbn [go_parts]; [constructor|].
  inversion Hf; subst. apply Forall_app. split.
  { destruct first; constructor; auto. intros _. right. reflexivity. }
  apply Forall_app. split; [|now apply IH].
  destruct p; [constructor|]. apply Forall_app. split; [apply nl_ok_virt|].
  constructor; [intros _; left; assumption|apply nl_ok_virt]. Qed.
Theorem newline_isolation uid pre suf text : (pre <> [] \/ suf <> []) -> Forall nl_ok (run_parts uid pre suf text).
Proof. intros Hm. unfold run_parts. destruct text as [|c t]; [constructor|].
  destruct pre as [|a pre']; [destruct suf as [|b suf']; [destruct Hm; congruence|]|].
  - destruct (has_nl (c :: t)) eqn:E.
    + change (Forall nl_ok (go_parts uid [] (b :: suf') true (split_nl (c :: t) []))). apply go_parts_nl. now apply split_nl_no_nl.
    + apply Forall_app. split; [apply nl_ok_virt|]. constructor; [intros _; left; exact E|apply nl_ok_virt].
  - destruct (has_nl (c :: t)) eqn:E.
    + change (Forall nl_ok (go_parts uid (a :: pre') suf true (split_nl (c :: t) []))). apply go_parts_nl. now apply split_nl_no_nl.
    + apply Forall_app. split; [apply nl_ok_virt|]. constructor; [intros _; left; exact E|apply nl_ok_virt]. Qed.

(* completeness and order: the real text of a paragraph's projection is the text of its items' runs, once each, in order *)
Definition item_text (it : item ev) : str := match it with IRun _ _ _ t => t | IEv _ => [] end.
Theorem para_parts_complete clean cm ns : real_text (para_parts clean cm ns) = flat_map item_text (items clean ns).
Proof. unfold para_parts, real_text. rewrite para_spans_reals. unfold ptext. rewrite fm_fm. apply fm_ext. intros it _.
  destruct it as [u pre suf t|e]; [|reflexivity]. destruct t as [|c t]; [reflexivity|]. cbn [item_reals item_text].
  exact (run_parts_text u pre suf (c :: t)). Qed.
Print Assumptions para_parts_complete.

(* ---------- the items see every run of a well-formed paragraph: projection text = tape text ---------- *)
Definition leaf (n : node) : bool := match n with NWrap _ _ _ _ => false | _ => true end.
Definition only_runs (n : node) : bool := match n with NRun _ _ _ => true | _ => false end.
Definition wf_node (n : node) : bool :=
  match n with
  | NWrap _ KIns _ cs => forallb leaf cs
  | NWrap _ KDel _ cs => forallb only_runs cs
  | _ => true end.
Definition wf_nodes (ns : list node) : bool := forallb wf_node ns.
Definition vis (s : str) : str := map tab_to_sp s.
Lemma txt_app a b : txt (a ++ b) = txt a ++ txt b. Proof. unfold txt. apply flat_map_app. Qed.
Lemma vis_app a b : vis (a ++ b) = vis a ++ vis b. Proof. unfold vis. apply map_app. Qed.
Lemma kid_text_atoms f st k : kid_text k = vis (txt (kid_atoms f st k)).
Proof. destruct k; cbn [kid_text kid_atoms]; try reflexivity;
  induction s as [|c s IH]; simpl; auto; unfold vis, txt in *; simpl; now rewrite IH. Qed.
Lemma run_text_atoms f st kids : run_text kids = vis (txt (flat_map (kid_atoms f st) kids)).
Proof. unfold run_text. induction kids as [|k ks IH]; [reflexivity|]. cbn [flat_map]. rewrite txt_app, vis_app, <- IH. f_equal. apply kid_text_atoms. Qed.
Lemma ref_events_text kids : flat_map item_text (ref_events kids) = [].
Proof. unfold ref_events. rewrite fm_fm. rewrite (fm_ext _ (fun _ => [])); [apply fm_nil|]. intros k _. destruct k as [| | | | |[|c i]|]; reflexivity. Qed.
Lemma run_items_text st u f kids : flat_map item_text (ref_events kids ++ [run_item u f kids]) = vis (txt (atoms st (NRun u f kids))).
Proof. rewrite flat_map_app, ref_events_text. cbn [flat_map run_item item_text app atoms]. rewrite app_nil_r. apply run_text_atoms. Qed.
(* raw view: every character of the paragraph's tape - ordinary, inserted or deleted - once, in order (tab shown as a space) *)
Theorem items_raw_text ns : wf_nodes ns = true -> flat_map item_text (items false ns) = vis (txt (atoms_l [] ns)).
Proof. unfold items, atoms_l, wf_nodes. induction ns as [|n ns IH]; intros Hwf; [reflexivity|].
  cbn [forallb] in Hwf. apply andb_true_iff in Hwf as [Hn Hns]. cbn [flat_map]. rewrite flat_map_app, txt_app, vis_app, (IH Hns). f_equal. clear IH Hns.
  destruct n as [u f kids|u k m cs|i|i|t]; try reflexivity.
  - apply run_items_text.
  - destruct k; cbn [wf_node] in Hn; cbn [atoms].
    + rewrite !flat_map_app. cbn [flat_map item_text app]. rewrite app_nil_r.
      induction cs as [|c cs IHc]; [reflexivity|]. cbn [forallb] in Hn. apply andb_true_iff in Hn as [Hc Hcs].
      cbn [flat_map]. rewrite flat_map_app, txt_app, vis_app, (IHc Hcs). f_equal.
      destruct c; try reflexivity; [apply run_items_text|discriminate].
    + rewrite !flat_map_app. cbn [flat_map item_text app]. rewrite app_nil_r.
      induction cs as [|c cs IHc]; [reflexivity|]. cbn [forallb] in Hn. apply andb_true_iff in Hn as [Hc Hcs].
      cbn [flat_map]. rewrite flat_map_app, txt_app, vis_app, (IHc Hcs). f_equal.
      destruct c; try discriminate. cbn [flat_map run_item item_text app atoms]. rewrite app_nil_r. apply run_text_atoms. Qed.
(* accepted view: the same minus everything under a deletion *)
Theorem items_clean_text ns : wf_nodes ns = true -> flat_map item_text (items true ns) = vis (txt (flat_map acc_view (atoms_l [] ns))).
Proof. unfold items, atoms_l, wf_nodes. induction ns as [|n ns IH]; intros Hwf; [reflexivity|].
  cbn [forallb] in Hwf. apply andb_true_iff in Hwf as [Hn Hns]. cbn [flat_map]. rewrite !flat_map_app, txt_app, vis_app, (IH Hns). f_equal. clear IH Hns.
  assert (AV : forall st l, existsb is_del st = false -> (forall a, In a l -> atom_stack a = st) -> txt (flat_map acc_view l) = txt l).
  { intros st l Hst Hl. induction l as [|a l IHl]; [reflexivity|]. cbn [flat_map]. rewrite txt_app, IHl by (intros b Hb; apply Hl; now right).
    change (txt (a :: l)) with (txt_atom a ++ txt l). f_equal. pose proof (Hl a (or_introl eq_refl)) as Ha.
    unfold acc_view. rewrite Ha, Hst. destruct a; reflexivity. }
  assert (RS : forall st u f kids a, In a (atoms st (NRun u f kids)) -> atom_stack a = st).
  { intros st u f kids a Ha. cbn [atoms] in Ha. apply in_flat_map in Ha as (k & _ & Ha). destruct k; cbn [kid_atoms] in Ha;
    try (apply in_map_iff in Ha as (c & <- & _); reflexivity); destruct Ha as [<-|[]]; reflexivity. }
  destruct n as [u f kids|u k m cs|i|i|t]; try reflexivity.
  - rewrite (AV [] _ eq_refl (RS [] u f kids)). apply run_items_text.
  - destruct k; cbn [wf_node] in Hn; cbn [atoms].
    + rewrite !flat_map_app. cbn [flat_map item_text app]. rewrite app_nil_r.
      induction cs as [|c cs IHc]; [reflexivity|]. cbn [forallb] in Hn. apply andb_true_iff in Hn as [Hc Hcs].
      cbn [flat_map]. rewrite !flat_map_app, txt_app, vis_app, (IHc Hcs). f_equal.
      destruct c; try reflexivity; [|discriminate].
      rewrite (AV [(KIns, m)] _ eq_refl (RS [(KIns, m)] uid f kids)). apply run_items_text.
    + cbn [flat_map item_text app]. symmetry. unfold vis, txt. rewrite fm_fm.
      rewrite (fm_ext _ (fun _ => [])); [now rewrite fm_nil|]. intros a Ha.
      apply in_flat_map in Ha as (c & _ & Ha). rewrite (atoms_base c) in Ha. apply in_map_iff in Ha as (a0 & <- & _).
      unfold acc_view. rewrite (base_has_del (KDel, m) [] a0 eq_refl). reflexivity. Qed.
Print Assumptions items_clean_text.

(* ---------- document level: stories, tables, cells - every paragraph's real text once, in document order ---------- *)
From Adeu Require Import DocOps DocProofs.
Section DocLevel.
Variable isspace iup ilow : char -> bool.
Variable otext : N -> str.
Notation para_spans_of := (para_spans_of isspace iup ilow otext).
Notation block_spans := (block_spans isspace iup ilow otext).
Notation doc_spans := (doc_spans isspace iup ilow otext).
Definition sreal (l : list span) : str := flat_map sp_text (filter sp_real l).
Lemma sreal_app a b : sreal (a ++ b) = sreal a ++ sreal b.
Proof. unfold sreal. now rewrite filter_app, flat_map_app. Qed.
Lemma sreal_vspan t p : sreal [vspan t p] = []. Proof. reflexivity. Qed.
Lemma sreal_sep (e : bool) t p : sreal (if e then [vspan t p] else []) = []. Proof. destruct e; reflexivity. Qed.
Lemma sreal_empty l : is_empty_spans l = true -> sreal l = [].
Proof. unfold is_empty_spans, sreal. induction l as [|x l IH]; simpl; auto. intros H. apply andb_true_iff in H as [H1 H2].
  destruct (sp_real x); simpl; rewrite ?IH; auto. destruct (sp_text x); [reflexivity|discriminate]. Qed.
Lemma join_with_sreal {A} sep (f : A -> list span) l : sreal sep = [] -> sreal (join_with sep f l) = flat_map (fun x => sreal (f x)) l.
Proof. intros Hs. induction l as [|x l IH]; [reflexivity|]. cbn [join_with flat_map]. destruct l as [|y l'].
  - simpl. now rewrite app_nil_r.
  - rewrite !sreal_app, Hs. cbn [app]. now rewrite IH. Qed.
Lemma join_blocks_sreal f : forall bs e p, sreal (join_blocks f e p bs) = flat_map (fun b => sreal (f b)) bs.
Proof. induction bs as [|b bs IH]; intros e p; [reflexivity|]. cbn [join_blocks flat_map].
  destruct (is_para b).
  - rewrite !sreal_app, sreal_sep, IH. reflexivity.
  - destruct (is_empty_spans (f b)) eqn:E.
    + rewrite IH, (sreal_empty _ E). reflexivity.
    + rewrite !sreal_app, sreal_sep, IH. reflexivity. Qed.
Definition para_real clean cm (p : para) : str := real_text (para_parts clean cm (p_nodes p)).
Lemma para_spans_of_sreal clean cm p : sreal (para_spans_of clean cm p) = para_real clean cm p.
Proof. unfold Project.para_spans_of. rewrite sreal_app.
  assert (E : sreal (match prefix isspace iup ilow otext p with [] => [] | pf => [vspan pf (Some (p_id p))] end) = []) by (destruct (prefix _ _ _ _ p); reflexivity).
  rewrite E. cbn [app]. unfold sreal, para_real, real_text, ptext, reals.
  induction (para_parts clean cm (p_nodes p)) as [|pt l IH]; [reflexivity|]. cbn [map filter sp_real]. destruct (p_real pt); cbn [flat_map sp_text]; now rewrite IH. Qed.
Theorem block_spans_sreal clean cm : forall b, sreal (block_spans clean cm b) = flat_map (para_real clean cm) (block_paras b).
Proof. induction b using block_ind'; cbn [Project.block_spans block_paras].
  - rewrite para_spans_of_sreal. simpl. now rewrite app_nil_r.
  - rewrite join_with_sreal by reflexivity. rewrite fm_fm. apply fm_ext_in. intros r Hr.
    rewrite Forall_forall in H. specialize (H r Hr). rewrite join_with_sreal by reflexivity. rewrite fm_fm. apply fm_ext_in. intros c Hc.
    rewrite Forall_forall in H. specialize (H c Hc). rewrite join_blocks_sreal. rewrite fm_fm. apply fm_ext_in. intros b Hb.
    rewrite Forall_forall in H. exact (H b Hb). Qed.
Lemma stories_spans_sreal clean cm : forall ss e,
  sreal (stories_spans isspace iup ilow otext clean cm e ss) = flat_map (fun s => flat_map (para_real clean cm) (flat_map block_paras (s_blocks s))) ss.
Proof. induction ss as [|s ss IH]; intros e; [reflexivity|]. cbn [stories_spans flat_map].
  assert (E : sreal (blocks_spans isspace iup ilow otext clean cm false None (s_blocks s)) = flat_map (para_real clean cm) (flat_map block_paras (s_blocks s))).
  { unfold blocks_spans. rewrite join_blocks_sreal, fm_fm. apply fm_ext_in. intros b _. apply block_spans_sreal. }
  destruct (is_empty_spans _) eqn:Em.
  - rewrite IH, <- E, (sreal_empty _ Em). reflexivity.
  - rewrite !sreal_app, sreal_sep, IH, E. reflexivity. Qed.
(* the projection of a document shows the real text of every paragraph of every story - headers, body with nested and
   merged tables, footers - exactly once and in document order; everything else in it is virtual text *)
Theorem doc_spans_complete clean d : sreal (doc_spans clean d) = flat_map (para_real clean (d_comments d)) (doc_paras d).
Proof. unfold Project.doc_spans, doc_paras. rewrite stories_spans_sreal, fm_fm. reflexivity. Qed.
End DocLevel.
Print Assumptions doc_spans_complete.
