(* C14: the preview is the text with the marked blocks woven in - reject view and accept view at block level. *)
From Coq Require Import List NArith Bool Arith Lia.
Import ListNotations.
From Adeu Require Import Str ListX Markup MarkupProofs.

Section Weave.
Variable isword : char -> bool.
Variable show_nat : nat -> str.
Variable text : str.
Notation item := (nat * nat * medit * nat)%type.
Definition st (m : item) : nat := fst (fst (fst m)).
Definition en (m : item) : nat := snd (fst (fst m)).

(* ---------- ranges stay inside the text ---------- *)
Definition wf_range (r : nat * nat) : Prop := fst r <= snd r /\ snd r <= length text.
Lemma prefixb_len m s : prefixb m s = true -> length m <= length s.
Proof. intros H. apply prefixb_app in H as [r ->]. rewrite app_length. lia. Qed.
Lemma suffixb_len m s : suffixb m s = true -> length m <= length s.
Proof. intros H. apply suffixb_app in H as [r ->]. rewrite app_length. lia. Qed.
Lemma slice_len_le a b : length (slice text a b) <= b - a.
Proof. unfold slice. rewrite firstn_length. lia. Qed.
Lemma expand_wf m se : wf_range se -> wf_range (expand text m se).
Proof. destruct se as [s e]. unfold wf_range, expand. cbn [fst snd]. intros [H1 H2].
  destruct (Nat.odd _); [|auto].
  destruct (prefixb m (skipn e text)) eqn:Ep.
  - apply prefixb_len in Ep. rewrite skipn_length in Ep. cbn [fst snd]. lia.
  - destruct (suffixb m (firstn s text)); cbn [fst snd]; lia. Qed.
Lemma expand_round_wf se : wf_range se -> wf_range (expand_round text se).
Proof. intros H. unfold expand_round. repeat apply expand_wf. exact H. Qed.
Lemma safe_bounds_wf s e : wf_range (s, e) -> wf_range (safe_bounds text s e).
Proof. intros H. unfold safe_bounds. now repeat apply expand_round_wf. Qed.
Lemma refine_lead_wf m se : wf_range se -> wf_range (refine_lead text m se).
Proof. destruct se as [s e]. unfold wf_range, refine_lead. cbn [fst snd]. intros [H1 H2].
  destruct (prefixb m (slice text s e)) eqn:Ep; cbn [andb]; [|auto].
  destruct (Nat.odd _ && Nat.even _); cbn [fst snd]; [|auto].
  apply prefixb_len in Ep. pose proof (slice_len_le s e). lia. Qed.
Lemma refine_trail_wf m se : wf_range se -> wf_range (refine_trail text m se).
Proof. destruct se as [s e]. unfold wf_range, refine_trail. cbn [fst snd]. intros [H1 H2].
  destruct (suffixb m (slice text s e)) eqn:Ep; cbn [andb]; [|auto].
  destruct (Nat.odd _ && Nat.even _); cbn [fst snd]; [|auto].
  apply suffixb_len in Ep. pose proof (slice_len_le s e). lia. Qed.
Lemma refine_wf s e : wf_range (s, e) -> wf_range (refine text s e).
Proof. intros H. unfold refine. repeat apply refine_trail_wf. repeat apply refine_lead_wf. exact H. Qed.
Lemma find_from_bound needle : forall s i0 i, find_from needle s i0 = Some i -> i0 <= i /\ (i - i0) + length needle <= length s.
Proof. induction s as [|c s IH]; intros i0 i H; cbn [find_from] in H.
  - destruct (prefixb needle []) eqn:Ep; [|discriminate]. inversion H; subst. apply prefixb_len in Ep. simpl in *. lia.
  - destruct (prefixb needle (c :: s)) eqn:Ep.
    + inversion H; subst. apply prefixb_len in Ep. lia.
    + apply IH in H. cbn [length]. lia. Qed.
Definition fuzzy_ok (e : medit) : Prop := match me_fuzzy e with Some r => wf_range r | None => True end.
Lemma find_match_wf target fz r : match fz with Some x => wf_range x | None => True end ->
  find_match text target fz = Some r -> wf_range r.
Proof. intros Hf H. unfold find_match in H. destruct target as [|c t]; [discriminate|].
  destruct (find (c :: t) text) as [i|] eqn:E1.
  - inversion H; subst. apply safe_bounds_wf. unfold find in E1. apply find_from_bound in E1. unfold wf_range. cbn [fst snd length] in *. lia.
  - destruct (find (map q_norm (c :: t)) (map q_norm text)) as [i|] eqn:E2.
    + inversion H; subst. apply safe_bounds_wf. unfold find in E2. apply find_from_bound in E2. rewrite !map_length in E2.
      unfold wf_range. cbn [fst snd length] in *. lia.
    + destruct fz as [[s e]|]; [|discriminate]. destruct (refine text s e) as [s' e'] eqn:Er. inversion H; subst.
      apply safe_bounds_wf. rewrite <- Er. now apply refine_wf. Qed.

(* ---------- stable descending sort: a permutation that keeps pairwise (symmetric) facts, sorted by start ---------- *)
Lemma in_ins_desc x : forall l z, In z (ins_desc x l) <-> z = x \/ In z l.
Proof. induction l as [|y l IH]; intros z; cbn [ins_desc]; [simpl; intuition|].
  destruct (_ <? _); cbn [In]; [intuition|]. rewrite IH. intuition. Qed.
Lemma forall_ins_desc (P : item -> Prop) x l : P x -> Forall P l -> Forall P (ins_desc x l).
Proof. intros Hx Hl. apply Forall_forall. intros z Hz. apply in_ins_desc in Hz as [->|Hz]; auto. rewrite Forall_forall in Hl. auto. Qed.
Lemma fop_ins_desc (R : item -> item -> Prop) : (forall a b, R a b -> R b a) ->
  forall x l, Forall (R x) l -> ForallOrdPairs R l -> ForallOrdPairs R (ins_desc x l).
Proof. intros Sym x. induction l as [|y l IH]; intros Hx Hl; cbn [ins_desc]; [constructor; [constructor|constructor]|].
  destruct (_ <? _); [constructor; assumption|].
  inversion Hx; subst. inversion Hl; subst. constructor; [|now apply IH].
  apply forall_ins_desc; [now apply Sym|assumption]. Qed.
Lemma sort_desc_spec (P : item -> Prop) (R : item -> item -> Prop) : (forall a b, R a b -> R b a) ->
  forall l, Forall P l -> ForallOrdPairs R l ->
  Forall P (sort_desc l) /\ ForallOrdPairs R (sort_desc l).
Proof. intros Sym l. unfold sort_desc.
  assert (G : forall l acc, Forall P l -> Forall P acc -> ForallOrdPairs R l -> ForallOrdPairs R acc -> (forall a b, In a l -> In b acc -> R a b) ->
            Forall P (fold_left (fun acc x => ins_desc x acc) l acc) /\ ForallOrdPairs R (fold_left (fun acc x => ins_desc x acc) l acc)).
  { induction l0 as [|x l0 IH]; intros acc Hl Ha Rl Ra Hc; cbn [fold_left]; [auto|].
    inversion Hl; subst. inversion Rl; subst. apply IH; auto.
    - now apply forall_ins_desc.
    - apply fop_ins_desc; auto. apply Forall_forall. intros b Hb. apply Hc; [now left|exact Hb].
    - intros a b Ha' Hb. apply in_ins_desc in Hb as [->|Hb]; [|apply Hc; [now right|exact Hb]].
      apply Sym. rewrite Forall_forall in H3. now apply H3. }
  intros Hl Rl. apply G; auto; try constructor. intros a b _ []. Qed.
Definition desc (a b : item) : Prop := st b <= st a.          (* a before b *)
Lemma ins_desc_sorted x : forall l, ForallOrdPairs desc l -> ForallOrdPairs desc (ins_desc x l).
Proof. induction l as [|y l IH]; intros H; cbn [ins_desc]; [constructor; constructor|].
  fold (st y). fold (st x). destruct (st y <? st x) eqn:E.
  - apply Nat.ltb_lt in E. constructor; [|exact H]. inversion H; subst. constructor; [unfold desc; lia|].
    eapply Forall_impl; [|exact H2]. unfold desc. intros z Hz. lia.
  - apply Nat.ltb_ge in E. inversion H; subst. constructor; [|now apply IH].
    apply Forall_forall. intros z Hz. apply in_ins_desc in Hz as [->|Hz]; [exact E|]. rewrite Forall_forall in H2. now apply H2. Qed.
Lemma sort_desc_sorted l : ForallOrdPairs desc (sort_desc l).
Proof. unfold sort_desc. assert (G : forall l acc, ForallOrdPairs desc acc -> ForallOrdPairs desc (fold_left (fun acc x => ins_desc x acc) l acc)).
  { induction l0 as [|x l0 IH]; intros acc H; cbn [fold_left]; auto. apply IH. now apply ins_desc_sorted. }
  apply G. constructor. Qed.

(* ---------- weaving: descending in-place replacement = ascending interleaving ---------- *)
Variable blk : item -> str.      (* what is written in place of the matched range *)
Definition wstep (res : str) (m : item) : str := firstn (st m) res ++ blk m ++ skipn (en m) res.
(* every range is non-inverted and ends at or before the start of the range processed just before it (ub) *)
Fixpoint chain (ub : nat) (l : list item) : Prop :=
  match l with [] => True | m :: r => st m <= en m /\ en m <= ub /\ chain (st m) r end.
Inductive seg := Plain (p : str) | Block (m : item).
Fixpoint segs_desc (l : list item) (u : nat) (acc : list seg) : list seg :=
  match l with
  | [] => Plain (firstn u text) :: acc
  | m :: r => segs_desc r (st m) (Block m :: Plain (slice text (en m) u) :: acc)
  end.
Definition seg_str (s : seg) : str := match s with Plain p => p | Block m => blk m end.
Definition seg_matched (s : seg) : str := match s with Plain p => p | Block m => slice text (st m) (en m) end.
Lemma skipn_firstn_slice a u : a <= u -> skipn a (firstn u text) = slice text a u.
Proof. intros H. unfold slice. revert a u H. induction text as [|c t IH]; intros a u H.
  - now rewrite firstn_nil, !skipn_nil, firstn_nil.
  - destruct u as [|u]; [assert (a = 0) by lia; subst; reflexivity|]. destruct a as [|a]; cbn [firstn skipn]; [now rewrite Nat.sub_0_r|].
    cbn [Nat.sub]. apply IH. lia. Qed.
Lemma fold_weave : forall l u T, u <= length text -> chain u l ->
  fold_left wstep l (firstn u text ++ T) = concat (map seg_str (segs_desc l u [])) ++ T.
Proof.
  assert (G : forall l u acc T, u <= length text -> chain u l ->
            fold_left wstep l (firstn u text ++ concat (map seg_str acc) ++ T) = concat (map seg_str (segs_desc l u acc)) ++ T).
  { induction l as [|m r IH]; intros u acc T Hu Hc; cbn [fold_left segs_desc].
    - cbn [map concat seg_str]. now rewrite <- app_assoc.
    - destruct Hc as (H1 & H2 & H3). unfold wstep at 2.
      rewrite firstn_app, firstn_firstn, firstn_length, (Nat.min_l (st m) u) by lia.
      replace (st m - Nat.min u (length text)) with 0 by lia. cbn [firstn]. rewrite app_nil_r.
      rewrite skipn_app, firstn_length. replace (en m - Nat.min u (length text)) with 0 by lia. cbn [skipn].
      rewrite skipn_firstn_slice by lia.
      specialize (IH (st m) (Block m :: Plain (slice text (en m) u) :: acc) T ltac:(lia) H3).
      cbn [map concat seg_str] in IH. rewrite <- IH. f_equal. now rewrite <- !app_assoc. }
  intros l u T Hu Hc. specialize (G l u [] T Hu Hc). cbn [map concat] in G. exact G. Qed.
Lemma matched_weave : forall l u acc, u <= length text -> chain u l ->
  concat (map seg_matched (segs_desc l u acc)) = firstn u text ++ concat (map seg_matched acc).
Proof. induction l as [|m r IH]; intros u acc Hu Hc; cbn [segs_desc]; [reflexivity|].
  destruct Hc as (H1 & H2 & H3). rewrite IH by (auto; lia). cbn [map concat seg_matched].
  rewrite !app_assoc. f_equal.
  assert (E : forall a, firstn a text = slice text 0 a) by (intros a; unfold slice; now rewrite Nat.sub_0_r).
  rewrite !E, slice_app by lia. apply slice_app; lia. Qed.
End Weave.

Section Render.
Variable isword : char -> bool.
Variable show_nat : nat -> str.
Notation item := (nat * nat * medit * nat)%type.
Definition disjr (a b : item) : Prop := ~ (fst (rng b) < snd (rng a) /\ fst (rng a) < snd (rng b)).
Lemma chain_of (text : str) : forall l ub, Forall (fun m => st m < en m /\ en m <= length text) l ->
  ForallOrdPairs disjr l -> ForallOrdPairs desc l -> (forall m, In m l -> en m <= ub) -> chain ub l.
Proof. induction l as [|m r IH]; intros ub Hw Hd Hs Hub; cbn [chain]; [exact I|].
  inversion Hw; subst. inversion Hd; subst. inversion Hs; subst. destruct H1 as [A B].
  split; [lia|]. split; [apply Hub; now left|]. apply IH; auto.
  intros m' Hm'. rewrite Forall_forall in H3, H5. specialize (H3 m' Hm'). specialize (H5 m' Hm').
  unfold disjr, rng, desc, st, en in *. cbn [fst snd] in *. lia. Qed.
Fixpoint seg_blocks (l : list seg) : list item := match l with [] => [] | Block m :: r => m :: seg_blocks r | Plain _ :: r => seg_blocks r end.
Lemma segs_blocks (text : str) : forall l u acc, seg_blocks (segs_desc text l u acc) = rev l ++ seg_blocks acc.
Proof. induction l as [|m r IH]; intros u acc; cbn [segs_desc]; [reflexivity|]. rewrite IH. cbn [seg_blocks rev]. now rewrite <- app_assoc. Qed.
Lemma fold_left_ext' {A B} (f g : A -> B -> A) : (forall a b, f a b = g a b) -> forall l a, fold_left f l a = fold_left g l a.
Proof. intros E. induction l as [|x l IH]; intros a; cbn [fold_left]; auto. now rewrite E, IH. Qed.

(* THE weave theorem: the preview is the text's own pieces, in order, with each selected edit's block standing exactly where
   its matched range was; reading every block as the text it matched gives back the text, character for character; the
   blocks appear in ascending position and are exactly the selected edits *)
Theorem render_weave (text : str) es wi hl : es <> [] -> Forall (fuzzy_ok text) es ->
  let sel := sort_desc (select text es 0 []) in
  let blk := fun m : item => build isword show_nat (slice text (st m) (en m)) (me_new (snd (fst m))) (me_comment (snd (fst m))) (snd m) wi hl in
  let segs := segs_desc text sel (length text) [] in
  render isword show_nat text es wi hl = concat (map (seg_str blk) segs)
  /\ concat (map (seg_matched text) segs) = text
  /\ seg_blocks segs = rev sel.
Proof. intros Hne Hf. cbn zeta.
  set (blk := fun m : item => build isword show_nat (slice text (st m) (en m)) (me_new (snd (fst m))) (me_comment (snd (fst m))) (snd m) wi hl).
  destruct (select_spec text es 0 []) as [A B].
  assert (Aw : Forall (fun m : item => st m < en m /\ en m <= length text) (select text es 0 [])).
  { eapply Forall_impl; [|exact A]. intros m (H0 & _ & _ & H3 & H4). rewrite Nat.sub_0_r in H3.
    assert (Hm : fuzzy_ok text (snd (fst m))). { rewrite Forall_forall in Hf. apply Hf. eapply nth_error_In; eauto. }
    pose proof (find_match_wf text _ _ _ Hm H4) as [W1 W2]. unfold rng, st, en in *. cbn [fst snd] in *. lia. }
  assert (Sym : forall a b : item, disjr a b -> disjr b a) by (unfold disjr; intros a b H; tauto).
  destruct (sort_desc_spec show_nat _ disjr Sym _ Aw B) as [Aw' B'].
  pose proof (sort_desc_sorted show_nat (select text es 0 [])) as S'.
  assert (Hc : chain (length text) (sort_desc (select text es 0 []))).
  { apply (chain_of text); auto. intros m Hm. rewrite Forall_forall in Aw'. exact (proj2 (Aw' m Hm)). }
  split; [|split].
  - unfold render. destruct es as [|e0 es']; [congruence|].
    rewrite fold_left_ext' with (g := wstep blk); [|intros res [[[s e'] e] idx]; reflexivity].
    pose proof (fold_weave text blk _ (length text) [] (le_n _) Hc) as G. rewrite firstn_all, !app_nil_r in G. exact G.
  - rewrite (matched_weave text _ (length text) [] (le_n _) Hc). cbn [map concat]. now rewrite firstn_all, app_nil_r.
  - rewrite segs_blocks. cbn [seg_blocks]. apply app_nil_r. Qed.

(* one block: the hoisted markers around a deletion / insertion of the clean target and the clean new text, then the metadata;
   read as rejected it is the matched text, read as accepted it is the new text (possibly inside the target's own markers) *)
Definition change (ct cn : str) : str :=
  match ct, cn with
  | _ :: _, [] => o_del ++ ct ++ c_del
  | [], _ :: _ => o_ins ++ cn ++ c_ins
  | _ :: _, _ :: _ => o_del ++ ct ++ c_del ++ o_ins ++ cn ++ c_ins
  | [], [] => [] end.
Lemma strip_balanced_sym t : let '(pre, ct, suf) := strip_balanced isword t in suf = pre.
Proof. unfold strip_balanced. repeat (match goal with |- context[if ?x then _ else _] => destruct x end; [reflexivity|]). reflexivity. Qed.
Theorem build_views target new cm idx wi :
  let '(pre, ct, suf) := strip_balanced isword target in
  exists cn meta, build isword show_nat target new cm idx wi false = pre ++ change ct cn ++ suf ++ meta
                  /\ pre ++ ct ++ suf = target /\ (cn = new \/ pre ++ cn ++ suf = new).
Proof. pose proof (strip_balanced_decomp isword target) as D. pose proof (strip_balanced_sym target) as Y. unfold build.
  destruct (strip_balanced isword target) as [[pre ct] suf]. subst suf.
  eexists. eexists. split; [unfold change; reflexivity|]. split; [exact D|].
  destruct pre as [|p0 pre']; [now left|]. destruct new as [|n0 new']; [now left|].
  destruct (prefixb (p0 :: pre') (n0 :: new') && suffixb (p0 :: pre') (n0 :: new')) eqn:E; [|now left].
  destruct (2 * length (p0 :: pre') <? length (n0 :: new')) eqn:L; [|now left]. right.
  apply andb_true_iff in E as [E1 E2]. apply Nat.ltb_lt in L. apply (strip_decomp (n0 :: new') (p0 :: pre')); auto. lia. Qed.
End Render.
Print Assumptions render_weave.
Print Assumptions build_views.
