From Coq Require Import List NArith Bool Arith Lia.
Import ListNotations.
From Adeu Require Import Str ParaMachine.
Section MachineProofs.
Variable ev : Type.
Variable st : Type.
Variable on_event : st -> ev -> st.
Variable on_run : st -> st.
Variable wrappers : st -> str * str.
Variable defer : st -> list (item ev) -> bool.
Variable meta : st -> str * st.
Variable run_parts : nat -> str -> str -> str -> list part.
Notation step := (step ev st on_event on_run wrappers defer meta run_parts).
Notation run := (run ev st on_event on_run wrappers defer meta run_parts).
Notation para_spans := (para_spans ev st on_event on_run wrappers defer meta run_parts).
Notation item_reals := (item_reals ev run_parts).

Notation mstate := (mstate st).
(* ---- the invariant ---- *)
Lemma reals_app a b : reals (a ++ b) = reals a ++ reals b. Proof. apply filter_app. Qed.
Lemma reals_virt s : reals (virt s) = []. Proof. destruct s; reflexivity. Qed.
Lemma flush_reals (m : mstate) : reals (out (flush m) ++ pending (flush m)) = reals (out m ++ pending m).
Proof. unfold flush. destruct (pending m) eqn:E; [now rewrite E|]. cbn [out pending].
  rewrite app_nil_r, !reals_app, !reals_virt. simpl. now rewrite app_nil_r. Qed.

Lemma flush_out_reals (m : mstate) : reals (out (flush m)) = reals (out m ++ pending m).
Proof. rewrite <- flush_reals. unfold flush. destruct (pending m) eqn:E; cbn [out pending]; rewrite ?E, ?app_nil_r; reflexivity. Qed.

Lemma step_reals (m : mstate) it rest :
  reals (out (step m it rest) ++ pending (step m it rest)) = reals (out m ++ pending m) ++ item_reals it.
Proof.
  destruct it as [uid pre suf text|e]; cbn [step item_reals].
  - destruct text as [|c t]; [now rewrite app_nil_r|].
    set (parts := run_parts uid pre suf (c :: t)).
    set (mA := {| out := out m; pending := pending m ++ parts; cur := cur m; ms := ms m |}).
    set (mB := {| out := out (flush m); pending := parts; cur := wrappers (ms m); ms := ms (flush m) |}).
    assert (HA : reals (out mA ++ pending mA) = reals (out m ++ pending m) ++ reals parts).
    { unfold mA; cbn [out pending]. now rewrite app_assoc, reals_app. }
    assert (HB : reals (out mB ++ pending mB) = reals (out m ++ pending m) ++ reals parts).
    { unfold mB; cbn [out pending]. now rewrite reals_app, flush_out_reals. }
    set (m1 := if negb (is_nil (pending m)) && pair_eqb (wrappers (ms m)) (cur m) then mA else mB).
    assert (H1 : reals (out m1 ++ pending m1) = reals (out m ++ pending m) ++ reals parts).
    { unfold m1. destruct (_ && _); assumption. }
    change (reals (out (let m2 := {| out := out m1; pending := pending m1; cur := cur m1; ms := on_run (ms m1) |} in
                        if defer (ms m2) rest then m2 else
                        let f := flush m2 in let '(txt, s') := meta (ms f) in
                        {| out := out f ++ virt txt; pending := pending f; cur := cur f; ms := s' |}) ++
                   pending (let m2 := {| out := out m1; pending := pending m1; cur := cur m1; ms := on_run (ms m1) |} in
                        if defer (ms m2) rest then m2 else
                        let f := flush m2 in let '(txt, s') := meta (ms f) in
                        {| out := out f ++ virt txt; pending := pending f; cur := cur f; ms := s' |}))
            = reals (out m ++ pending m) ++ reals parts).
    cbv zeta.
    set (m2 := {| out := out m1; pending := pending m1; cur := cur m1; ms := on_run (ms m1) |}).
    destruct (defer (ms m2) rest); [exact H1|].
    destruct (meta (ms (flush m2))) as [txt s'] eqn:Em. cbn [out pending].
    rewrite <- app_assoc, reals_app, (reals_app (virt txt)), reals_virt. simpl.
    rewrite <- reals_app. rewrite (flush_reals m2). exact H1.
  - rewrite app_nil_r. apply flush_reals.
Qed.

Lemma run_reals its : forall m, reals (out (run m its) ++ pending (run m its)) = reals (out m ++ pending m) ++ flat_map item_reals its.
Proof. induction its as [|it rest IH]; intros m; cbn [run flat_map]; [now rewrite app_nil_r|].
  rewrite IH, step_reals. now rewrite app_assoc. Qed.

(* C02_spans_wf, real half: the real spans of a paragraph are the real parts of its text-bearing runs, in order *)
Theorem para_spans_reals s0 its : reals (para_spans s0 its) = flat_map item_reals its.
Proof.
  unfold para_spans, finish.
  set (m := run _ its). destruct (meta (ms (flush m))) as [txt s'].
  rewrite reals_app, reals_virt, app_nil_r.
  rewrite flush_out_reals. unfold m. rewrite run_reals. reflexivity.
Qed.
End MachineProofs.
Print Assumptions para_spans_reals.
