From Coq Require Import List NArith Bool Arith Lia.
Import ListNotations.
From Adeu Require Import Str ListX Doc Project DocOps Review Tree.

(* ---------- generic list lemmas ---------- *)
Lemma fm_fm {A B C} (f : A -> list B) (g : B -> list C) l :
  flat_map g (flat_map f l) = flat_map (fun x => flat_map g (f x)) l.
Proof. induction l; simpl; auto. now rewrite flat_map_app, IHl. Qed.
Lemma fm_ext {A B} (f g : A -> list B) l : (forall x, In x l -> f x = g x) -> flat_map f l = flat_map g l.
Proof. induction l; simpl; intros H; auto. rewrite H, IHl; auto. Qed.
Lemma fm_nil {A B} (l : list A) : flat_map (fun _ => @nil B) l = [].
Proof. induction l; auto. Qed.
Lemma fm_map {A B C} (f : A -> B) (g : B -> list C) l : flat_map g (map f l) = flat_map (fun x => g (f x)) l.
Proof. induction l; simpl; congruence. Qed.
Lemma fm_single {A} (l : list A) : flat_map (fun a => [a]) l = l.
Proof. induction l; simpl; congruence. Qed.

(* ---------- the spec on atoms ---------- *)
Definition stack := list (wkind * mark).
Definition is_k (k : wkind) (km : wkind * mark) : bool := match k, fst km with KIns, KIns | KDel, KDel => true | _, _ => false end.
Definition hit (k : wkind) (i : str) (km : wkind * mark) : bool := is_k k km && id_is i (snd km).
(* ACCEPT i: text under a deletion with id i disappears; an insertion mark with id i is dropped from the stack *)
Definition acc_st (i : str) (st : stack) : option stack :=
  if existsb (hit KDel i) st then None else Some (filter (fun km => negb (hit KIns i km)) st).
Definition rej_st (i : str) (st : stack) : option stack :=
  if existsb (hit KIns i) st then None else Some (filter (fun km => negb (hit KDel i km)) st).
Definition on_stack (g : stack -> option stack) (a : atom) : list atom :=
  match a with
  | ACh c f st => match g st with Some s => [ACh c f s] | None => [] end
  | ASp t f st => match g st with Some s => [ASp t f s] | None => [] end
  | ACrs i st => match g st with Some s => [ACrs i s] | None => [] end
  | ACre i st => match g st with Some s => [ACre i s] | None => [] end
  | ACref i f st => match g st with Some s => [ACref i f s] | None => [] end
  end.
Definition acc1 (i : str) := on_stack (acc_st i).
Definition rej1 (i : str) := on_stack (rej_st i).

(* ---------- atoms under a longer base stack ---------- *)
Definition rebase (base : stack) (a : atom) : atom :=
  match a with
  | ACh c f st => ACh c f (st ++ base) | ASp t f st => ASp t f (st ++ base)
  | ACrs i st => ACrs i (st ++ base) | ACre i st => ACre i (st ++ base) | ACref i f st => ACref i f (st ++ base)
  end.
Lemma kid_atoms_base f st k : kid_atoms f st k = map (rebase st) (kid_atoms f [] k).
Proof. destruct k; simpl; auto; rewrite map_map; apply map_ext; reflexivity. Qed.
Lemma atoms_base : forall n st, atoms st n = map (rebase st) (atoms [] n).
Proof.
  induction n using node_ind'; intros st; cbn [atoms]; auto.
  - induction k as [|k0 ks IHk]; cbn [flat_map map]; auto. rewrite map_app, <- IHk. f_equal. apply kid_atoms_base.
  - (* wrapper *)
    match goal with H : Forall _ _ |- _ => induction H as [|c cs' Hc Hcs IH] end; cbn [flat_map map]; auto.
    rewrite map_app, <- IH. f_equal. rewrite (Hc ((k, m) :: st)), (Hc [(k, m)]), map_map. apply map_ext.
    intros a. destruct a; simpl; rewrite <- app_assoc; reflexivity.
Qed.
Lemma atoms_l_base st ns : atoms_l st ns = map (rebase st) (atoms_l [] ns).
Proof. unfold atoms_l. induction ns; simpl; auto. rewrite map_app, <- IHns. f_equal. apply atoms_base. Qed.

(* ---------- a stack transformer that ignores a frame can be pushed under that frame ---------- *)
Section Frames.
Variable g : stack -> option stack.
(* dropping frame km: g (s ++ km :: b) = g (s ++ b) *)
Definition drops (km : wkind * mark) := forall s b, g (s ++ km :: b) = g (s ++ b).
(* killing frame km: g (s ++ km :: b) = None *)
Definition kills (km : wkind * mark) := forall s b, g (s ++ km :: b) = None.
(* keeping frame km: g (s ++ km :: b) = g(s ++ b) with km re-inserted: stated through rebase on single-frame base *)
Lemma on_stack_drop km a b : drops km -> on_stack g (rebase (km :: b) a) = on_stack g (rebase b a).
Proof. intros H. destruct a; simpl; rewrite H; reflexivity. Qed.
Lemma on_stack_kill km a b : kills km -> on_stack g (rebase (km :: b) a) = [].
Proof. intros H. destruct a; simpl; rewrite H; reflexivity. Qed.
End Frames.

Lemma existsb_app' {A} (p : A -> bool) a b : existsb p (a ++ b) = existsb p a || existsb p b.
Proof. apply existsb_app. Qed.
Lemma acc_drops i km : hit KIns i km = true -> drops (acc_st i) km.
Proof. intros H s b. unfold acc_st. rewrite !existsb_app'. cbn [existsb].
  assert (E : hit KDel i km = false). { unfold hit, is_k in *. destruct (fst km); simpl in *; auto; discriminate. }
  rewrite E. cbn [orb]. destruct (existsb (hit KDel i) s || existsb (hit KDel i) b); auto.
  rewrite !filter_app. cbn [filter]. rewrite H. reflexivity. Qed.
Lemma acc_kills i km : hit KDel i km = true -> kills (acc_st i) km.
Proof. intros H s b. unfold acc_st. rewrite existsb_app'. cbn [existsb]. rewrite H, orb_true_r. reflexivity. Qed.
Lemma rej_drops i km : hit KDel i km = true -> drops (rej_st i) km.
Proof. intros H s b. unfold rej_st. rewrite !existsb_app'. cbn [existsb].
  assert (E : hit KIns i km = false). { unfold hit, is_k in *. destruct (fst km); simpl in *; auto; discriminate. }
  rewrite E. cbn [orb]. destruct (existsb (hit KIns i) s || existsb (hit KIns i) b); auto.
  rewrite !filter_app. cbn [filter]. rewrite H. reflexivity. Qed.
Lemma rej_kills i km : hit KIns i km = true -> kills (rej_st i) km.
Proof. intros H s b. unfold rej_st. rewrite existsb_app'. cbn [existsb]. rewrite H, orb_true_r. reflexivity. Qed.


(* ---------- contexts that carry no mark with id i ---------- *)
Definition clean (i : str) (st : stack) : bool := forallb (fun km => negb (id_is i (snd km))) st.
Lemma clean_no_hit k i st : clean i st = true -> existsb (hit k i) st = false.
Proof. unfold clean. induction st as [|km st IH]; simpl; auto. intros H. apply andb_true_iff in H as [H1 H2].
  rewrite (IH H2), orb_false_r. unfold hit. apply negb_true_iff in H1. rewrite H1. apply andb_false_r. Qed.
Lemma clean_filter k i st : clean i st = true -> filter (fun km => negb (hit k i km)) st = st.
Proof. unfold clean. induction st as [|km st IH]; simpl; auto. intros H. apply andb_true_iff in H as [H1 H2].
  unfold hit at 1. apply negb_true_iff in H1. rewrite H1, andb_false_r. simpl. now rewrite IH. Qed.
Lemma acc_clean i st : clean i st = true -> acc_st i st = Some st.
Proof. intros H. unfold acc_st. now rewrite clean_no_hit, clean_filter. Qed.
Lemma rej_clean i st : clean i st = true -> rej_st i st = Some st.
Proof. intros H. unfold rej_st. now rewrite clean_no_hit, clean_filter. Qed.
Lemma on_stack_clean g st f k : g st = Some st -> flat_map (on_stack g) (kid_atoms f st k) = kid_atoms f st k.
Proof. intros H. destruct k; simpl; rewrite ?H; auto; induction s as [|c s IH]; simpl; rewrite ?H; simpl; congruence. Qed.
Lemma run_spec g st u f kids : g st = Some st -> flat_map (on_stack g) (atoms st (NRun u f kids)) = atoms st (NRun u f kids).
Proof. intros H. cbn [atoms]. rewrite fm_fm. rewrite (fm_ext _ (kid_atoms f st)); auto. intros k _. now apply on_stack_clean. Qed.

Lemma drop_frame g km st c : drops g km -> flat_map (on_stack g) (atoms (km :: st) c) = flat_map (on_stack g) (atoms st c).
Proof. intros H. rewrite (atoms_base c (km :: st)), (atoms_base c st), !fm_map. apply fm_ext. intros a _. now apply on_stack_drop. Qed.
Lemma kill_frame g km st c : kills g km -> flat_map (on_stack g) (atoms (km :: st) c) = [].
Proof. intros H. rewrite (atoms_base c (km :: st)), fm_map. rewrite (fm_ext _ (fun _ => [])); [apply fm_nil|]. intros a _. now apply on_stack_kill. Qed.

Lemma id_hit k i m : id_is i m = true -> hit k i (k, m) = true.
Proof. intros H. unfold hit, is_k. simpl. rewrite H. destruct k; reflexivity. Qed.
Lemma clean_cons i k m st : id_is i m = false -> clean i st = true -> clean i ((k, m) :: st) = true.
Proof. intros H1 H2. unfold clean in *. simpl. now rewrite H1, H2. Qed.

Theorem accept_spec i : forall n st, clean i st = true -> atoms_l st (accept_node i n) = flat_map (acc1 i) (atoms st n).
Proof.
  induction n using node_ind'; intros st Hc.
  - cbn [accept_node]. unfold atoms_l, acc1. cbn [flat_map]. rewrite app_nil_r. symmetry. apply run_spec. now apply acc_clean.
  - (* wrapper *)
    assert (IHl : forall st', clean i st' = true -> flat_map (fun c => atoms_l st' (accept_node i c)) cs = flat_map (fun c => flat_map (acc1 i) (atoms st' c)) cs).
    { intros st' Hc'. apply fm_ext. intros c Hin. rewrite Forall_forall in H. now apply H. }
    destruct k; cbn [accept_node atoms]; destruct (id_is i m) eqn:E.
    + unfold atoms_l. rewrite fm_fm. change (flat_map (fun c => atoms_l st (accept_node i c)) cs = flat_map (acc1 i) (flat_map (atoms ((KIns, m) :: st)) cs)).
      rewrite (IHl st Hc), fm_fm. apply fm_ext. intros c _. symmetry. apply drop_frame. apply acc_drops. now apply id_hit.
    + unfold atoms_l. cbn [flat_map atoms]. rewrite app_nil_r, fm_fm.
      change (flat_map (fun c => atoms_l ((KIns, m) :: st) (accept_node i c)) cs = flat_map (acc1 i) (flat_map (atoms ((KIns, m) :: st)) cs)).
      rewrite (IHl _ (clean_cons i KIns m st E Hc)), fm_fm. reflexivity.
    + unfold atoms_l. cbn [flat_map]. rewrite fm_fm. rewrite (fm_ext _ (fun _ => [])); [now rewrite fm_nil|].
      intros c _. apply kill_frame. apply acc_kills. now apply id_hit.
    + unfold atoms_l. cbn [flat_map atoms]. rewrite app_nil_r, fm_fm.
      change (flat_map (fun c => atoms_l ((KDel, m) :: st) (accept_node i c)) cs = flat_map (acc1 i) (flat_map (atoms ((KDel, m) :: st)) cs)).
      rewrite (IHl _ (clean_cons i KDel m st E Hc)), fm_fm. reflexivity.
  - cbn. unfold acc1. cbn. now rewrite (acc_clean i st Hc).
  - cbn. unfold acc1. cbn. now rewrite (acc_clean i st Hc).
  - cbn. unfold acc1. cbn. now rewrite (acc_clean i st Hc).
Qed.
Corollary accept_l_spec i ns st : clean i st = true -> atoms_l st (accept_l i ns) = flat_map (acc1 i) (atoms_l st ns).
Proof. intros Hc. unfold accept_l, atoms_l. rewrite !fm_fm. apply fm_ext. intros n _. now apply accept_spec. Qed.

Lemma undel_kid_atoms f st k : kid_atoms f st (undel_kid k) = kid_atoms f st k.
Proof. destruct k; reflexivity. Qed.
Lemma undel_run_atoms st u f k : atoms st (NRun u f (map undel_kid k)) = atoms st (NRun u f k).
Proof. cbn [atoms]. rewrite fm_map. apply fm_ext. intros x _. apply undel_kid_atoms. Qed.

Theorem reject_spec i : forall n st, clean i st = true -> atoms_l st (reject_node i n) = flat_map (rej1 i) (atoms st n).
Proof.
  induction n using node_ind'; intros st Hc.
  - cbn [reject_node]. unfold atoms_l, rej1. cbn [flat_map]. rewrite app_nil_r. symmetry. apply run_spec. now apply rej_clean.
  - assert (IHl : forall st', clean i st' = true -> flat_map (fun c => atoms_l st' (reject_node i c)) cs = flat_map (fun c => flat_map (rej1 i) (atoms st' c)) cs).
    { intros st' Hc'. apply fm_ext. intros c Hin. rewrite Forall_forall in H. now apply H. }
    destruct k; cbn [reject_node atoms]; destruct (id_is i m) eqn:E.
    + unfold atoms_l. cbn [flat_map]. rewrite fm_fm. rewrite (fm_ext _ (fun _ => [])); [now rewrite fm_nil|].
      intros c _. apply kill_frame. apply rej_kills. now apply id_hit.
    + unfold atoms_l. cbn [flat_map atoms]. rewrite app_nil_r, fm_fm.
      change (flat_map (fun c => atoms_l ((KIns, m) :: st) (reject_node i c)) cs = flat_map (rej1 i) (flat_map (atoms ((KIns, m) :: st)) cs)).
      rewrite (IHl _ (clean_cons i KIns m st E Hc)), fm_fm. reflexivity.
    + (* rejected deletion: runs come back with delText -> t, other children are processed recursively *)
      unfold atoms_l. rewrite !fm_fm. apply fm_ext. intros c Hin. unfold rej1.
      rewrite (drop_frame (rej_st i) (KDel, m) st c (rej_drops i _ (id_hit KDel i m E))).
      destruct c as [u' f' k'| | | | ]; try (rewrite Forall_forall in H; exact (H _ Hin st Hc)).
      cbn [flat_map]. rewrite app_nil_r, undel_run_atoms. symmetry. apply run_spec. now apply rej_clean.
    + unfold atoms_l. cbn [flat_map atoms]. rewrite app_nil_r, fm_fm.
      change (flat_map (fun c => atoms_l ((KDel, m) :: st) (reject_node i c)) cs = flat_map (rej1 i) (flat_map (atoms ((KDel, m) :: st)) cs)).
      rewrite (IHl _ (clean_cons i KDel m st E Hc)), fm_fm. reflexivity.
  - cbn. unfold rej1. cbn. now rewrite (rej_clean i st Hc).
  - cbn. unfold rej1. cbn. now rewrite (rej_clean i st Hc).
  - cbn. unfold rej1. cbn. now rewrite (rej_clean i st Hc).
Qed.
Corollary reject_l_spec i ns st : clean i st = true -> atoms_l st (reject_l i ns) = flat_map (rej1 i) (atoms_l st ns).
Proof. intros Hc. unfold reject_l, atoms_l. rewrite !fm_fm. apply fm_ext. intros n _. now apply reject_spec. Qed.

(* ---------- isolation: what does not carry the id is untouched ---------- *)
Definition atom_stack (a : atom) : stack :=
  match a with ACh _ _ s | ASp _ _ s | ACrs _ s | ACre _ s | ACref _ _ s => s end.
Theorem accept_isolation i a : clean i (atom_stack a) = true -> acc1 i a = [a].
Proof. intros H. destruct a; simpl in *; unfold acc1; simpl; now rewrite (acc_clean i _ H). Qed.
Theorem reject_isolation i a : clean i (atom_stack a) = true -> rej1 i a = [a].
Proof. intros H. destruct a; simpl in *; unfold rej1; simpl; now rewrite (rej_clean i _ H). Qed.

(* ---------- unknown or already resolved id: nothing changes ---------- *)
Lemma fm_id_single {A} (f : A -> list A) l : (forall x, In x l -> f x = [x]) -> flat_map f l = l.
Proof. induction l; simpl; intros H; auto. rewrite H, IHl; auto. Qed.
Theorem accept_unknown i : forall n, has_id i n = false -> accept_node i n = [n].
Proof. induction n using node_ind'; intros Hn; auto. cbn [has_id] in Hn. apply orb_false_iff in Hn as [H1 H2].
  assert (E : flat_map (accept_node i) cs = cs).
  { apply fm_id_single. intros c Hin. rewrite Forall_forall in H. apply H; auto.
    destruct (has_id i c) eqn:Ec; auto. assert (existsb (has_id i) cs = true) by (apply existsb_exists; eauto). congruence. }
  destruct k; cbn [accept_node]; rewrite H1, ?E; reflexivity. Qed.
Theorem reject_unknown i : forall n, has_id i n = false -> reject_node i n = [n].
Proof. induction n using node_ind'; intros Hn; auto. cbn [has_id] in Hn. apply orb_false_iff in Hn as [H1 H2].
  assert (E : flat_map (reject_node i) cs = cs).
  { apply fm_id_single. intros c Hin. rewrite Forall_forall in H. apply H; auto.
    destruct (has_id i c) eqn:Ec; auto. assert (existsb (has_id i) cs = true) by (apply existsb_exists; eauto). congruence. }
  destruct k; cbn [reject_node]; rewrite H1, ?E; reflexivity. Qed.
Corollary accept_l_unknown i ns : has_id_l i ns = false -> accept_l i ns = ns.
Proof. intros H. apply fm_id_single. intros n Hin. apply accept_unknown. destruct (has_id i n) eqn:E; auto.
  assert (existsb (has_id i) ns = true) by (apply existsb_exists; eauto). unfold has_id_l in H. congruence. Qed.
Corollary reject_l_unknown i ns : has_id_l i ns = false -> reject_l i ns = ns.
Proof. intros H. apply fm_id_single. intros n Hin. apply reject_unknown. destruct (has_id i n) eqn:E; auto.
  assert (existsb (has_id i) ns = true) by (apply existsb_exists; eauto). unfold has_id_l in H. congruence. Qed.
(* after ACCEPT/REJECT i the id is gone: a second action on it is "already resolved" *)
Lemma existsb_fm {A B} (p : B -> bool) (f : A -> list B) l : existsb p (flat_map f l) = existsb (fun x => existsb p (f x)) l.
Proof. induction l; simpl; auto. now rewrite existsb_app, IHl. Qed.
Theorem accept_resolves i : forall n, existsb (has_id i) (accept_node i n) = false.
Proof. induction n using node_ind'; auto.
  assert (E : existsb (has_id i) (flat_map (accept_node i) cs) = false).
  { rewrite existsb_fm. destruct (existsb _ cs) eqn:Ex; auto. apply existsb_exists in Ex as (c & Hin & Hc).
    rewrite Forall_forall in H. rewrite (H c Hin) in Hc. discriminate. }
  destruct k; cbn [accept_node]; destruct (id_is i m) eqn:Em; auto; cbn [existsb has_id]; rewrite Em, E; reflexivity. Qed.

(* ---------- actions on distinct ids commute (ACCEPT/ACCEPT, ACCEPT/REJECT, REJECT/REJECT) ---------- *)
Definition gen (kd ki : wkind * mark -> bool) (st : stack) : option stack :=
  if existsb kd st then None else Some (filter (fun x => negb (ki x)) st).
Definition bind_st (g h : stack -> option stack) (st : stack) : option stack := match g st with Some s => h s | None => None end.
Lemma on_stack_comp g h a : flat_map (on_stack h) (on_stack g a) = on_stack (bind_st g h) a.
Proof. destruct a; simpl; unfold bind_st; destruct (g st); simpl; rewrite ?app_nil_r; auto. Qed.
Lemma on_stack_ext g h a : (forall s, g s = h s) -> on_stack g a = on_stack h a.
Proof. intros E. destruct a; simpl; rewrite E; reflexivity. Qed.
Lemma existsb_filter_indep {A} (p q : A -> bool) l : (forall x, p x = true -> q x = false) ->
  existsb p (filter (fun x => negb (q x)) l) = existsb p l.
Proof. intros H. induction l as [|x l IH]; simpl; auto. destruct (q x) eqn:Eq; simpl.
  - rewrite IH. destruct (p x) eqn:Ep; auto. rewrite (H x Ep) in Eq. discriminate.
  - now rewrite IH. Qed.
Lemma filter_filter_comm {A} (p q : A -> bool) l : filter p (filter q l) = filter q (filter p l).
Proof. induction l as [|x l IH]; simpl; auto. destruct (p x) eqn:Ep, (q x) eqn:Eq; simpl; rewrite ?Ep, ?Eq, IH; auto. Qed.
Lemma gen_comm kd1 ki1 kd2 ki2 st :
  (forall x, kd2 x = true -> ki1 x = false) -> (forall x, kd1 x = true -> ki2 x = false) ->
  bind_st (gen kd1 ki1) (gen kd2 ki2) st = bind_st (gen kd2 ki2) (gen kd1 ki1) st.
Proof. intros H1 H2. unfold bind_st, gen.
  destruct (existsb kd1 st) eqn:E1, (existsb kd2 st) eqn:E2; rewrite ?existsb_filter_indep, ?E1, ?E2; auto.
  f_equal. apply filter_filter_comm. Qed.
Lemma hit_disj k k' i j x : i <> j -> hit k i x = true -> hit k' j x = false.
Proof. intros Hij H. unfold hit in *. apply andb_true_iff in H as [_ H]. unfold id_is in *.
  apply str_eqb_eq in H. destruct (str_eqb (m_id (snd x)) j) eqn:E; [|apply andb_false_r].
  apply str_eqb_eq in E. congruence. Qed.
Lemma acc_is_gen i st : acc_st i st = gen (hit KDel i) (hit KIns i) st. Proof. reflexivity. Qed.
Lemma rej_is_gen i st : rej_st i st = gen (hit KIns i) (hit KDel i) st. Proof. reflexivity. Qed.

Theorem acc_acc_commute i j a : i <> j -> flat_map (acc1 i) (acc1 j a) = flat_map (acc1 j) (acc1 i a).
Proof. intros H. unfold acc1. rewrite !on_stack_comp. apply on_stack_ext. intros s.
  apply gen_comm; intros x Hx; (eapply hit_disj; [|exact Hx]; first [exact H | intros E; apply H; congruence]). Qed.
Theorem acc_rej_commute i j a : i <> j -> flat_map (acc1 i) (rej1 j a) = flat_map (rej1 j) (acc1 i a).
Proof. intros H. unfold acc1, rej1. rewrite !on_stack_comp. apply on_stack_ext. intros s.
  apply gen_comm; intros x Hx; (eapply hit_disj; [|exact Hx]; first [exact H | intros E; apply H; congruence]). Qed.
Theorem rej_rej_commute i j a : i <> j -> flat_map (rej1 i) (rej1 j a) = flat_map (rej1 j) (rej1 i a).
Proof. intros H. unfold rej1. rewrite !on_stack_comp. apply on_stack_ext. intros s.
  apply gen_comm; intros x Hx; (eapply hit_disj; [|exact Hx]; first [exact H | intros E; apply H; congruence]). Qed.
(* transported to the concrete functions, on the tape of a paragraph *)
Theorem accept_accept_commute i j ns : i <> j ->
  atoms_l [] (accept_l i (accept_l j ns)) = atoms_l [] (accept_l j (accept_l i ns)).
Proof. intros H. rewrite !accept_l_spec, !fm_fm by reflexivity. apply fm_ext. intros a _. now apply acc_acc_commute. Qed.
Theorem accept_reject_commute i j ns : i <> j ->
  atoms_l [] (accept_l i (reject_l j ns)) = atoms_l [] (reject_l j (accept_l i ns)).
Proof. intros H. rewrite accept_l_spec, reject_l_spec, reject_l_spec, accept_l_spec, !fm_fm by reflexivity.
  apply fm_ext. intros a _. now apply acc_rej_commute. Qed.
Theorem reject_reject_commute i j ns : i <> j ->
  atoms_l [] (reject_l i (reject_l j ns)) = atoms_l [] (reject_l j (reject_l i ns)).
Proof. intros H. rewrite !reject_l_spec, !fm_fm by reflexivity. apply fm_ext. intros a _. now apply rej_rej_commute. Qed.

(* ---------- counting ---------- *)
Lemma step_count reply st a : let '(_, ap, sk) := st in let '(_, ap', sk') := step_action reply st a in ap' + sk' = S (ap + sk).
Proof. destruct st as [[d ap] sk]. unfold step_action. destruct (route (a_target a)) as [[tid c1] c2].
  destruct (match a_kind a with AAccept => _ | AReject => _ | AReply => _ end) as [d' ok]. destruct ok; lia. Qed.
Theorem actions_count reply d acts : let '(_, ap, sk) := apply_actions reply d acts in ap + sk = length acts.
Proof. unfold apply_actions.
  assert (G : forall acts st, let '(_, ap, sk) := st in let '(_, ap', sk') := fold_left (step_action reply) acts st in ap' + sk' = ap + sk + length acts).
  { induction acts0 as [|a acts0 IH]; intros [[d0 ap] sk]; cbn [fold_left length]; [lia|].
    pose proof (step_count reply (d0, ap, sk) a) as Hs. cbn beta iota in Hs.
    destruct (step_action reply (d0, ap, sk) a) as [[d1 ap1] sk1] eqn:E.
    specialize (IH (d1, ap1, sk1)). cbn beta iota in IH. destruct (fold_left _ acts0 (d1, ap1, sk1)) as [[? ?] ?]. lia. }
  specialize (G acts (d, 0, 0)). cbn beta iota in G. destruct (fold_left _ acts (d, 0, 0)) as [[? ap] sk]. lia. Qed.

(* ---------- accepting every id = accept-all = the accepted view; no revision mark remains ---------- *)
Fixpoint acc_many (ids : list str) : stack -> option stack :=
  match ids with [] => Some | i :: r => bind_st (acc_st i) (acc_many r) end.
Definition accept_ids (ids : list str) (ns : list node) : list node := fold_left (fun d i => accept_l i d) ids ns.
Theorem accept_ids_spec ids : forall ns, atoms_l [] (accept_ids ids ns) = flat_map (on_stack (acc_many ids)) (atoms_l [] ns).
Proof. induction ids as [|i r IH]; intros ns; cbn [accept_ids fold_left acc_many].
  - symmetry. apply fm_id_single. intros a _. destruct a; reflexivity.
  - unfold accept_ids in IH. rewrite IH, accept_l_spec by reflexivity. rewrite fm_fm. apply fm_ext. intros a _.
    unfold acc1. apply on_stack_comp. Qed.
Definition kd_in (ids : list str) (km : wkind * mark) : bool := is_k KDel km && mem_str (m_id (snd km)) ids.
Definition ki_in (ids : list str) (km : wkind * mark) : bool := is_k KIns km && mem_str (m_id (snd km)) ids.
Lemma kinds_disj km : is_k KDel km = true -> is_k KIns km = false.
Proof. unfold is_k. destruct (fst km); auto; discriminate. Qed.
Lemma filter_and {A} (p q : A -> bool) l : filter p (filter q l) = filter (fun x => q x && p x) l.
Proof. induction l as [|x l IH]; simpl; auto. destruct (q x); simpl; [destruct (p x); now rewrite IH|exact IH]. Qed.
Lemma existsb_or {A} (p q : A -> bool) l : existsb (fun x => p x || q x) l = existsb p l || existsb q l.
Proof. induction l as [|x l IH]; simpl; auto. rewrite IH. destruct (p x), (q x), (existsb p l), (existsb q l); reflexivity. Qed.
Lemma existsb_ext' {A} (p q : A -> bool) l : (forall x, p x = q x) -> existsb p l = existsb q l.
Proof. intros H. induction l as [|x l IH]; simpl; auto. now rewrite H, IH. Qed.
Lemma existsb_ext_in {A} (p q : A -> bool) l : (forall x, In x l -> p x = q x) -> existsb p l = existsb q l.
Proof. intros H. induction l as [|x l IH]; simpl; auto. rewrite H by (left; reflexivity). rewrite IH; auto. intros y Hy. apply H. right. exact Hy. Qed.
Lemma acc_many_char ids : forall st, acc_many ids st = gen (kd_in ids) (ki_in ids) st.
Proof. induction ids as [|i r IH]; intros st; cbn [acc_many].
  - unfold gen.
    assert (E1 : existsb (kd_in []) st = false).
    { induction st as [|x st IHs]; simpl; auto. unfold kd_in at 1. unfold mem_str. cbn [existsb]. rewrite andb_false_r. cbn [orb]. exact IHs. }
    assert (E2 : filter (fun x => negb (ki_in [] x)) st = st).
    { clear E1. induction st as [|x st IHs]; simpl; auto. unfold ki_in at 1. unfold mem_str. cbn [existsb]. rewrite andb_false_r. cbn [negb]. f_equal. exact IHs. }
    now rewrite E1, E2.
  - unfold bind_st. rewrite acc_is_gen. unfold gen at 1.
    assert (Ekd : existsb (kd_in (i :: r)) st = existsb (hit KDel i) st || existsb (kd_in r) st).
    { rewrite <- existsb_or. apply existsb_ext'. intros x. unfold kd_in, hit, id_is, mem_str. cbn [existsb].
      now rewrite andb_orb_distrib_r. }
    destruct (existsb (hit KDel i) st) eqn:E1.
    + unfold gen. now rewrite Ekd.
    + rewrite IH. unfold gen. rewrite Ekd. cbn [orb].
      rewrite (existsb_filter_indep (kd_in r) (hit KIns i)).
      2:{ intros x Hx. unfold kd_in in Hx. apply andb_true_iff in Hx as [Hx _]. unfold hit. now rewrite (kinds_disj _ Hx). }
      destruct (existsb (kd_in r) st); auto. f_equal. rewrite filter_and. apply filter_ext. intros x.
      unfold ki_in, hit, id_is, mem_str. cbn [existsb]. destruct (is_k KIns x), (str_eqb (m_id (snd x)) i); simpl; auto. Qed.

Definition is_del (km : wkind * mark) : bool := is_k KDel km.
Definition covered (ids : list str) (st : stack) : bool := forallb (fun km => mem_str (m_id (snd km)) ids) st.
Lemma acc_many_covered ids st : covered ids st = true ->
  acc_many ids st = if existsb is_del st then None else Some [].
Proof. intros H. rewrite acc_many_char. unfold gen.
  assert (E1 : existsb (kd_in ids) st = existsb is_del st).
  { apply existsb_ext_in. intros x Hx. unfold covered in H. rewrite forallb_forall in H. unfold kd_in, is_del. now rewrite (H x Hx), andb_true_r. }
  rewrite E1. destruct (existsb is_del st) eqn:E; auto. f_equal.
  induction st as [|x st IH]; cbn [filter]; auto. cbn [covered forallb existsb] in *.
  apply andb_true_iff in H as [H1 H2]. apply orb_false_iff in E as [E2 E3].
  assert (Ex : ki_in ids x = true).
  { unfold ki_in. rewrite H1, andb_true_r. unfold is_del, is_k in *. destruct (fst x); auto; discriminate. }
  rewrite Ex. cbn [negb]. apply orb_false_iff in E1 as [_ E1]. apply IH; auto. Qed.

(* the accepted view of a tape: deleted text gone, every mark gone, comment anchors gone *)
Definition acc_view (a : atom) : list atom :=
  if existsb is_del (atom_stack a) then []
  else match a with ACh c f _ => [ACh c f []] | ASp t f _ => [ASp t f []] | _ => [] end.
Lemma base_has_del km st a : is_del km = true -> existsb is_del (atom_stack (rebase (km :: st) a)) = true.
Proof. intros H. destruct a; simpl; rewrite existsb_app; simpl; rewrite H; now rewrite orb_true_r. Qed.
Theorem accept_all_spec : forall n st, existsb is_del st = false -> atoms_l [] (accept_all_node n) = flat_map acc_view (atoms st n).
Proof.
  induction n using node_ind'; intros st Hst.
  - cbn [accept_all_node atoms]. unfold atoms_l. cbn [flat_map atoms]. rewrite app_nil_r, fm_fm.
    induction k as [|x ks IHk]; cbn [filter flat_map]; auto.
    destruct x; cbn [no_ref flat_map kid_atoms]; rewrite ?IHk;
      try (unfold acc_view; simpl; rewrite ?Hst; reflexivity).
    + f_equal. induction s as [|c s IHs]; simpl; auto. unfold acc_view at 1. simpl. rewrite Hst. simpl. now rewrite IHs.
    + f_equal. induction s as [|c s IHs]; simpl; auto. unfold acc_view at 1. simpl. rewrite Hst. simpl. now rewrite IHs.
  - destruct k; cbn [accept_all_node atoms].
    + unfold atoms_l. rewrite !fm_fm. apply fm_ext. intros c Hin. rewrite Forall_forall in H. apply (H c Hin ((KIns, m) :: st)). simpl. exact Hst.
    + unfold atoms_l. cbn [flat_map]. rewrite fm_fm. rewrite (fm_ext _ (fun _ => [])); [now rewrite fm_nil|].
      intros c _. rewrite (atoms_base c), fm_map. rewrite (fm_ext _ (fun _ => [])); [apply fm_nil|]. intros a _.
      unfold acc_view. now rewrite base_has_del.
  - cbn. unfold acc_view. simpl. now rewrite Hst.
  - cbn. unfold acc_view. simpl. now rewrite Hst.
  - cbn. unfold acc_view. simpl. now rewrite Hst.
Qed.
Definition txt_atom (a : atom) : str := match a with ACh c _ _ => [c] | _ => [] end.
Definition txt (l : list atom) : str := flat_map txt_atom l.
Definition all_covered (ids : list str) (l : list atom) : Prop := Forall (fun a => covered ids (atom_stack a) = true) l.
Theorem accept_every_id ids ns : all_covered ids (atoms_l [] ns) ->
  txt (atoms_l [] (accept_ids ids ns)) = txt (atoms_l [] (flat_map accept_all_node ns))
  /\ Forall (fun a => atom_stack a = []) (atoms_l [] (accept_ids ids ns)).
Proof. intros Hc. unfold all_covered in Hc. rewrite Forall_forall in Hc. rewrite accept_ids_spec. split.
  - assert (E : atoms_l [] (flat_map accept_all_node ns) = flat_map acc_view (atoms_l [] ns)).
    { unfold atoms_l. rewrite !fm_fm. apply fm_ext. intros n _. now apply accept_all_spec. }
    rewrite E. unfold txt. rewrite !fm_fm. apply fm_ext. intros a Ha.
    specialize (Hc a Ha).
    destruct a; simpl in *; rewrite (acc_many_covered _ _ Hc); unfold acc_view; simpl; destruct (existsb is_del st); reflexivity.
  - apply Forall_forall. intros b Hb. apply in_flat_map in Hb as (a & Ha & Hb).
    specialize (Hc a Ha).
    destruct a; simpl in *; rewrite (acc_many_covered _ _ Hc) in Hb; destruct (existsb is_del st); simpl in Hb; try contradiction;
      destruct Hb as [<-|[]]; reflexivity. Qed.
Print Assumptions accept_every_id.
