(* C15, the exact stages of the two matchers: for an exact, unique, marker-free target that stands on live document text, the text-side
   matcher of the preview (markup.py) and the document-side matcher of the commit (mapper.py, on the map of the same view) take the
   same range. *)
From Coq Require Import List NArith Bool Arith Lia.
Import ListNotations.
From Adeu Require Import Str Doc Project Markup Engine TrimProofs MatchProofs.

Lemma count_from_absent c m' : forall fuel s, ~ In c s -> count_from fuel (c :: m') s = 0.
Proof. induction fuel as [|f IH]; intros s Hn; [reflexivity|]. destruct s as [|y s']; [reflexivity|].
  cbn [count_from]. destruct (prefixb (c :: m') (y :: s')) eqn:E.
  - cbn [prefixb] in E. apply andb_prop in E as [E _]. apply N.eqb_eq in E. subst y. exfalso. apply Hn. now left.
  - apply IH. intros Hin. apply Hn. now right. Qed.
Lemma count_absent c m' s : ~ In c s -> count (c :: m') s = 0.
Proof. intros H. unfold count. now apply count_from_absent. Qed.
Lemma expand_absent text c m' s e : ~ In c (slice text s e) -> expand text (c :: m') (s, e) = (s, e).
Proof. intros H. unfold expand. rewrite (count_absent c m' _ H). reflexivity. Qed.
Lemma safe_bounds_plain text s e : ~ In c_star (slice text s e) -> ~ In c_us (slice text s e) -> safe_bounds text s e = (s, e).
Proof. intros Hs Hu. unfold safe_bounds, expand_round, m_bb, m_uu, m_u, m_b.
  rewrite !(expand_absent text c_star _ s e Hs), !(expand_absent text c_us _ s e Hu), !(expand_absent text c_star _ s e Hs).
  rewrite !(expand_absent text c_us _ s e Hu), !(expand_absent text c_star _ s e Hs). reflexivity. Qed.

Lemma find_from_sound n : forall s i j, find_from n s i = Some j -> i <= j /\ j <= i + length s /\ prefixb n (skipn (j - i) s) = true.
Proof. induction s as [|c s IH]; intros i j H; cbn [find_from] in H.
  - destruct (prefixb n []) eqn:E; [|discriminate]. inversion H; subst. rewrite Nat.sub_diag. cbn [skipn length]. repeat split; try lia. exact E.
  - destruct (prefixb n (c :: s)) eqn:E.
    + inversion H; subst. rewrite Nat.sub_diag. cbn [skipn length]. repeat split; try lia. exact E.
    + apply IH in H as (H1 & H2 & H3). cbn [length]. repeat split; try lia. replace (j - i) with (S (j - S i)) by lia. exact H3. Qed.

Theorem exact_unique_same_place sp t i fz :
  t <> [] -> ~ In c_star t -> ~ In c_us t ->
  Markup.find t (map_text sp) = Some i ->
  (forall k, k <= length (map_text sp) -> prefixb t (skipn k (map_text sp)) = true -> k = i) ->
  touches_real sp i (i + length t) = true ->
  find_on sp t = Some i /\ Markup.find_match (map_text sp) t fz = Some (i, i + length t).
Proof. intros Hne Hs Hu Hf Huniq Ht.
  unfold Markup.find in Hf. pose proof (find_from_sound _ _ _ _ Hf) as (_ & Hb & Hp). rewrite Nat.sub_0_r in Hp. cbn [Nat.add] in Hb. split.
  - destruct (find_on sp t) as [j|] eqn:E.
    + unfold find_on in E. pose proof (find_real_bound _ _ _ _ _ E) as Hj. apply find_real_sound in E as (_ & E2 & _).
      rewrite Nat.sub_0_r in E2. cbn [Nat.add] in Hj. now rewrite (Huniq j Hj E2).
    + pose proof (find_on_none sp t i E Hb Hp) as Hc. rewrite Hc in Ht. discriminate.
  - unfold Markup.find_match. destruct t as [|c t']; [contradiction|]. unfold Markup.find. rewrite Hf.
    assert (Hsl : slice (map_text sp) i (i + length (c :: t')) = c :: t').
    { unfold slice. replace (i + length (c :: t') - i) with (length (c :: t')) by lia. now apply prefixb_firstn. }
    rewrite safe_bounds_plain; [reflexivity| |]; now rewrite Hsl. Qed.
