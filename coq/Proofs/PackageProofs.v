From Coq Require Import List NArith Bool Arith Lia.
Import ListNotations.
From Adeu Require Import Str ListX Package.

Definition prefix_of {A} (a b : list A) : Prop := exists r, b = a ++ r.
Lemma prefix_refl {A} (a : list A) : prefix_of a a. Proof. exists []. now rewrite app_nil_r. Qed.
Lemma prefix_trans {A} (a b c : list A) : prefix_of a b -> prefix_of b c -> prefix_of a c.
Proof. intros [r ->] [s ->]. exists (r ++ s). now rewrite app_assoc. Qed.
(* frame: ensuring a part never removes, renames or reorders an existing part or relationship; whatever is added has the
   requested content type / relationship type *)
Definition Frame (c : N) (p q : pkg) : Prop :=
  (exists np, parts q = parts p ++ np /\ Forall (fun x => pt_ctype x = c) np) /\ prefix_of (rels p) (rels q).
Lemma ensure_frame c r base p : Frame c p (ensure c r base p).
Proof. unfold ensure, Frame. destruct (find_ctype c p) as [x|] eqn:E.
  - destruct (related (pt_name x) p); cbn [parts rels].
    + split; [exists []; split; [now rewrite app_nil_r|constructor]|apply prefix_refl].
    + split; [exists []; split; [now rewrite app_nil_r|constructor]|eexists; reflexivity].
  - cbn [parts rels]. split; [eexists; split; [reflexivity|repeat constructor]|eexists; reflexivity]. Qed.
(* no duplicate: when a part with the content type exists, none is created *)
Lemma ensure_no_dup c r base p x : find_ctype c p = Some x -> parts (ensure c r base p) = parts p.
Proof. intros E. unfold ensure. rewrite E. destruct (related (pt_name x) p); reflexivity. Qed.
(* afterwards a part with the content type exists and the main document is related to it *)
Lemma find_app_some {A} (f : A -> bool) l l' x : find f l = Some x -> find f (l ++ l') = Some x.
Proof. induction l; simpl; [discriminate|]. destruct (f a); auto. Qed.
Lemma find_snoc_none {A} (f : A -> bool) l x : find f l = None -> f x = true -> find f (l ++ [x]) = Some x.
Proof. induction l as [|y l IH]; cbn; intros H Hx; [now rewrite Hx|]. destruct (f y); [discriminate|auto]. Qed.
Lemma related_snoc rs t n : existsb (fun r => str_eqb (r_target r) n) (rs ++ [{| r_type := t; r_target := n |}]) = true.
Proof. rewrite existsb_app. cbn [existsb r_target]. rewrite (proj2 (str_eqb_eq n n) eq_refl). cbn. apply orb_true_r. Qed.
Lemma ensure_present c r base p : exists x, find_ctype c (ensure c r base p) = Some x /\ related (pt_name x) (ensure c r base p) = true.
Proof. unfold ensure. destruct (find_ctype c p) as [x|] eqn:E.
  - exists x. destruct (related (pt_name x) p) eqn:R; [split; auto|]. unfold find_ctype, related in *. cbn [parts rels]. split; auto. apply related_snoc.
  - set (n := next_name _ 1 base p). exists {| pt_name := n; pt_ctype := c |}. unfold find_ctype, related in *. cbn [parts rels pt_name]. split.
    + apply find_snoc_none; auto. cbn. apply N.eqb_refl.
    + apply related_snoc. Qed.
(* the four ensures together: everything that was there stays, in order; only comment-family parts / relationships are added *)
Theorem ensure_comment_parts_frame p :
  (exists np, parts (ensure_comment_parts p) = parts p ++ np /\ Forall (fun x => is_comment_family (pt_ctype x) = true) np)
  /\ prefix_of (rels p) (rels (ensure_comment_parts p)).
Proof. unfold ensure_comment_parts.
  set (p1 := ensure 1 1 b_comments p). set (p2 := ensure 2 2 b_extended p1). set (p3 := ensure 3 3 b_ids p2). set (p4 := ensure 4 4 b_extensible p3).
  destruct (ensure_frame 1 1 b_comments p) as [(n1 & E1 & F1) R1]. fold p1 in E1, R1.
  destruct (ensure_frame 2 2 b_extended p1) as [(n2 & E2 & F2) R2]. fold p2 in E2, R2.
  destruct (ensure_frame 3 3 b_ids p2) as [(n3 & E3 & F3) R3]. fold p3 in E3, R3.
  destruct (ensure_frame 4 4 b_extensible p3) as [(n4 & E4 & F4) R4]. fold p4 in E4, R4.
  split.
  - exists (n1 ++ n2 ++ n3 ++ n4). split; [rewrite E4, E3, E2, E1; now rewrite <- !app_assoc|].
    repeat (apply Forall_app; split); eapply Forall_impl; try eassumption; intros x ->; reflexivity.
  - eapply prefix_trans; [exact R1|]. eapply prefix_trans; [exact R2|]. eapply prefix_trans; [exact R3|exact R4]. Qed.
Print Assumptions ensure_comment_parts_frame.
