From Coq Require Import List NArith Bool Arith Lia.
Import ListNotations.
From Adeu Require Import Str.

Inductive rchild := CT (s : str) | CDelT (s : str) | CTab | CBr | CRef (id : N) | COther (tok : N).
Definition rpr := option (list (N * N)).
Record mark := { m_id : N; m_author : N; m_date : N }.
Inductive wkind := KIns | KDel.
Inductive node :=
| NRun (uid : nat) (f : rpr) (kids : list rchild)
| NWrap (uid : nat) (k : wkind) (m : mark) (cs : list node)
| NCrs (id : N) | NCre (id : N) | NOther (tok : N).

(* nested induction principle *)
Section NodeInd.
  Variable P : node -> Prop.
  Hypothesis Hrun : forall u f k, P (NRun u f k).
  Hypothesis Hwrap : forall u k m cs, Forall P cs -> P (NWrap u k m cs).
  Hypothesis Hcrs : forall i, P (NCrs i).
  Hypothesis Hcre : forall i, P (NCre i).
  Hypothesis Hoth : forall t, P (NOther t).
  Fixpoint node_ind' (n : node) : P n :=
    match n with
    | NRun u f k => Hrun u f k
    | NWrap u k m cs => Hwrap u k m cs ((fix go (l : list node) : Forall P l :=
                          match l with [] => Forall_nil _ | x :: l' => Forall_cons _ (node_ind' x) (go l') end) cs)
    | NCrs i => Hcrs i | NCre i => Hcre i | NOther t => Hoth t
    end.
End NodeInd.

(* atoms: status = stack of enclosing marks (innermost first) *)
Inductive atom :=
| ACh (c : char) (f : rpr) (st : list (wkind * mark))
| ASp (tok : N) (f : rpr) (st : list (wkind * mark))
| ACrs (id : N) | ACre (id : N)
| ACref (id : N) (f : rpr) (st : list (wkind * mark)).      (* w:commentReference inside a run *)
Definition kid_atoms (f : rpr) (st : list (wkind * mark)) (k : rchild) : list atom :=
  match k with
  | CT s | CDelT s => map (fun c => ACh c f st) s
  | CTab => [ACh 9%N f st] | CBr => [ACh 10%N f st]
  | CRef i => [ACref i f st] | COther t => [ASp t f st]
  end.
Fixpoint atoms (st : list (wkind * mark)) (n : node) : list atom :=
  match n with
  | NRun _ f kids => flat_map (kid_atoms f st) kids
  | NWrap _ k m cs => flat_map (atoms ((k, m) :: st)) cs
  | NCrs i => [ACrs i] | NCre i => [ACre i]
  | NOther t => [ASp t None st]
  end.
Definition atoms_l st (ns : list node) := flat_map (atoms st) ns.

(* uid-addressed update: f n = Some ns replaces n by ns (no recursion into ns), None recurses *)
Fixpoint upd (f : node -> option (list node)) (n : node) : list node :=
  match f n with
  | Some ns => ns
  | None => match n with
            | NWrap u k m cs => [NWrap u k m (flat_map (upd f) cs)]
            | _ => [n]
            end
  end.
Definition upd_l f (ns : list node) := flat_map (upd f) ns.

(* reject the session: S = marks created by the session (and C = its comment ids) *)
Section Rej.
  Variable S : mark -> bool.
  Variable C : N -> bool.
  Definition strip (st : list (wkind * mark)) := filter (fun km => negb (S (snd km))) st.
  Definition dead (st : list (wkind * mark)) := existsb (fun km => match fst km with KIns => S (snd km) | KDel => false end) st.
  Definition rej_atom (a : atom) : list atom :=
    match a with
    | ACh c f st => if dead st then [] else [ACh c f (strip st)]
    | ASp t f st => if dead st then [] else [ASp t f (strip st)]
    | ACrs i => if C i then [] else [a]
    | ACre i => if C i then [] else [a]
    | ACref i f st => if C i || dead st then [] else [ACref i f (strip st)]
    end.
  Definition rej (l : list atom) := flat_map rej_atom l.
  Lemma rej_app a b : rej (a ++ b) = rej a ++ rej b.
  Proof. unfold rej. apply flat_map_app. Qed.

  (* THE generic lemma: a local replacement that is rej-neutral in every context is rej-neutral globally *)
  Lemma upd_rej (f : node -> option (list node)) :
    (forall n ns st, f n = Some ns -> rej (atoms_l st ns) = rej (atoms st n)) ->
    forall n st, rej (atoms_l st (upd f n)) = rej (atoms st n).
  Proof.
    intros Hloc. induction n using node_ind'; intros st; cbn [upd];
      try (match goal with |- context[f ?x] => destruct (f x) eqn:E end;
           [exact (Hloc _ _ st E)|unfold atoms_l; cbn [flat_map]; now rewrite app_nil_r]).
    match goal with |- context[f ?x] => destruct (f x) eqn:E end; [exact (Hloc _ _ st E)|].
    unfold atoms_l. cbn [flat_map atoms]. rewrite app_nil_r. clear E.
    match goal with H : Forall _ _ |- _ => induction H as [|c cs' Hc Hcs IH] end; cbn [flat_map]; auto.
    rewrite flat_map_app, !rej_app. rewrite IH. f_equal. apply Hc.
  Qed.
  Corollary upd_l_rej f ns st :
    (forall n ns st, f n = Some ns -> rej (atoms_l st ns) = rej (atoms st n)) ->
    rej (atoms_l st (upd_l f ns)) = rej (atoms_l st ns).
  Proof. intros H. unfold upd_l, atoms_l. induction ns as [|n ns IH]; simpl; auto.
    rewrite flat_map_app, !rej_app, IH. f_equal. now apply upd_rej. Qed.
End Rej.

(* ---- three engine primitives, each discharged by the local condition of upd_rej ---- *)
Definition is_run (uid : nat) (n : node) : bool := match n with NRun u _ _ => Nat.eqb u uid | _ => false end.
Definition has_uid (uid : nat) (n : node) : bool :=
  match n with NRun u _ _ | NWrap u _ _ _ => Nat.eqb u uid | _ => false end.
Definition to_del (k : rchild) : rchild := match k with CT s => CDelT s | _ => k end.
Definition wrap_del (uid du : nat) (m : mark) (n : node) : option (list node) :=
  match n with
  | NRun u f kids => if Nat.eqb u uid then Some [NWrap du KDel m [NRun u f (map to_del kids)]] else None
  | _ => None end.
Definition insert_after (uid : nat) (new : node) (n : node) : option (list node) :=
  if has_uid uid n then Some [n; new] else None.
Definition split_plain (uid nu k : nat) (n : node) : option (list node) :=
  match n with
  | NRun u f [CT s] => if Nat.eqb u uid then Some [NRun u f [CT (firstn k s)]; NRun nu f [CT (skipn k s)]] else None
  | _ => None end.

Section Prims.
  Variable S : mark -> bool.
  Variable C : N -> bool.
  Notation rej := (rej S C).

  Lemma kid_to_del f st k : kid_atoms f st (to_del k) = kid_atoms f st k.
  Proof. destruct k; reflexivity. Qed.
  Lemma rej_kid_del f st m k : S m = true ->
    rej (kid_atoms f ((KDel, m) :: st) k) = rej (kid_atoms f st k).
  Proof. intros Hm. assert (E : forall a b, rej_atom S C (match a with ACh c f _ => ACh c f ((KDel,m)::b) | ASp t f _ => ASp t f ((KDel,m)::b) | ACref i f _ => ACref i f ((KDel,m)::b) | x => x end)
                                     = rej_atom S C (match a with ACh c f _ => ACh c f b | ASp t f _ => ASp t f b | ACref i f _ => ACref i f b | x => x end)).
    { intros [c f1 s1|t f1 s1|i|i|i f1 s1] b; simpl; auto; unfold dead, strip; simpl; rewrite Hm; reflexivity. }
    destruct k; simpl; unfold Tree.rej; simpl; try (apply (E (ACh 0%N f []) st)); try (apply (E (ASp 0%N f []) st));
    try (induction s as [|c s IH]; simpl; auto; rewrite IH; f_equal; apply (E (ACh c f []) st)).
    - rewrite !app_nil_r. apply (E (ACh 9%N f []) st).
    - rewrite !app_nil_r. apply (E (ACh 10%N f []) st).
    - rewrite !app_nil_r. apply (E (ACref id f []) st).
    - rewrite !app_nil_r. apply (E (ASp tok f []) st).
  Qed.

  Theorem wrap_del_rej uid du m ns st : S m = true ->
    rej (atoms_l st (upd_l (wrap_del uid du m) ns)) = rej (atoms_l st ns).
  Proof. intros Hm. apply upd_l_rej. intros n ns' st' H.
    destruct n; simpl in H; try discriminate. destruct (Nat.eqb uid0 uid); [|discriminate]. inversion H; subst; clear H.
    unfold atoms_l. simpl. rewrite app_nil_r, app_nil_r.
    induction kids as [|k kids IH]; simpl; auto. rewrite !rej_app, IH. f_equal.
    rewrite kid_to_del. now apply rej_kid_del. Qed.

End Prims.
Print Assumptions wrap_del_rej.
