From Coq Require Import List NArith Bool Arith Lia.
Import ListNotations.
From Adeu Require Import Str Doc.

Section Rej.
  Variable S : mark -> bool.
  Variable C : str -> bool.
  Notation rej := (rej S C).
  Lemma rej_app a b : rej (a ++ b) = rej a ++ rej b.
  Proof. unfold Doc.rej. apply flat_map_app. Qed.

  (* THE generic lemma: a local replacement that is rej-neutral in every context is rej-neutral globally *)
  Lemma upd_rej (f : node -> option (list node)) :
    (forall n ns st, f n = Some ns -> rej (atoms_l st ns) = rej (atoms st n)) ->
    forall n st, rej (atoms_l st (upd f n)) = rej (atoms st n).
  Proof.
    intros Hloc. induction n using node_ind'; intros st; cbn [upd];
      try (match goal with |- context[f ?x] => destruct (f x) eqn:E end;
           [exact (Hloc _ _ st E)|unfold atoms_l; cbn [flat_map]; now rewrite app_nil_r]).
    match goal with |- context[f ?x] => destruct (f x) eqn:E end; [exact (Hloc _ _ st E)|].
    unfold atoms_l. cbn [flat_map atoms]. rewrite app_nil_r. clear E.
    match goal with H : Forall _ _ |- _ => induction H as [|c cs' Hc Hcs IH] end; cbn [flat_map]; auto.
    rewrite flat_map_app, !rej_app. rewrite IH. f_equal. apply Hc.
  Qed.
  Corollary upd_l_rej f ns st :
    (forall n ns st, f n = Some ns -> rej (atoms_l st ns) = rej (atoms st n)) ->
    rej (atoms_l st (upd_l f ns)) = rej (atoms_l st ns).
  Proof. intros H. unfold upd_l, atoms_l. induction ns as [|n ns IH]; simpl; auto.
    rewrite flat_map_app, !rej_app, IH. f_equal. now apply upd_rej. Qed.
End Rej.

Section Prims.
  Variable S : mark -> bool.
  Variable C : str -> bool.
  Notation rej := (rej S C).

  Lemma kid_to_del f st k : kid_atoms f st (to_del k) = kid_atoms f st k.
  Proof. destruct k; reflexivity. Qed.
  Lemma rej_kid_del f st m k : S m = true ->
    rej (kid_atoms f ((KDel, m) :: st) k) = rej (kid_atoms f st k).
  Proof. intros Hm. assert (E : forall a b, Doc.rej_atom S C (match a with ACh c f _ => ACh c f ((KDel,m)::b) | ASp t f _ => ASp t f ((KDel,m)::b) | ACref i f _ => ACref i f ((KDel,m)::b) | x => x end)
                                     = Doc.rej_atom S C (match a with ACh c f _ => ACh c f b | ASp t f _ => ASp t f b | ACref i f _ => ACref i f b | x => x end)).
    { intros [c f1 s1|t f1 s1|i s1|i s1|i f1 s1] b; simpl; auto; unfold dead, strip; simpl; rewrite Hm; reflexivity. }
    destruct k as [s|s| | | |i|t]; simpl; unfold Doc.rej; simpl.
    - induction s as [|c s IH]; simpl; auto. rewrite IH. f_equal. apply (E (ACh c f []) st).
    - induction s as [|c s IH]; simpl; auto. rewrite IH. f_equal. apply (E (ACh c f []) st).
    - rewrite !app_nil_r. apply (E (ACh 9%N f []) st).
    - rewrite !app_nil_r. apply (E (ACh 10%N f []) st).
    - rewrite !app_nil_r. apply (E (ACh 10%N f []) st).
    - rewrite !app_nil_r. apply (E (ACref i f []) st).
    - rewrite !app_nil_r. apply (E (ASp t f []) st).
  Qed.

  Theorem wrap_del_rej uid du m ns st : S m = true ->
    rej (atoms_l st (upd_l (wrap_del uid du m) ns)) = rej (atoms_l st ns).
  Proof. intros Hm. apply upd_l_rej. intros n ns' st' H.
    destruct n; simpl in H; try discriminate. destruct (Nat.eqb uid0 uid); [|discriminate]. inversion H; subst; clear H.
    unfold atoms_l. simpl. rewrite app_nil_r, app_nil_r.
    induction kids as [|k kids IH]; simpl; auto. rewrite !rej_app, IH. f_equal.
    rewrite kid_to_del. now apply rej_kid_del. Qed.

End Prims.
Print Assumptions wrap_del_rej.
