(* Paragraph insertion at block level (track_insert's new paragraphs): pruning the paragraphs a session created. *)
From Coq Require Import List NArith Bool Arith Lia.
Import ListNotations.
From Adeu Require Import Str ListX Doc Norm Prims ParaMachine Project DocOps Engine DocProofs.

Lemma filter_flat_map {A B} (p : B -> bool) (f : A -> list B) l : filter p (flat_map f l) = flat_map (fun x => filter p (f x)) l.
Proof. induction l as [|x l IH]; simpl; auto. now rewrite filter_app, IH. Qed.
Lemma flat_map_flat_map {A B C} (f : B -> list C) (g : A -> list B) l : flat_map f (flat_map g l) = flat_map (fun x => flat_map f (g x)) l.
Proof. induction l as [|x l IH]; simpl; auto. now rewrite flat_map_app, IH. Qed.
Lemma flat_map_single {A} (l : list A) : flat_map (fun x => [x]) l = l.
Proof. induction l as [|x l IH]; simpl; congruence. Qed.
Lemma Forall_fm {A B} (P : B -> Prop) (f : A -> list B) l : Forall P (flat_map f l) -> forall x, In x l -> Forall P (f x).
Proof. intros H x Hx. apply Forall_forall. intros y Hy. rewrite Forall_forall in H. apply H. apply in_flat_map. eauto. Qed.

Section Prune.
Variable kid : nat -> bool.          (* which paragraph identities are kept *)
Definition keepP (p : para) : bool := kid (p_id p).
Fixpoint prune_block (b : block) : list block :=
  match b with
  | BPara p => if keepP p then [b] else []
  | BTbl t rows => [BTbl t (map (fun r => map (fun c => (fst c, flat_map prune_block (snd c))) r) rows)]
  end.
Definition prune_story (s : story) : story := {| s_kind := s_kind s; s_blocks := flat_map prune_block (s_blocks s) |}.
Definition prune (d : doc) : doc := {| d_stories := map prune_story (d_stories d); d_comments := d_comments d; d_next_uid := d_next_uid d |}.

Lemma block_paras_prune : forall b, flat_map block_paras (prune_block b) = filter keepP (block_paras b).
Proof. induction b using block_ind'; cbn [prune_block block_paras].
  - cbn [filter]. destruct (keepP p); reflexivity.
  - cbn [flat_map block_paras]. rewrite app_nil_r. rewrite fm_map', filter_flat_map. apply fm_ext_in. intros r Hr.
    rewrite Forall_forall in H. specialize (H r Hr).
    rewrite fm_map', filter_flat_map. apply fm_ext_in. intros c Hc. rewrite Forall_forall in H. specialize (H c Hc). cbn [snd].
    rewrite flat_map_flat_map, filter_flat_map. apply fm_ext_in. intros b Hb. rewrite Forall_forall in H. exact (H b Hb). Qed.
Theorem doc_paras_prune d : doc_paras (prune d) = filter keepP (doc_paras d).
Proof. unfold doc_paras, prune. cbn [d_stories]. rewrite fm_map', filter_flat_map. apply fm_ext_in. intros s _.
  unfold prune_story. cbn [s_blocks]. rewrite flat_map_flat_map, filter_flat_map. apply fm_ext_in. intros b _. apply block_paras_prune. Qed.

Lemma prune_map_block f : (forall p, p_id (f p) = p_id p) -> forall b, prune_block (map_block f b) = map (map_block f) (prune_block b).
Proof. intros Hf. induction b using block_ind'; cbn [map_block prune_block].
  - unfold keepP. rewrite Hf. destruct (kid (p_id p)); reflexivity.
  - cbn [map map_block]. f_equal. f_equal. rewrite !map_map. apply map_ext_in. intros r Hr. rewrite Forall_forall in H. specialize (H r Hr).
    rewrite !map_map. apply map_ext_in. intros c Hc. rewrite Forall_forall in H. specialize (H c Hc). cbn [fst snd]. f_equal.
    rewrite fm_map', map_fm. apply fm_ext_in. intros b Hb. rewrite Forall_forall in H. exact (H b Hb). Qed.
Theorem prune_map_doc f d : (forall p, p_id (f p) = p_id p) -> prune (map_doc f d) = map_doc f (prune d).
Proof. intros Hf. unfold prune, map_doc. cbn [d_stories d_comments d_next_uid]. f_equal. rewrite !map_map. apply map_ext. intros s.
  unfold prune_story, map_story. cbn [s_kind s_blocks]. f_equal. rewrite fm_map', map_fm. apply fm_ext_in. intros b _. now apply prune_map_block. Qed.

(* paragraphs that are not kept can be inserted anywhere: the pruned document does not see them *)
Lemma prune_insert_at p : keepP p = false -> forall i l, flat_map prune_block (insert_at i (BPara p) l) = flat_map prune_block l.
Proof. intros Hp. induction i as [|i IH]; intros l; destruct l as [|y r]; cbn [insert_at flat_map prune_block]; rewrite ?Hp; auto.
  now rewrite IH. Qed.
Lemma prune_place_here pid news : Forall (fun ip => keepP (snd ip) = false) news ->
  forall bs, flat_map prune_block (place_here pid news bs) = flat_map prune_block bs.
Proof. intros Hn bs. unfold place_here. destruct (index_of_para pid bs 0) as [k|]; [|reflexivity].
  revert bs. induction Hn as [|ip news Hip _ IH]; intros bs; cbn [fold_left]; [reflexivity|]. rewrite IH. now apply prune_insert_at. Qed.
Lemma prune_place_block pid news : Forall (fun ip => keepP (snd ip) = false) news ->
  forall b, prune_block (place_block pid news b) = prune_block b.
Proof. intros Hn. induction b using block_ind'; cbn [place_block prune_block]; [reflexivity|]. f_equal. f_equal.
  rewrite map_map. apply map_ext_in. intros r Hr. rewrite Forall_forall in H. specialize (H r Hr).
  rewrite map_map. apply map_ext_in. intros c Hc. rewrite Forall_forall in H. specialize (H c Hc). cbn [fst snd]. f_equal.
  rewrite prune_place_here by exact Hn. rewrite fm_map'. apply fm_ext_in. intros b Hb. rewrite Forall_forall in H. exact (H b Hb). Qed.
Theorem prune_place pid news d : Forall (fun ip => keepP (snd ip) = false) news -> prune (place_paras pid news d) = prune d.
Proof. intros Hn. unfold prune, place_paras. cbn [d_stories d_comments d_next_uid]. f_equal. rewrite map_map. apply map_ext. intros s.
  unfold prune_story. cbn [s_kind s_blocks]. f_equal. rewrite prune_place_here by exact Hn. rewrite fm_map'. apply fm_ext_in. intros b _.
  now apply prune_place_block. Qed.

(* when every paragraph is kept, pruning is the identity *)
Lemma prune_block_id : forall b, Forall (fun p => keepP p = true) (block_paras b) -> prune_block b = [b].
Proof. induction b using block_ind'; intros Hk; cbn [prune_block block_paras] in *.
  - inversion Hk; subst. now rewrite H1.
  - f_equal. f_equal. rewrite <- (map_id rows) at 2. apply map_ext_in. intros r Hr. rewrite Forall_forall in H. specialize (H r Hr).
    pose proof (Forall_fm _ _ _ Hk r Hr) as Hkr. cbn beta in Hkr.
    rewrite <- (map_id r) at 2. apply map_ext_in. intros c Hc. rewrite Forall_forall in H. specialize (H c Hc).
    pose proof (Forall_fm _ _ _ Hkr c Hc) as Hkc. cbn beta in Hkc. destruct c as [t0 bs]. cbn [fst snd] in *. f_equal.
    rewrite <- (flat_map_single bs) at 2. apply fm_ext_in. intros b Hb. rewrite Forall_forall in H. apply (H b Hb).
    exact (Forall_fm _ _ _ Hkc b Hb). Qed.
Theorem prune_id d : Forall (fun p => keepP p = true) (doc_paras d) -> prune d = d.
Proof. intros Hk. unfold prune. destruct d as [ss cm nu]. cbn [d_stories d_comments d_next_uid] in *. f_equal.
  rewrite <- (map_id ss) at 2. apply map_ext_in. intros s Hs. unfold doc_paras in Hk. cbn [d_stories] in Hk.
  pose proof (Forall_fm _ _ _ Hk s Hs) as Hks. cbn beta in Hks. destruct s as [k bs]. unfold prune_story. cbn [s_kind s_blocks] in *. f_equal.
  rewrite <- (flat_map_single bs) at 2. apply fm_ext_in. intros b Hb. apply prune_block_id. exact (Forall_fm _ _ _ Hks b Hb). Qed.
End Prune.

(* the paragraphs of a document after place_paras: the old ones and the new ones *)
Lemma in_insert_at {A} (x : A) : forall i l y, In y (insert_at i x l) -> y = x \/ In y l.
Proof. induction i as [|i IH]; intros l y Hy; destruct l as [|z r]; cbn [insert_at] in Hy.
  - destruct Hy as [<-|[]]. now left.
  - destruct Hy as [<-|Hy]; [now left|now right].
  - destruct Hy as [<-|[]]. now left.
  - destruct Hy as [<-|Hy]; [right; now left|]. destruct (IH r y Hy) as [->|Hr]; [now left|right; now right]. Qed.
Lemma in_place_here pid news : forall bs b, In b (place_here pid news bs) -> In b bs \/ exists ip, In ip news /\ b = BPara (snd ip).
Proof. intros bs b. unfold place_here. destruct (index_of_para pid bs 0) as [k|]; [|now left].
  revert bs. induction news as [|ip news IH]; intros bs Hb; cbn [fold_left] in Hb; [now left|].
  destruct (IH _ Hb) as [H|[ip' [Hi He]]].
  - destruct (in_insert_at _ _ _ _ H) as [->|H']; [right; exists ip; split; [now left|reflexivity]|now left].
  - right. exists ip'. split; [now right|exact He]. Qed.
Lemma paras_place_here pid news bs p : In p (flat_map block_paras (place_here pid news bs)) ->
  In p (flat_map block_paras bs) \/ In p (map snd news).
Proof. intros H. apply in_flat_map in H as (b & Hb & Hp). destruct (in_place_here _ _ _ _ Hb) as [H|[ip [Hi ->]]].
  - left. apply in_flat_map. eauto.
  - right. cbn [block_paras] in Hp. destruct Hp as [<-|[]]. now apply in_map. Qed.
Lemma paras_place_block pid news : forall b p, In p (block_paras (place_block pid news b)) -> In p (block_paras b) \/ In p (map snd news).
Proof. induction b using block_ind'; intros q Hq; cbn [place_block block_paras] in *; [now left|].
  apply in_flat_map in Hq as (r' & Hr' & Hq). apply in_map_iff in Hr' as (r & <- & Hr).
  apply in_flat_map in Hq as (c' & Hc' & Hq). apply in_map_iff in Hc' as (c & <- & Hc). cbn [snd] in Hq.
  rewrite Forall_forall in H. specialize (H r Hr). rewrite Forall_forall in H. specialize (H c Hc). rewrite Forall_forall in H.
  destruct (paras_place_here _ _ _ _ Hq) as [Hq'|Hn]; [|now right].
  apply in_flat_map in Hq' as (b' & Hb' & Hq'). apply in_map_iff in Hb' as (b & <- & Hb).
  destruct (H b Hb q Hq') as [Ho|Hn]; [|now right]. left.
  apply in_flat_map. exists r. split; auto. apply in_flat_map. exists c. split; auto. apply in_flat_map. exists b. split; auto. Qed.
Theorem paras_place pid news d p : In p (doc_paras (place_paras pid news d)) -> In p (doc_paras d) \/ In p (map snd news).
Proof. unfold doc_paras, place_paras. cbn [d_stories]. intros H.
  apply in_flat_map in H as (s' & Hs' & H). apply in_map_iff in Hs' as (s & <- & Hs). cbn [s_blocks] in H.
  destruct (paras_place_here _ _ _ _ H) as [H'|Hn]; [|now right].
  apply in_flat_map in H' as (b' & Hb' & H'). apply in_map_iff in Hb' as (b & <- & Hb).
  destruct (paras_place_block _ _ _ _ H') as [Ho|Hn]; [|now right]. left.
  apply in_flat_map. exists s. split; auto. apply in_flat_map. exists b. split; auto. Qed.
Print Assumptions prune_place.

(* ---------- where created paragraphs go: directly after the paragraph addressed, in its own container ---------- *)
Lemma index_of_para_app pid q : p_id q = pid -> forall pre post i,
  Forall (fun b => match b with BPara p => p_id p <> pid | _ => True end) pre ->
  index_of_para pid (pre ++ BPara q :: post) i = Some (i + length pre).
Proof. intros Hq. induction pre as [|b pre IH]; intros post i Hp; cbn [app index_of_para length].
  - rewrite Hq, Nat.eqb_refl. f_equal. lia.
  - inversion Hp as [|b0 l Hb Hl]; subst. destruct b as [p|t rows].
    + destruct (Nat.eqb (p_id p) (p_id q)) eqn:E; [apply Nat.eqb_eq in E; contradiction|]. rewrite (IH post (S i) Hl). f_equal. lia.
    + rewrite (IH post (S i) Hl). f_equal. lia. Qed.
Lemma insert_at_app {A} (x : A) : forall pre k l, insert_at (length pre + k) x (pre ++ l) = pre ++ insert_at k x l.
Proof. induction pre as [|y pre IH]; intros k l; [reflexivity|]. cbn [length app Nat.add insert_at]. now rewrite IH. Qed.
Lemma insert_at_0 {A} (x : A) l : insert_at 0 x l = x :: l.
Proof. destruct l; reflexivity. Qed.
Lemma reassoc {A} (pre : list A) q d x post : (pre ++ q :: d) ++ x :: post = pre ++ q :: (d ++ [x]) ++ post.
Proof. rewrite <- !app_assoc. cbn [app]. reflexivity. Qed.
Lemma place_fold (q : block) : forall ps done pre post,
  fold_left (fun acc ip => insert_at (length pre + 1 + fst ip) (BPara (snd ip)) acc) (combine (seq (length done) (length ps)) ps)
            (pre ++ q :: map BPara done ++ post)
  = pre ++ q :: map BPara (done ++ ps) ++ post.
Proof. induction ps as [|p ps IH]; intros done pre post; cbn [length seq combine fold_left].
  - now rewrite app_nil_r.
  - cbn [fst snd].
    replace (length pre + 1 + length done) with (length (pre ++ q :: map BPara done) + 0) by (rewrite app_length; cbn [length]; rewrite map_length; lia).
    change (pre ++ q :: map BPara done ++ post) with (pre ++ (q :: map BPara done) ++ post). rewrite app_assoc.
    rewrite insert_at_app, insert_at_0. rewrite reassoc.
    replace (S (length done)) with (length (done ++ [p])) by (rewrite app_length; cbn [length]; lia).
    change [BPara p] with (map BPara [p]). rewrite <- map_app.
    rewrite (IH (done ++ [p]) pre post). now rewrite <- app_assoc. Qed.
Theorem place_here_after pid q ps pre post : p_id q = pid ->
  Forall (fun b => match b with BPara p => p_id p <> pid | _ => True end) pre ->
  place_here pid (combine (seq 0 (length ps)) ps) (pre ++ BPara q :: post) = pre ++ BPara q :: map BPara ps ++ post.
Proof. intros Hq Hp. unfold place_here. rewrite (index_of_para_app pid q Hq pre post 0 Hp). cbn [Nat.add].
  exact (place_fold (BPara q) ps [] pre post). Qed.
