(* C06 - Accept and Reject act exactly on the addressed change.  ONLY statements + Print Assumptions. *)
From Coq Require Import List NArith Bool Arith.
Import ListNotations.
From Adeu Require Import Str Doc Project DocOps Review Tree ReviewProofs DocProofs.

(* ACCEPT i on a node list, in any context that does not itself carry id i (in particular at paragraph level):
   text under a deletion with id i disappears, insertion marks with id i are dropped (the text becomes ordinary or keeps
   its OTHER enclosing marks), nothing else changes: same characters, formatting, order, other marks, anchors *)
Theorem C06_accept_spec : forall i ns st, clean i st = true -> atoms_l st (accept_l i ns) = flat_map (acc1 i) (atoms_l st ns).
Proof. exact accept_l_spec. Qed.
Print Assumptions C06_accept_spec.
Theorem C06_reject_spec : forall i ns st, clean i st = true -> atoms_l st (reject_l i ns) = flat_map (rej1 i) (atoms_l st ns).
Proof. exact reject_l_spec. Qed.
Print Assumptions C06_reject_spec.
(* every other change, comment anchor and character is untouched *)
Theorem C06_accept_isolation : forall i a, clean i (atom_stack a) = true -> acc1 i a = [a].
Proof. exact accept_isolation. Qed.
Print Assumptions C06_accept_isolation.
Theorem C06_reject_isolation : forall i a, clean i (atom_stack a) = true -> rej1 i a = [a].
Proof. exact reject_isolation. Qed.
Print Assumptions C06_reject_isolation.
(* an unknown or already resolved id changes nothing (and is counted skipped: step_action tests doc_has_id) *)
Theorem C06_accept_unknown : forall i ns, has_id_l i ns = false -> accept_l i ns = ns.
Proof. exact accept_l_unknown. Qed.
Print Assumptions C06_accept_unknown.
Theorem C06_reject_unknown : forall i ns, has_id_l i ns = false -> reject_l i ns = ns.
Proof. exact reject_l_unknown. Qed.
Print Assumptions C06_reject_unknown.
Theorem C06_resolved_after_accept : forall i n, existsb (has_id i) (accept_node i n) = false.
Proof. exact accept_resolves. Qed.
Print Assumptions C06_resolved_after_accept.
(* actions on distinct ids commute *)
Theorem C06_commute_AA : forall i j ns, i <> j -> atoms_l [] (accept_l i (accept_l j ns)) = atoms_l [] (accept_l j (accept_l i ns)).
Proof. exact accept_accept_commute. Qed.
Print Assumptions C06_commute_AA.
Theorem C06_commute_AR : forall i j ns, i <> j -> atoms_l [] (accept_l i (reject_l j ns)) = atoms_l [] (reject_l j (accept_l i ns)).
Proof. exact accept_reject_commute. Qed.
Print Assumptions C06_commute_AR.
Theorem C06_commute_RR : forall i j ns, i <> j -> atoms_l [] (reject_l i (reject_l j ns)) = atoms_l [] (reject_l j (reject_l i ns)).
Proof. exact reject_reject_commute. Qed.
Print Assumptions C06_commute_RR.
(* applied + skipped = number of actions, whatever REPLY does *)
Theorem C06_counts : forall reply d acts, let '(_, ap, sk) := apply_actions reply d acts in ap + sk = length acts.
Proof. exact actions_count. Qed.
Print Assumptions C06_counts.
(* accepting every id gives the text of accept-all (= the accepted view) and leaves no revision mark behind *)
Theorem C06_accept_every_id : forall ids ns, all_covered ids (atoms_l [] ns) ->
  txt (atoms_l [] (accept_ids ids ns)) = txt (atoms_l [] (flat_map accept_all_node ns))
  /\ Forall (fun a => atom_stack a = []) (atoms_l [] (accept_ids ids ns)).
Proof. exact accept_every_id. Qed.
Print Assumptions C06_accept_every_id.
Theorem C06_accept_all_is_accepted_view : forall n st, existsb is_del st = false ->
  atoms_l [] (accept_all_node n) = flat_map acc_view (atoms st n).
Proof. exact accept_all_spec. Qed.
Print Assumptions C06_accept_all_is_accepted_view.
(* document level: an action maps over the paragraphs in place; stories, tables, cells, comment records do not move *)
Theorem C06_doc_paras : forall f d, doc_paras (map_doc f d) = map f (doc_paras d).
Proof. exact doc_paras_map. Qed.
Print Assumptions C06_doc_paras.
