(* C05 - opening and saving is content-neutral.  ONLY statements + Print Assumptions. *)
From Coq Require Import List NArith Bool Arith.
Import ListNotations.
From Adeu Require Import Str Doc Norm Project DocOps Tree Normalize DocProofs.

(* a normalised paragraph has the atoms of the paragraph minus proofErr marks: same characters, same order, same
   per-character formatting, same enclosing tracked changes (ids, authors, dates), same comment anchors, same non-text
   content - in every mark context *)
Theorem C05_para_neutral : forall st ns, atoms_l st (normalize_para ns) = atoms_l st (np ns).
Proof. exact Normalize.C05_para_neutral. Qed.
Print Assumptions C05_para_neutral.

(* merging never crosses, drops or reorders an intervening element: the sequence of non-run nodes is untouched *)
Theorem C05_non_runs_untouched : forall fuel ns, non_runs (coalesce fuel ns) = non_runs ns.
Proof. exact Normalize.coalesce_non_runs. Qed.
Print Assumptions C05_non_runs_untouched.

(* whole document: every story keeps its paragraphs (ids, paragraph properties, styles) with unchanged tapes - body
   paragraphs minus proofErr -, tables/cells/stories/comment records are untouched *)
Theorem C05_story_tapes : forall s,
  map para_tape (flat_map block_paras (s_blocks (normalize_story s))) =
  map (if N.eqb (s_kind s) 1 then para_tape_np else para_tape) (flat_map block_paras (s_blocks s)).
Proof. exact normalize_story_tapes. Qed.
Print Assumptions C05_story_tapes.
Theorem C05_skeleton : forall d, skeleton (normalize_doc d) = skeleton d.
Proof. exact normalize_doc_skeleton. Qed.
Print Assumptions C05_skeleton.
Theorem C05_comments : forall d, d_comments (normalize_doc d) = d_comments d.
Proof. exact normalize_doc_comments. Qed.
Print Assumptions C05_comments.
