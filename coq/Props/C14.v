(* C14 - the CriticMarkup preview is faithful to the text and to the edits.  ONLY statements + Print Assumptions. *)
From Coq Require Import List NArith Bool Arith.
Import ListNotations.
From Adeu Require Import Str ListX Markup MarkupProofs.

(* marker hoisting never loses or invents characters of the matched text: the hoisted prefix, the clean target and the
   hoisted suffix concatenate to the matched text, for every text and every \w predicate *)
Theorem C14_hoisting_lossless : forall isword t, let '(pre, ct, suf) := strip_balanced isword t in pre ++ ct ++ suf = t.
Proof. exact strip_balanced_decomp. Qed.
Print Assumptions C14_hoisting_lossless.

(* the edits that are marked: each has a NON-EMPTY matched range that is the matcher's answer for its target, ranges never
   overlap one another ("never cut through one another", "an edit that matched nothing leaves no trace"), and the index
   displayed for an edit is its position in the submitted list *)
Theorem C14_selected : forall text es,
  let sel := select text es 0 [] in
  Forall (fun m => fst (rng m) <> snd (rng m)
                   /\ nth_error es (snd m) = Some (snd (fst m))
                   /\ find_match text (me_target (snd (fst m))) (me_fuzzy (snd (fst m))) = Some (rng m)) sel
  /\ ForallOrdPairs (fun a b => ~ (fst (rng b) < snd (rng a) /\ fst (rng a) < snd (rng b))) sel.
Proof. intros text es. destruct (select_spec text es 0 []) as [A B]. split; [|exact B].
  eapply Forall_impl; [|exact A]. intros m (H0 & _ & _ & H3 & H4). rewrite Nat.sub_0_r in H3. auto. Qed.
Print Assumptions C14_selected.
