(* C14 - the CriticMarkup preview is faithful to the text and to the edits.  ONLY statements + Print Assumptions. *)
From Coq Require Import List NArith Bool Arith.
Import ListNotations.
From Adeu Require Import Str ListX Markup MarkupProofs WeaveProofs.

(* marker hoisting never loses or invents characters of the matched text: the hoisted prefix, the clean target and the
   hoisted suffix concatenate to the matched text, for every text and every \w predicate *)
Theorem C14_hoisting_lossless : forall isword t, let '(pre, ct, suf) := strip_balanced isword t in pre ++ ct ++ suf = t.
Proof. exact strip_balanced_decomp. Qed.
Print Assumptions C14_hoisting_lossless.

(* the edits that are marked: each has a NON-EMPTY matched range that is the matcher's answer for its target, ranges never
   overlap one another ("never cut through one another", "an edit that matched nothing leaves no trace"), and the index
   displayed for an edit is its position in the submitted list *)
Theorem C14_selected : forall text es,
  let sel := select text es 0 [] in
  Forall (fun m => fst (rng m) <> snd (rng m)
                   /\ nth_error es (snd m) = Some (snd (fst m))
                   /\ find_match text (me_target (snd (fst m))) (me_fuzzy (snd (fst m))) = Some (rng m)) sel
  /\ ForallOrdPairs (fun a b => ~ (fst (rng b) < snd (rng a) /\ fst (rng a) < snd (rng b))) sel.
Proof. intros text es. destruct (select_spec text es 0 []) as [A B]. split; [|exact B].
  eapply Forall_impl; [|exact A]. intros m (H0 & _ & _ & H3 & H4). rewrite Nat.sub_0_r in H3. auto. Qed.
Print Assumptions C14_selected.

(* THE weave (reject view, placement, order) - for every text, every edit list and every fuzzy-stage answer that is a span of
   the text (what a regex match is; checked on every call by the harness): the preview is the text's own pieces, in order, with
   the block of each selected edit standing exactly where its matched range was; reading every block as the text it matched gives
   back the text character for character; the blocks are exactly the selected edits, in ascending position *)
Theorem C14_weave : forall isword show_nat (text : str) es wi hl, es <> [] -> Forall (fuzzy_ok text) es ->
  let sel := sort_desc (select text es 0 []) in
  let blk := fun m : nat * nat * medit * nat =>
    build isword show_nat (slice text (st m) (en m)) (me_new (snd (fst m))) (me_comment (snd (fst m))) (snd m) wi hl in
  let segs := segs_desc text sel (length text) [] in
  render isword show_nat text es wi hl = concat (map (seg_str blk) segs)
  /\ concat (map (seg_matched text) segs) = text
  /\ seg_blocks segs = rev sel.
Proof. exact render_weave. Qed.
Print Assumptions C14_weave.
(* one block (suggestion mode): hoisted prefix, {--clean target--}{++clean new++}, hoisted suffix, metadata; read as rejected it
   is the matched text, read as accepted it is the new text - as given, or (when the new text did not repeat them) inside the
   matched text's own formatting markers *)
Theorem C14_block_views : forall isword show_nat target new cm idx wi,
  let '(pre, ct, suf) := strip_balanced isword target in
  exists cn meta, build isword show_nat target new cm idx wi false = pre ++ change ct cn ++ suf ++ meta
                  /\ pre ++ ct ++ suf = target /\ (cn = new \/ pre ++ cn ++ suf = new).
Proof. exact build_views. Qed.
Print Assumptions C14_block_views.
