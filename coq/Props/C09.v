(* C09 - saved output is structurally valid revision and comment markup.  ONLY statements + Print Assumptions (partial:
   id freshness, session attribution and comment-record discipline are theorems; nesting, delText placement, package
   consistency are decided by the structural validator on every real output). *)
From Coq Require Import List NArith Bool Arith.
Import ListNotations.
From Adeu Require Import Str Doc Project DocOps Inst Engine EngineProofs.

(* every revision mark the engine creates takes the next id above everything allocated so far, carries the session's
   author and timestamp; ids printed and parsed back are the same numbers (no collision through formatting) *)
Theorem C09_new_mark : forall e, let '(e', m) := new_mark e in
  nat_of_str (m_id m) = Some (S (e_cur e)) /\ e_cur e' = S (e_cur e) /\ m_author m = e_author e /\ m_date m = e_ts e.
Proof. exact new_mark_fresh. Qed.
Print Assumptions C09_new_mark.
Theorem C09_id_roundtrip : forall n, nat_of_str (str_of_nat n) = Some n.
Proof. exact nat_of_str_of_nat. Qed.
Print Assumptions C09_id_roundtrip.
(* the pre-session maximum really bounds every existing id, so session ids are fresh in every story *)
Theorem C09_existing_ids_below : forall d p n, In p (doc_paras d) -> In n (p_nodes p) ->
  Forall (fun m => Smark (scan_ids d) m = false) (marks_of n).
Proof. exact input_marks_old. Qed.
Print Assumptions C09_existing_ids_below.
(* a whole batch: existing comment records are kept as a prefix, every added record has a fresh session id *)
Theorem C09_comment_records : forall d author ts edits orc,
  let nd := normalize_doc d in
  let '(d', _, _, _, nn) := apply_edits d author ts edits orc in
  wf_ids nd -> nn = 0 -> exists cs, d_comments d' = d_comments nd ++ cs /\ Forall (fun c => Ccom (next_comment_id nd) (c_id c) = true) cs.
Proof. intros d author ts edits orc. pose proof (engine_contract d author ts edits orc) as H. cbn zeta in *.
  destruct (apply_edits d author ts edits orc) as [[[[d' ap] sk] out] nn]. intros W E. exact (proj2 (proj2 (proj1 (proj1 H W E)))). Qed.
Print Assumptions C09_comment_records.

(* revision marks and comment ranges never span document parts (fix D57): a deletion or modification is carried out (outcome
   Applied) only when the runs its range resolves to lie in one story *)
Theorem C09_applied_within_one_story : forall s uc st tg nw cm o,
  match o with Some OpIns => False | Some _ => True | None => tg <> [] end ->
  snd (apply_indexed s uc st tg nw cm o) = Applied ->
  let sp := if uc then match s_clean s with Some m => m | None => s_raw s end else s_raw s in
  let '(d1, work, _) := resolve (e_doc (s_eng s)) sp st (st + length tg) in one_story d1 work = true.
Proof. exact apply_indexed_one_story. Qed.
Print Assumptions C09_applied_within_one_story.

(* no nested revision marks from insertions (fix D59): the element new text is placed next to is always a DIRECT child of a paragraph -
   the anchor run itself, or the tracked-change wrapper whose outermost run on that side the anchor is; when neither is available the
   model refuses (verdict Outside 3, finding D34) *)
Theorem C09_insertion_placed_at_paragraph_level : forall au before d pu, place_uid au before d = Some pu ->
  exists p n, In p (doc_paras d) /\ In n (p_nodes p) /\ has_uid pu n = true.
Proof. exact place_uid_direct. Qed.
Print Assumptions C09_insertion_placed_at_paragraph_level.
