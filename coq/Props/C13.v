(* C13 - computed diffs are exact, non-overlapping edit scripts.  ONLY statements + Print Assumptions. *)
From Coq Require Import List NArith Arith.
Import ListNotations.
From Adeu Require Import Str ListX Diff DiffProofs.

(* For every diff list satisfying the diff-match-patch contract (its Eq+Del pieces spell text 1, its Eq+Ins pieces
   spell text 2, no two deletions in a row) the edits computed from it, applied left to right with the guards of
   apply_script (each edit starts at or after the end of the previous one, its target equals text 1 at its index,
   it ends inside text 1), turn text 1 into text 2. *)
Theorem C13_exact : forall ds t1 t2, valid_diff ds t1 t2 ->
  apply_script (edits_of_diffs t1 ds) t1 0 = Some t2.
Proof. exact DiffProofs.C13_exact. Qed.
Print Assumptions C13_exact.

(* sorted, pairwise non-overlapping, every target equals text 1 at the edit's position *)
Theorem C13_sorted_disjoint_targets : forall ds t1 t2, valid_diff ds t1 t2 ->
  script_ok (edits_of_diffs t1 ds) t1 0.
Proof. exact DiffProofs.C13_sorted_disjoint_targets. Qed.
Print Assumptions C13_sorted_disjoint_targets.

(* identical texts give no edits *)
Theorem C13_identity : forall t, edits_of_diffs t [(OEq, t)] = [].
Proof. exact DiffProofs.C13_identity. Qed.
Print Assumptions C13_identity.

(* tokenisation is lossless and never yields an empty token, for every choice of the character classes *)
Theorem C13_lossless_tokens : forall isspace isword s, concat (tokens isspace isword s) = s.
Proof. exact DiffProofs.tokens_lossless. Qed.
Print Assumptions C13_lossless_tokens.

(* whole tokens: the differing part of every deletion / replacement is exactly a Del piece of the diff (and the Ins piece
   next to it); an insertion adds exactly one Ins piece before or after an anchor copied from text 1.  Together with the
   token alignment of the diff pieces (checked on every diff the implementation computed) no edit cuts a token. *)
Theorem C13_whole_pieces : forall t ds, Forall (shape ds) (edits_of_diffs t ds).
Proof. exact DiffProofs.edits_shapes. Qed.
Print Assumptions C13_whole_pieces.
