(* C18 - `adeu init` never loses the user's configuration.  ONLY statements + Print Assumptions.
   Gen/SkelGen.v is regenerated from /repo/src/adeu/cli.py by harness/skel.py on every run. *)
From Coq Require Import List Bool.
Import ListNotations.
From Adeu Require Import Init SkelGen.

(* the checker is sound: for a skeleton it accepts, from ANY initial world, under ANY oracle - every effect may complete,
   raise (a failing copy leaves a junk backup, a failing dump a junk config), or the process may die before or in the
   middle of it - the complete previous configuration is still in the configuration file or in the backup *)
Theorem C18_checker_sound : forall w0 ss, crash_safe ss = true -> forall o,
  let '(oc, w', _) := run (size ss) ss w0 o 0 in Keeps w0 w' /\ oc <> NoFuel.
Proof. exact crash_safe_sound. Qed.
Print Assumptions C18_checker_sound.

(* handle_init, as the source reads NOW, is accepted *)
Theorem C18_handle_init_accepted : crash_safe sk_handle_init = true.
Proof. vm_compute. reflexivity. Qed.
Print Assumptions C18_handle_init_accepted.

Theorem C18_crash_safe : forall w0 o,
  let '(oc, w', _) := run (size sk_handle_init) sk_handle_init w0 o 0 in Keeps w0 w' /\ oc <> NoFuel.
Proof. intros w0 o. exact (crash_safe_sound w0 sk_handle_init C18_handle_init_accepted o). Qed.
Print Assumptions C18_crash_safe.
