(* C17 - tool front-ends are safe.  ONLY statements + Print Assumptions.
   Gen/SkelGen.v is regenerated from /repo/src/adeu/server.py and cli.py by harness/skel.py on every run. *)
From Coq Require Import List Bool.
Import ListNotations.
From Adeu Require Import Effects SkelGen.

(* the checker is sound: a skeleton it accepts, run from the untouched world under ANY oracle (which effects raise, which
   branches are taken), returns a string - never raises - , writes nothing to stdout, and when it returns an error the
   designated output is untouched (FM1: a write of already computed bytes does not fail) *)
Theorem C17_checker_sound : forall ss, safe ss = true -> forall o,
  let '(oc, w', _) := run (size ss) ss w0 o 0 in
  (oc = RetOk \/ (oc = RetErr /\ w' = w0)) /\ stdout_used w' = false.
Proof. exact safe_sound. Qed.
Print Assumptions C17_checker_sound.

(* every MCP tool, as the source reads NOW, is accepted *)
Theorem C17_tools_safe : forallb safe tool_skeletons = true.
Proof. vm_compute. reflexivity. Qed.
Print Assumptions C17_tools_safe.

(* hence: for every tool and every fault/branch oracle *)
Theorem C17_tools : forall ss, In ss tool_skeletons -> forall o,
  let '(oc, w', _) := run (size ss) ss w0 o 0 in
  (oc = RetOk \/ (oc = RetErr /\ w' = w0)) /\ stdout_used w' = false.
Proof. intros ss H. apply safe_sound. exact (proj1 (forallb_forall safe tool_skeletons) C17_tools_safe ss H). Qed.
Print Assumptions C17_tools.

(* CLI commands: an uncaught exception (traceback, exit status 1) is an error report as well; it may only escape while
   the output is untouched *)
Theorem C17_cli_safe : forallb safe_cli cli_skeletons = true.
Proof. vm_compute. reflexivity. Qed.
Print Assumptions C17_cli_safe.
Theorem C17_cli : forall ss, In ss cli_skeletons -> forall o,
  let '(oc, w', _) := run (size ss) ss w0 o 0 in
  (oc = RetOk \/ ((oc = RetErr \/ oc = Raised) /\ w' = w0)) /\ stdout_used w' = false.
Proof. intros ss H. apply safe_cli_sound. exact (proj1 (forallb_forall safe_cli cli_skeletons) C17_cli_safe ss H). Qed.
Print Assumptions C17_cli.
