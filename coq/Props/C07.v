(* C07 - multi-round negotiation keeps the document consistent.  ONLY statements + Print Assumptions. *)
From Coq Require Import List NArith Bool Arith.
Import ListNotations.
From Adeu Require Import Str Doc Project DocOps Review Inst Engine History ReviewProofs EngineProofs.

(* for EVERY history (any number of rounds, any authors, any batches / review actions / accept-all, any matcher answers) every
   saved state satisfies the single-step contract relative to the state the session loaded: an edit round only adds marks
   and comments with ids above everything present at load and, for multi-line / heading new text, paragraphs holding nothing
   but the round's insertions (RelG with the pre-round maxima), a review round accounts for every action, accept-all is the
   accepted view of the normalised document; and every saved state is again well-formed (paragraph identities below the next
   free identity), so the only hypothesis - the FIRST document is well-formed, which the reader guarantees - carries through
   the whole history *)
Theorem C07_every_step : forall ss d, wf_ids d -> trace_ok d ss (run_history d ss).
Proof. exact history_contracts. Qed.
Print Assumptions C07_every_step.
(* ids allocated in a round are above every id present when the round loaded the document - in every story -, so revision
   ids stay unique across rounds and authors *)
Theorem C07_fresh_ids : forall d p n, In p (doc_paras d) -> In n (p_nodes p) -> Forall (fun m => Smark (scan_ids d) m = false) (marks_of n).
Proof. exact input_marks_old. Qed.
Print Assumptions C07_fresh_ids.
(* a change left pending by an earlier round stays individually resolvable: ACCEPT / REJECT by its id act on it alone *)
Theorem C07_pending_addressable_accept : forall i ns st, clean i st = true -> atoms_l st (accept_l i ns) = flat_map (acc1 i) (atoms_l st ns).
Proof. exact accept_l_spec. Qed.
Print Assumptions C07_pending_addressable_accept.
Theorem C07_pending_addressable_reject : forall i ns st, clean i st = true -> atoms_l st (reject_l i ns) = flat_map (rej1 i) (atoms_l st ns).
Proof. exact reject_l_spec. Qed.
Print Assumptions C07_pending_addressable_reject.
