(* C01 - tracked edits are fully reversible: the engine patches, it never rewrites.  ONLY statements + Print Assumptions. *)
From Coq Require Import List NArith Bool Arith.
Import ListNotations.
From Adeu Require Import Str Doc Prims Project DocOps Inst Engine Tree C01Core DocProofs EngineProofs.

(* the paragraph-level core: ANY sequence of session primitives (run split, tracked deletion of a run, w:ins placed before /
   after a node, comment range + reference) addressed to ANY node identities, in ANY nesting and mark context, is invisible
   once the session's marks and comment anchors are rejected *)
Theorem C01_para_core : forall S C ps, forallb (session_prim S C) ps = true ->
  forall ns st, rej S C (atoms_l st (fold_left apply_prim ps ns)) = rej S C (atoms_l st ns).
Proof. exact C01Core.C01_para_core. Qed.
Print Assumptions C01_para_core.

(* the engine, whole batch, EVERY document / batch / matcher answer - inline new text AND block insertions (new text with
   line breaks / heading lines, which creates paragraphs); the model reports Outside for edits inside pending insertions and
   stops there. With S = "revision id above the pre-session maximum", C = "comment id not below the pre-session next id" and
   the paragraphs created by the session (identity not below the pre-session next identity) dropped - they hold nothing but
   the session's insertions (NewDead) -, for every document whose paragraph identities lie below its next identity (wf_ids,
   what the reader guarantees):
   - every paragraph of the result, with the session rejected, has exactly the tape of the normalised input paragraph:
     same characters, per-character formatting, earlier authors' marks, comment anchors, non-text content, same order;
     paragraph ids, paragraph properties and styles are the same (ptape);
   - stories, tables, rows, cells and paragraph positions are the same (story skeleton);
   - the comment records are the input's followed by session comments only;
   whether each edit was applied, skipped or matched by the fuzzy stages (the oracle answers are arbitrary) *)
Theorem C01_engine_reversible : forall d author ts edits orc,
  let nd := normalize_doc d in
  let '(d', ap, sk, out, nn) := apply_edits d author ts edits orc in
  (wf_ids nd -> nn = 0 -> RelG (scan_ids nd) (next_comment_id nd) (d_next_uid nd) nd d') /\ (out = 0 -> ap + sk = length edits).
Proof. exact engine_contract. Qed.
Print Assumptions C01_engine_reversible.
(* and when the result holds no paragraph of the session, the plain relation: the same paragraphs, one for one *)
Theorem C01_no_new_paragraph_exact : forall d author ts edits orc,
  let nd := normalize_doc d in
  let '(d', _, _, _, nn) := apply_edits d author ts edits orc in
  wf_ids nd -> nn = 0 -> Forall (fun p => p_id p < d_next_uid nd) (doc_paras d') -> Rel (scan_ids nd) (next_comment_id nd) nd d'.
Proof. exact engine_plain. Qed.
Print Assumptions C01_no_new_paragraph_exact.

(* and the normalised input itself contains no session mark: rejecting the session leaves it as it is *)
Theorem C01_input_has_no_session_marks : forall d p n, In p (doc_paras d) -> In n (p_nodes p) ->
  Forall (fun m => Smark (scan_ids d) m = false) (marks_of n).
Proof. exact input_marks_old. Qed.
Print Assumptions C01_input_has_no_session_marks.
Theorem C01_reject_fixes_old_content : forall cur0 c0 n st, old_stack cur0 st ->
  Forall (fun m => Smark cur0 m = false) (marks_of n) -> Forall (fun i => Ccom c0 i = false) (anchor_ids n) ->
  rej (Smark cur0) (Ccom c0) (atoms st n) = atoms st n.
Proof. exact rej_fixed. Qed.
Print Assumptions C01_reject_fixes_old_content.
