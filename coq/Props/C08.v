(* C08 - edit accounting is honest.  ONLY statements + Print Assumptions. *)
From Coq Require Import List NArith Bool Arith.
Import ListNotations.
From Adeu Require Import Str Doc Project DocOps Inst Engine EngineProofs.

(* applied + skipped = number of edits submitted, for every document, batch (indexed and heuristic edits mixed, any
   order, duplicates, overlaps, empty targets, unlocatable targets) and every matcher answer - as long as the model does not
   stop at an out-of-scope case (out = false) *)
Theorem C08_counts : forall d author ts edits orc,
  let '(_, ap, sk, out, _) := apply_edits d author ts edits orc in out = 0 -> ap + sk = length edits.
Proof. intros d author ts edits orc. pose proof (engine_contract d author ts edits orc) as H. cbn zeta in H.
  destruct (apply_edits d author ts edits orc) as [[[[d' ap] sk] out] nn]. exact (proj2 H). Qed.
Print Assumptions C08_counts.

(* whatever is applied or skipped, nothing but session marks and session comments is added (see C01) *)
Theorem C08_only_session_traces : forall d author ts edits orc,
  let nd := normalize_doc d in
  let '(d', _, _, _, nn) := apply_edits d author ts edits orc in (wf_ids nd -> nn = 0 -> RelG (scan_ids nd) (next_comment_id nd) (d_next_uid nd) nd d').
Proof. intros d author ts edits orc. pose proof (engine_contract d author ts edits orc) as H. cbn zeta in *.
  destruct (apply_edits d author ts edits orc) as [[[[d' ap] sk] out] nn]. exact (proj1 H). Qed.
Print Assumptions C08_only_session_traces.

(* skipped edits leave no trace: a batch in which nothing was applied (every edit skipped - not found, empty target, target in
   deleted text, overlap - or the model stopped at an out-of-scope edit) leaves the normalised input as it was: the same atoms
   (characters, formatting, tracked changes, comment anchors, other content) in every paragraph, the same stories / tables /
   cells, the same comment records. Only run boundaries may have moved (the mapper splits runs while it resolves a range) *)
Theorem C08_nothing_applied_no_trace : forall d author ts edits orc,
  let '(d', ap, _, _, _) := apply_edits d author ts edits orc in ap = 0 -> ARel (normalize_doc d) d'.
Proof. exact engine_no_trace. Qed.
Print Assumptions C08_nothing_applied_no_trace.

(* the batch the correspondence check runs (apply_edits_x: it also reports how many deletions / modifications resolved to runs of
   several paragraphs, the region of finding D30) IS the batch the theorems speak about *)
Theorem C08_instrumented_batch_is_the_batch : forall d author ts edits orc,
  fst (apply_edits_x d author ts edits orc) = apply_edits d author ts edits orc.
Proof. exact apply_edits_x_fst. Qed.
Print Assumptions C08_instrumented_batch_is_the_batch.

(* text that is already marked deleted is not edited again: a located range covering a deleted span is skipped and the state is
   untouched (the rule the matcher's exact stage anticipates by passing over such occurrences, fix D55) *)
Theorem C08_deleted_text_not_edited : forall (s : est) (uc : bool) (st ml : nat) (nw cm : str),
  let sp : list ospan := if uc then match s_clean s with Some c => c | None => [] end else s_raw s in
  existsb (fun x => is_some_nonempty (o_del x)) (filter (fun x => o_real x && (st <? o_end x) && (o_start x <? st + ml)) sp) = true ->
  apply_located s uc st ml nw cm = (s, Skipped).
Proof. exact apply_located_deleted. Qed.
Print Assumptions C08_deleted_text_not_edited.
