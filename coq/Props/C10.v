(* C10 - comments requested with an edit are never lost or misattached.  ONLY statements + Print Assumptions (partial:
   record creation and preservation are theorems; anchoring on the change and display in the raw view are decided by the
   correspondence and the oracle; replies are decided by the oracle of the review harness). *)
From Coq Require Import List NArith Bool Arith.
Import ListNotations.
From Adeu Require Import Str Doc Project DocOps Inst Engine EngineProofs.

(* attaching a (non-empty) comment adds EXACTLY ONE record: next free id, the session's author and date, the text *)
Theorem C10_attach_one : forall e su eu c t,
  d_comments (e_doc (attach e su eu (c :: t))) =
  d_comments (e_doc e) ++ [{| c_id := str_of_nat (e_next_c e); c_author := e_author e; c_date := e_ts e; c_text := c :: t; c_parent := None |}]
  /\ e_next_c (attach e su eu (c :: t)) = S (e_next_c e).
Proof. exact attach_one_comment. Qed.
Print Assumptions C10_attach_one.
Theorem C10_no_comment_no_record : forall e su eu, attach e su eu [] = e.
Proof. exact attach_no_comment. Qed.
Print Assumptions C10_no_comment_no_record.
(* existing comments keep their records (text, author, date, parent) and their anchors: the batch result, with the
   session rejected, has the input's tapes (anchors are atoms of the tape) and the input's records as a prefix *)
Theorem C10_existing_kept : forall d author ts edits orc,
  let nd := normalize_doc d in
  let '(d', _, _, _) := apply_edits d author ts edits orc in (wf_ids nd -> RelG (scan_ids nd) (next_comment_id nd) (d_next_uid nd) nd d').
Proof. intros d author ts edits orc. pose proof (engine_contract d author ts edits orc) as H. cbn zeta in *.
  destruct (apply_edits d author ts edits orc) as [[[d' ap] sk] out]. exact (proj1 H). Qed.
Print Assumptions C10_existing_kept.

(* multi-line / heading new text: a commented block insertion adds exactly one record too - on the heading path track_insert
   attaches it to the created paragraphs itself and hands no inline element back, otherwise it adds none and the caller
   attaches the one comment to the inline w:ins it gets back *)
Theorem C10_block_one_comment : forall e text anc cur c t sup,
  let r := track_insert e text anc cur (c :: t) sup in
  d_comments (e_doc (fst r)) = d_comments (e_doc e) ++
    match snd r with
    | Some _ => []
    | None => [{| c_id := str_of_nat (e_next_c e); c_author := e_author e; c_date := e_ts e; c_text := c :: t; c_parent := None |}]
    end.
Proof. exact track_insert_one_comment. Qed.
Print Assumptions C10_block_one_comment.
