(* C10 - comments requested with an edit are never lost or misattached.  ONLY statements + Print Assumptions (partial:
   record creation and preservation are theorems; anchoring on the change and display in the raw view are decided by the
   correspondence and the oracle; replies are decided by the oracle of the review harness). *)
From Coq Require Import List NArith Bool Arith.
Import ListNotations.
From Adeu Require Import Str Doc Prims Project DocOps Inst Engine EngineProofs AnchorProofs.

(* attaching a (non-empty) comment adds EXACTLY ONE record: next free id, the session's author and date, the text *)
Theorem C10_attach_one : forall e su eu c t,
  d_comments (e_doc (attach e su eu (c :: t))) =
  d_comments (e_doc e) ++ [{| c_id := str_of_nat (e_next_c e); c_author := e_author e; c_date := e_ts e; c_text := c :: t; c_parent := None |}]
  /\ e_next_c (attach e su eu (c :: t)) = S (e_next_c e).
Proof. exact attach_one_comment. Qed.
Print Assumptions C10_attach_one.
Theorem C10_no_comment_no_record : forall e su eu, attach e su eu [] = e.
Proof. exact attach_no_comment. Qed.
Print Assumptions C10_no_comment_no_record.
(* existing comments keep their records (text, author, date, parent) and their anchors: the batch result, with the
   session rejected, has the input's tapes (anchors are atoms of the tape) and the input's records as a prefix *)
Theorem C10_existing_kept : forall d author ts edits orc,
  let nd := normalize_doc d in
  let '(d', _, _, _, nn) := apply_edits d author ts edits orc in (wf_ids nd -> nn = 0 -> RelG (scan_ids nd) (next_comment_id nd) (d_next_uid nd) nd d').
Proof. intros d author ts edits orc. pose proof (engine_contract d author ts edits orc) as H. cbn zeta in *.
  destruct (apply_edits d author ts edits orc) as [[[[d' ap] sk] out] nn]. exact (proj1 H). Qed.
Print Assumptions C10_existing_kept.

(* multi-line / heading new text: a commented block insertion adds exactly one record too - on the heading path track_insert
   attaches it to the created paragraphs itself and hands no inline element back, otherwise it adds none and the caller
   attaches the one comment to the inline w:ins it gets back *)
Theorem C10_block_one_comment : forall e text anc cur c t sup,
  let r := track_insert e text anc cur (c :: t) sup in
  d_comments (e_doc (fst r)) = d_comments (e_doc e) ++
    match snd r with
    | Some _ => []
    | None => [{| c_id := str_of_nat (e_next_c e); c_author := e_author e; c_date := e_ts e; c_text := c :: t; c_parent := None |}]
    end.
Proof. exact track_insert_one_comment. Qed.
Print Assumptions C10_block_one_comment.

(* anchored on the change: attaching is ONE uid-addressed anchor primitive applied to the whole document, with the elements the
   edit created as its two ends (apply_indexed passes: first / last w:del of a deletion; first w:del and the w:ins of a
   replacement; the w:ins of an insertion; the first / last created w:ins of a block insertion) ... *)
Theorem C10_attach_is_anchor : forall e su eu c t,
  e_doc (attach e su eu (c :: t)) =
  upd_doc (anchor su eu (str_of_nat (e_next_c e)) (d_next_uid (e_doc e)) rpr_cref)
    {| d_stories := d_stories (e_doc e); d_next_uid := S (d_next_uid (e_doc e));
       d_comments := d_comments (e_doc e) ++ [{| c_id := str_of_nat (e_next_c e); c_author := e_author e; c_date := e_ts e; c_text := c :: t; c_parent := None |}] |}.
Proof. reflexivity. Qed.
Print Assumptions C10_attach_is_anchor.
(* ... and in a node list where those two identities occur exactly once, that primitive puts the range start immediately before
   the first element and the range end plus the reference run immediately after the last one: the range covers exactly the
   revision marks the edit created and what lies between them *)
Theorem C10_range_around : forall su eu cid ru rf pre n1 mid n2 post,
  has_uid su n1 = true -> has_uid eu n1 = false -> has_uid eu n2 = true -> has_uid su n2 = false ->
  Forall (fun n => mentions su n = false /\ mentions eu n = false) (pre ++ mid ++ post) ->
  upd_l (anchor su eu cid ru rf) (pre ++ [n1] ++ mid ++ [n2] ++ post) =
  pre ++ [NCrs cid; n1] ++ mid ++ [n2; NCre cid; NRun ru rf [CRef cid]] ++ post.
Proof. exact anchor_range. Qed.
Print Assumptions C10_range_around.
Theorem C10_range_single : forall su cid ru rf pre n post, has_uid su n = true ->
  Forall (fun x => mentions su x = false) (pre ++ post) ->
  upd_l (anchor su su cid ru rf) (pre ++ [n] ++ post) = pre ++ [NCrs cid; n; NCre cid; NRun ru rf [CRef cid]] ++ post.
Proof. exact anchor_single. Qed.
Print Assumptions C10_range_single.
