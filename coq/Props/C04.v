(* C04 - the text projection is complete, ordered and correctly annotated.  ONLY statements + Print Assumptions. *)
From Coq Require Import List NArith Bool Arith.
Import ListNotations.
From Adeu Require Import Str Doc ParaMachine Project DocOps ReviewProofs ProjProofs.

(* whole document: the real (non-virtual) text of the projection is the real text of every paragraph of every story -
   headers, body with nested tables, footers - exactly once, in document order, in both views; for all character classes *)
Theorem C04_doc_complete : forall isspace iup ilow otext clean d,
  sreal (doc_spans isspace iup ilow otext clean d) = flat_map (para_real clean (d_comments d)) (doc_paras d).
Proof. exact doc_spans_complete. Qed.
Print Assumptions C04_doc_complete.

(* one paragraph, raw view: its real text is every character of its tape - ordinary, inserted AND deleted - once, in
   order (a tab is shown as a space), whatever wrappers and metadata surround it *)
Theorem C04_para_raw : forall cm ns, wf_nodes ns = true ->
  real_text (para_parts false cm ns) = vis (txt (atoms_l [] ns)).
Proof. intros cm ns H. rewrite para_parts_complete. now apply items_raw_text. Qed.
Print Assumptions C04_para_raw.

(* accepted view: the same minus everything under a deletion (the accepted view of the tape) *)
Theorem C04_para_clean : forall cm ns, wf_nodes ns = true ->
  real_text (para_parts true cm ns) = vis (txt (flat_map acc_view (atoms_l [] ns))).
Proof. intros cm ns H. rewrite para_parts_complete. now apply items_clean_text. Qed.
Print Assumptions C04_para_clean.

(* bold/italic markers never enclose a line break: inside a formatted run every real piece is free of line breaks or IS the
   line break, which is emitted outside the markers *)
Theorem C04_newline_isolation : forall uid pre suf text, (pre <> [] \/ suf <> []) -> Forall nl_ok (run_parts uid pre suf text).
Proof. exact newline_isolation. Qed.
Print Assumptions C04_newline_isolation.
