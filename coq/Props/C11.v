(* C11 - everything outside the edited story is preserved at package level.  ONLY statements + Print Assumptions.
   Partial by nature: that python-docx re-serialises the parts it parses to canonically equal XML and keeps the others
   byte-identical is library behaviour; it is assumed by the model (save = identity on parts) and CHECKED on real packages. *)
From Coq Require Import List NArith Bool Arith.
Import ListNotations.
From Adeu Require Import Str Doc Project DocOps Inst Engine Package PackageProofs EngineProofs.

(* what every engine / mapper construction does to the package: existing parts and main-document relationships stay, in
   order; only comment-family parts / relationships are added *)
Theorem C11_package_frame : forall p,
  (exists np, parts (ensure_comment_parts p) = parts p ++ np /\ Forall (fun x => is_comment_family (pt_ctype x) = true) np)
  /\ prefix_of (rels p) (rels (ensure_comment_parts p)).
Proof. exact ensure_comment_parts_frame. Qed.
Print Assumptions C11_package_frame.
(* comment parts are discovered by content type: an existing one (under any name) is reused, never duplicated *)
Theorem C11_no_duplicate_part : forall c r base p x, find_ctype c p = Some x -> parts (ensure c r base p) = parts p.
Proof. exact ensure_no_dup. Qed.
Print Assumptions C11_no_duplicate_part.
Theorem C11_part_present_and_linked : forall c r base p,
  exists x, find_ctype c (ensure c r base p) = Some x /\ related (pt_name x) (ensure c r base p) = true.
Proof. exact ensure_present. Qed.
Print Assumptions C11_part_present_and_linked.
(* inside the stories: paragraph properties, styles, tables/cells and untargeted paragraphs are retained (story skeleton and
   per-paragraph tapes of the session-rejected result = those of the input) *)
Theorem C11_story_frame : forall d author ts edits orc,
  let nd := normalize_doc d in
  let '(d', _, _, _, nn) := apply_edits d author ts edits orc in (wf_ids nd -> nn = 0 -> RelG (scan_ids nd) (next_comment_id nd) (d_next_uid nd) nd d').
Proof. intros d author ts edits orc. pose proof (engine_contract d author ts edits orc) as H. cbn zeta in *.
  destruct (apply_edits d author ts edits orc) as [[[[d' ap] sk] out] nn]. exact (proj1 H). Qed.
Print Assumptions C11_story_frame.
