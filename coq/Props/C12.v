(* C12 - applying the diff of a rewritten text reproduces that text.  ONLY statements + Print Assumptions.
   The pipeline is diff -> offset-addressed edits -> engine -> accept-all -> extraction. Each stage has its own theorem; the
   composed end-to-end equation is NOT proved (it needs the accepted-text theorem of C02) and is decided by the oracle. *)
From Coq Require Import List NArith Bool Arith.
Import ListNotations.
From Adeu Require Import Str Doc Diff Project DocOps Review Inst Engine DiffProofs ReviewProofs EngineProofs.

(* stage 1: the edit script computed from a contract-satisfying diff turns text 1 into text 2 exactly *)
Theorem C12_script_exact : forall ds t1 t2, valid_diff ds t1 t2 -> apply_script (edits_of_diffs t1 ds) t1 0 = Some t2.
Proof. exact DiffProofs.C13_exact. Qed.
Print Assumptions C12_script_exact.
(* stage 2: the offsets of that script are offsets of the text the writer indexes *)
Theorem C12_same_coordinates : forall clean d, map_text (build_map clean (d_comments d) d) = extract_u clean d.
Proof. exact map_text_is_extract. Qed.
Print Assumptions C12_same_coordinates.
(* stage 3: every edit of the script is accounted for, and the engine only adds session marks *)
Theorem C12_engine : forall d author ts edits orc,
  let nd := normalize_doc d in
  let '(d', ap, sk, out, nn) := apply_edits d author ts edits orc in
  (wf_ids nd -> nn = 0 -> RelG (scan_ids nd) (next_comment_id nd) (d_next_uid nd) nd d') /\ (out = 0 -> ap + sk = length edits).
Proof. exact engine_contract. Qed.
Print Assumptions C12_engine.
(* stage 4: accept-all is the accepted view of the tape *)
Theorem C12_accept_all : forall n st, existsb is_del st = false -> atoms_l [] (accept_all_node n) = flat_map acc_view (atoms st n).
Proof. exact accept_all_spec. Qed.
Print Assumptions C12_accept_all.
