(* C03 - reader offsets and writer offsets denote the same characters.  ONLY statements + Print Assumptions (partial: the
   text identity and the neutrality of range resolution are theorems; "changes exactly those characters" is decided by the
   model/implementation correspondence on offset-addressed edits and by the oracle). *)
From Coq Require Import List NArith Bool Arith.
Import ListNotations.
From Adeu Require Import Str Doc ParaMachine Project DocOps Inst Engine ReviewProofs ProjProofs EngineProofs.

(* the text the writer indexes IS the text the reader returns, for every document and both views: one projection, proved
   once; each Python implementation is tied to it by correspondence *)
Theorem C03_same_text : forall clean d, map_text (build_map clean (d_comments d) d) = extract_u clean d.
Proof. exact map_text_is_extract. Qed.
Print Assumptions C03_same_text.
(* the real characters of that text are the tape's characters in order: an offset over real characters names a document
   character (raw view: ordinary, inserted and deleted; accepted view: without the deleted ones) *)
Theorem C03_offsets_name_characters : forall clean cm ns, wf_nodes ns = true ->
  real_text (para_parts clean cm ns) = vis (txt (if clean then flat_map acc_view (atoms_l [] ns) else atoms_l [] ns)).
Proof. intros clean cm ns H. rewrite para_parts_complete. destruct clean; [now apply items_clean_text|now apply items_raw_text]. Qed.
Print Assumptions C03_offsets_name_characters.
(* resolving a character range to runs (splitting runs at both ends) and choosing an insertion anchor never change the
   document's tape, skeleton or comments - only run boundaries move *)
Theorem C03_resolve_neutral : forall d sp a b, ARel d (fst (fst (resolve d sp a b))).
Proof. exact resolve_keeps_tape. Qed.
Print Assumptions C03_resolve_neutral.
Theorem C03_anchor_neutral : forall d sp i, ARel d (fst (insertion_anchor d sp i)).
Proof. exact anchor_keeps_tape. Qed.
Print Assumptions C03_anchor_neutral.
