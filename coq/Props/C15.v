(* C15 - preview and commit agree on what will change.  ONLY statements + Print Assumptions.
   Both sides are modelled (Markup.v for the preview, Engine.v for the commit) and each is tied to its implementation by
   correspondence; what is proved is what each side guarantees alone; their agreement is decided differentially. *)
From Coq Require Import List NArith Bool Arith.
Import ListNotations.
From Adeu Require Import Str Markup MarkupProofs Doc Project DocOps Inst Engine EngineProofs Project MatchProofs BridgeProofs.

(* preview side: the marked edits have non-empty, pairwise non-overlapping ranges that are the matcher's answers, indexed by
   their position in the submitted list *)
Theorem C15_preview_selected : forall text es,
  let sel := select text es 0 [] in
  Forall (fun m => fst (rng m) <> snd (rng m) /\ nth_error es (snd m) = Some (snd (fst m))
                   /\ Markup.find_match text (me_target (snd (fst m))) (me_fuzzy (snd (fst m))) = Some (rng m)) sel
  /\ ForallOrdPairs (fun a b => ~ (fst (rng b) < snd (rng a) /\ fst (rng a) < snd (rng b))) sel.
Proof. intros text es. destruct (select_spec text es 0 []) as [A B]. split; [|exact B].
  eapply Forall_impl; [|exact A]. intros m (H0 & _ & _ & H3 & H4). rewrite Nat.sub_0_r in H3. auto. Qed.
Print Assumptions C15_preview_selected.
(* commit side: every submitted edit is either applied or skipped, and only session marks are added *)
Theorem C15_commit : forall d author ts edits orc,
  let nd := normalize_doc d in
  let '(d', ap, sk, out, nn) := apply_edits d author ts edits orc in
  (wf_ids nd -> nn = 0 -> RelG (scan_ids nd) (next_comment_id nd) (d_next_uid nd) nd d') /\ (out = 0 -> ap + sk = length edits).
Proof. exact engine_contract. Qed.
Print Assumptions C15_commit.
(* both start from the same text: the preview is computed on extract, the commit indexes the same string *)
Theorem C15_same_text : forall clean d, map_text (build_map clean (d_comments d) d) = extract_u clean d.
Proof. exact map_text_is_extract. Qed.
Print Assumptions C15_same_text.

(* the exact stages of the two matchers agree: an exact, unique, marker-free target that stands on live document text is taken at the
   same range by the preview's text-side matcher and by the commit's document-side matcher on the map of the same view (the fuzzy
   answer fz is never consulted) *)
Theorem C15_exact_unique_same_place : forall sp t i fz,
  t <> [] -> ~ In c_star t -> ~ In c_us t ->
  Markup.find t (map_text sp) = Some i ->
  (forall k, k <= length (map_text sp) -> prefixb t (skipn k (map_text sp)) = true -> k = i) ->
  touches_real sp i (i + length t) = true ->
  find_on sp t = Some i /\ Markup.find_match (map_text sp) t fz = Some (i, i + length t).
Proof. exact exact_unique_same_place. Qed.
Print Assumptions C15_exact_unique_same_place.
(* the hypotheses are satisfiable: text "ab|cb" where "ab|" is generated text and "cb" a run; the target "cb" *)
Example C15_same_place_nonvacuous :
  let sp := [ {| o_start := 0; o_end := 3; o_text := [97; 98; 124]%N; o_real := false; o_uid := 0; o_pid := None; o_ins := None; o_del := None |};
              {| o_start := 3; o_end := 5; o_text := [99; 98]%N; o_real := true; o_uid := 1; o_pid := Some 1; o_ins := None; o_del := None |} ] in
  Markup.find [99; 98]%N (map_text sp) = Some 3 /\ touches_real sp 3 5 = true /\ find_on sp [99; 98]%N = Some 3
  /\ find_on sp [98]%N = Some 4 (* the "b" of the generated text is passed over *).
Proof. vm_compute. repeat split. Qed.
