(* C02 - accepting the changes yields exactly the requested text.  ONLY statements + Print Assumptions.
   What is proved here is the part of C02 that is pure arithmetic on strings and spans; the end-to-end clause (accepted text =
   input with each target replaced) is decided by the model/implementation correspondence and the independent oracle. *)
From Coq Require Import List NArith Bool Arith.
Import ListNotations.
From Adeu Require Import Str Doc Trim ParaMachine Project DocOps Inst Engine TrimProofs ReviewProofs ProjProofs MatchProofs EngineProofs.

(* context trimming never trims more than the two texts share, for EVERY pair of texts and every isspace:
   p + s <= min(|t|,|n|), the first p characters agree, the last s characters agree - so replacing t[p..|t|-s) by n[p..|n|-s)
   at offset a+p is replacing t by n at a, however much prefix or suffix they have in common *)
Theorem C02_trim_contract : forall isspace t n, Good t n (trim isspace t n).
Proof. exact trim_contract. Qed.
Print Assumptions C02_trim_contract.

(* the real spans the writer indexes are exactly the characters of the paragraph's tape, in order (both views): an offset
   range over real characters of the extracted text denotes those characters of the document *)
Theorem C02_spans_raw : forall cm ns, wf_nodes ns = true -> real_text (para_parts false cm ns) = vis (txt (atoms_l [] ns)).
Proof. intros cm ns H. rewrite para_parts_complete. now apply items_raw_text. Qed.
Print Assumptions C02_spans_raw.

(* whatever the batch does, it only adds session marks around / next to existing content (so "nothing else dropped,
   duplicated or moved" for everything that is not inside a session mark) *)
Theorem C02_patch_only : forall d author ts edits orc,
  let nd := normalize_doc d in
  let '(d', _, _, _, nn) := apply_edits d author ts edits orc in (wf_ids nd -> nn = 0 -> RelG (scan_ids nd) (next_comment_id nd) (d_next_uid nd) nd d').
Proof. intros d author ts edits orc. pose proof (engine_contract d author ts edits orc) as H. cbn zeta in *.
  destruct (apply_edits d author ts edits orc) as [[[[d' ap] sk] out] nn]. exact (proj1 H). Qed.
Print Assumptions C02_patch_only.

(* where an exactly quoted target is looked up (fixes D54, D55): at its FIRST occurrence in the projected text that touches text of
   the document itself and no tracked deletion - the target stands there, at least one character position of a span with a run is
   covered, no covered span is deleted text, and every earlier occurrence lies wholly in generated text (comment / change metadata,
   markers, separators) or reaches into a deletion (touches_real false) *)
Theorem C02_exact_match_on_document_text : forall sp t i, find_on sp t = Some i ->
  firstn (length t) (skipn i (map_text sp)) = t
  /\ (exists x, In x sp /\ o_real x = true /\ i < o_end x /\ o_start x < i + length t)
  /\ (forall x, In x sp -> o_real x = true -> i < o_end x -> o_start x < i + length t -> is_some_nonempty (o_del x) = false)
  /\ (forall k, k < i -> prefixb t (skipn k (map_text sp)) = true -> touches_real sp k (k + length t) = false).
Proof. exact find_on_spec. Qed.
Print Assumptions C02_exact_match_on_document_text.

(* ... and when the exact stage reports nothing, every occurrence of the target lies wholly in generated text or reaches into a
   tracked deletion *)
Theorem C02_no_exact_match_only_generated : forall sp t k, find_on sp t = None -> k <= length (map_text sp) ->
  prefixb t (skipn k (map_text sp)) = true -> touches_real sp k (k + length t) = false.
Proof. exact find_on_none. Qed.
Print Assumptions C02_no_exact_match_only_generated.

(* such a match is what the edit is applied to: the raw map, that position, no approximate answer consulted *)
Theorem C02_exact_match_used : forall s t orc i, find_on (s_raw s) t = Some i -> locate s t orc = (Some (i, length t), false, s, orc).
Proof. exact locate_exact. Qed.
Print Assumptions C02_exact_match_used.

(* the range the exact stage reports lies inside the projected text *)
Theorem C02_exact_match_in_range : forall sp t i, find_on sp t = Some i -> i + length t <= length (map_text sp).
Proof. exact find_on_in_range. Qed.
Print Assumptions C02_exact_match_in_range.

(* where context trimming cuts (fix D48): before the two whole-delimiter absorptions, each cut either vanishes or stands where it does
   not halve a ** delimiter and the trimmed context keeps balanced ** and _ counts - for every pair of texts and every isspace *)
Theorem C02_trim_cuts : forall isspace t n, t <> [] -> n <> [] ->
  exists p s, trim isspace t n = absorb t n [c_us] (absorb t n [c_star; c_star] (p, s))
    /\ (p = 0 \/ (unbalanced (firstn p t) = false /\ splits_star t p = false))
    /\ (s = 0 \/ (unbalanced (lastn s t) = false /\ splits_star t (length t - s) = false)).
Proof. exact trim_cuts. Qed.
Print Assumptions C02_trim_cuts.

(* what trimming is for: the engine replaces only the untrimmed middle t[p..|t|-s) by n[p..|n|-s), in place - and that IS replacing
   the whole target by the whole new text, in every surrounding text (pre, post arbitrary), whenever the cuts satisfy the contract
   (which C02_trim_contract gives for every pair of texts) *)
Theorem C02_trim_replace : forall (t n : str) p s (pre post : str), Good t n (p, s) ->
  firstn (length pre + p) (pre ++ t ++ post) ++ slice n p (length n - s) ++ skipn (length pre + (length t - s)) (pre ++ t ++ post)
  = pre ++ n ++ post.
Proof. exact trim_replace. Qed.
Print Assumptions C02_trim_replace.
Theorem C02_trimmed_edit_is_the_edit : forall isspace (t n pre post : str),
  let '(p, s) := trim isspace t n in
  firstn (length pre + p) (pre ++ t ++ post) ++ slice n p (length n - s) ++ skipn (length pre + (length t - s)) (pre ++ t ++ post)
  = pre ++ n ++ post.
Proof. intros isspace t n pre post. pose proof (trim_contract isspace t n) as H. destruct (trim isspace t n) as [p s]. now apply trim_replace. Qed.
Print Assumptions C02_trimmed_edit_is_the_edit.

(* the smart-quote stage of the matcher (the second stage, tried when the exact stage finds nothing): the text at the place it reports
   equals the target up to quote style, character for character, inside the projected text, touching text of the document itself and
   no tracked deletion, and it is the first such place *)
Theorem C02_quote_match_denotes_target : forall sp t i, find_quote sp t = Some i ->
  map qn (firstn (length t) (skipn i (map_text sp))) = map qn t
  /\ i + length t <= length (map_text sp)
  /\ (exists x, In x sp /\ o_real x = true /\ i < o_end x /\ o_start x < i + length t)
  /\ (forall x, In x sp -> o_real x = true -> i < o_end x -> o_start x < i + length t -> is_some_nonempty (o_del x) = false)
  /\ (forall k, k < i -> prefixb (map qn t) (skipn k (map qn (map_text sp))) = true -> touches_real sp k (k + length t) = false).
Proof. exact find_quote_spec. Qed.
Print Assumptions C02_quote_match_denotes_target.

(* ... it is the answer the matcher gives then (no recorded answer of the later stages is consulted) ... *)
Theorem C02_quote_match_used : forall sp t orc i, find_on sp t = None -> find_quote sp t = Some i -> find_match sp t orc = (Some (i, length t), orc).
Proof. exact find_match_quote_used. Qed.
Print Assumptions C02_quote_match_used.

(* ... and where neither text nor target carries a typographic quote it is the exact stage *)
Theorem C02_quote_stage_plain : forall sp t, (forall c, In c t -> qn c = c) -> (forall c, In c (map_text sp) -> qn c = c) -> find_quote sp t = find_on sp t.
Proof. exact find_quote_plain. Qed.
Print Assumptions C02_quote_stage_plain.

(* fix D44 with the quote stage modelled: when the raw view has no exact occurrence of the target, an exact accepted-view occurrence on document
   text is the place the edit is applied to, on the accepted-view map - whatever the quote stage or a later stage answered on the raw view (that
   answer is consumed and dropped) *)
Theorem C02_exact_accepted_match_beats_approximate : forall s t orc i, find_on (s_raw s) t = None -> find_on (clean_of s) t = Some i ->
  fst (fst (fst (locate s t orc))) = Some (i, length t) /\ snd (fst (fst (locate s t orc))) = true
  /\ snd (locate s t orc) = snd (approx (s_raw s) t orc).
Proof. exact locate_clean_exact. Qed.
Print Assumptions C02_exact_accepted_match_beats_approximate.

(* ... and when neither view has an exact occurrence, a raw-view quote-stage answer is the one used, on the raw map, no recorded answer consumed *)
Theorem C02_quote_match_raw_used : forall s t orc i, find_on (s_raw s) t = None -> find_on (clean_of s) t = None -> find_quote (s_raw s) t = Some i ->
  fst (fst (fst (locate s t orc))) = Some (i, length t) /\ snd (fst (fst (locate s t orc))) = false /\ snd (locate s t orc) = orc.
Proof. exact locate_quote_raw. Qed.
Print Assumptions C02_quote_match_raw_used.

(* the hypotheses of the quote-stage theorems are satisfiable: the text is one run holding a typographic-quoted letter, the target names it with
   straight quotes - the exact stage finds nothing, the quote stage finds it at 0 *)
Example C02_quote_stage_nonvacuous :
  let sp := [ {| o_start := 0; o_end := 3; o_text := [8220; 97; 8221]%N; o_real := true; o_uid := 1; o_pid := Some 1; o_ins := None; o_del := None |} ] in
  find_on sp [34; 97; 34]%N = None /\ find_quote sp [34; 97; 34]%N = Some 0.
Proof. vm_compute. split; reflexivity. Qed.
