(* C16 - inserted text blends in.  ONLY statements + Print Assumptions (partial: inheritance of formatting tokens, the
   bold toggle, literal insertion without spans are theorems; choice of the style source and rendering of nested spans are
   decided by the correspondence and the oracle). *)
From Coq Require Import List NArith Bool Arith.
Import ListNotations.
From Adeu Require Import Str Doc Project Inst Engine EngineProofs.

(* every run created for inserted text carries ALL formatting tokens of its style source other than the bold / italic
   toggles, in the same order (font, size, colour, character style are inherited, never replaced by defaults) *)
Theorem C16_inherits : forall f b i sup,
  others (match apply_run_props f b i sup with Some l => l | None => [] end) = others (match f with Some l => l | None => [] end).
Proof. exact apply_run_props_inherits. Qed.
Print Assumptions C16_inherits.
(* a **bold** segment becomes a run whose bold toggle is on, whatever the source had (also an explicit w:b w:val="0") *)
Theorem C16_bold_on : forall f i sup, prop_on t_b (apply_run_props f true i sup) = true.
Proof. exact apply_run_props_bold. Qed.
Print Assumptions C16_bold_on.
(* new text without a well-formed span is inserted literally, as one run, character for character *)
Theorem C16_literal : forall isspace isword fuel s b i, s <> [] -> search isspace isword s None 0 = None ->
  parse_inline isspace isword (S fuel) s b i = [(s, b, i)].
Proof. exact parse_inline_literal. Qed.
Print Assumptions C16_literal.
