(* C16 - inserted text blends in.  ONLY statements + Print Assumptions (partial: inheritance of formatting tokens, the
   bold toggle, literal insertion without spans are theorems; choice of the style source and rendering of nested spans are
   decided by the correspondence and the oracle). *)
From Coq Require Import List NArith Bool Arith.
Import ListNotations.
From Adeu Require Import Str Doc Project Inst Engine BlockProofs EngineProofs.

(* every run created for inserted text carries ALL formatting tokens of its style source other than the bold / italic
   toggles, in the same order (font, size, colour, character style are inherited, never replaced by defaults) *)
Theorem C16_inherits : forall f b i sup,
  others (match apply_run_props f b i sup with Some l => l | None => [] end) = others (match f with Some l => l | None => [] end).
Proof. exact apply_run_props_inherits. Qed.
Print Assumptions C16_inherits.
(* a **bold** segment becomes a run whose bold toggle is on, whatever the source had (also an explicit w:b w:val="0") *)
Theorem C16_bold_on : forall f i sup, prop_on t_b (apply_run_props f true i sup) = true.
Proof. exact apply_run_props_bold. Qed.
Print Assumptions C16_bold_on.
(* new text without a well-formed span is inserted literally, as one run, character for character *)
Theorem C16_literal : forall isspace isword fuel s b i, s <> [] -> search isspace isword s None 0 = None ->
  parse_inline isspace isword (S fuel) s b i = [(s, b, i)].
Proof. exact parse_inline_literal. Qed.
Print Assumptions C16_literal.

(* '# ' lines become heading-styled paragraphs: k >= 1 '#' and a space make a heading line of level k whose text is the rest,
   stripped; the paragraph created for a line holds one w:ins with the line's runs (formatted as above), a heading line gets
   the heading style, any other line a copy of the current paragraph's properties and style *)
Theorem C16_heading_line : forall k t, md_style (repeat c_hashN (S k) ++ 32%N :: t) = (strip_ws (32%N :: t), Some (S k)).
Proof. exact md_style_heading. Qed.
Print Assumptions C16_heading_line.
Theorem C16_plain_line : forall c s, N.eqb c c_hashN = false -> md_style (c :: s) = (c :: s, None).
Proof. exact md_style_plain. Qed.
Print Assumptions C16_plain_line.
Theorem C16_new_paragraph : forall e text anc sup st cur,
  let '(_, p, iu) := new_para e text anc sup st cur in
  p_nodes p = [snd (ins_inline e text anc sup)] /\ iu = node_uid (snd (ins_inline e text anc sup)) /\
  p_style p = match st with Some l => PSHeading l | None => p_style cur end /\
  p_ppr p = match st with Some _ => 0%N | None => ppr_no_sect (p_ppr cur) end.
Proof. exact new_para_shape. Qed.
Print Assumptions C16_new_paragraph.

(* where the created paragraphs go: the paragraphs made for lines 0 .. n-1 stand, in that order, directly after the paragraph
   addressed, in ITS block list (its story, its table cell) - whatever else that list holds before and after it *)
Theorem C16_new_paragraphs_follow_their_anchor : forall pid q ps pre post, p_id q = pid ->
  Forall (fun b => match b with BPara p => p_id p <> pid | _ => True end) pre ->
  place_here pid (combine (seq 0 (length ps)) ps) (pre ++ BPara q :: post) = pre ++ BPara q :: map BPara ps ++ post.
Proof. exact place_here_after. Qed.
Print Assumptions C16_new_paragraphs_follow_their_anchor.
