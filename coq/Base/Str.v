From Coq Require Import List NArith Bool Arith Lia.
Import ListNotations.
Definition char := N.
Definition str := list char.
Definition ch_eqb : char -> char -> bool := N.eqb.
Fixpoint str_eqb (a b : str) : bool :=
  match a, b with
  | [], [] => true
  | x :: a', y :: b' => ch_eqb x y && str_eqb a' b'
  | _, _ => false
  end.
Fixpoint prefixb (p s : str) : bool :=
  match p, s with
  | [], _ => true
  | x :: p', y :: s' => ch_eqb x y && prefixb p' s'
  | _ :: _, [] => false
  end.
Definition suffixb (p s : str) : bool := prefixb (rev p) (rev s).
(* Python str.count for a non-empty needle: non-overlapping, left to right *)
Fixpoint count_from (fuel : nat) (needle s : str) : nat :=
  match fuel with
  | 0 => 0
  | S f =>
    match s with
    | [] => 0
    | _ :: s' => if prefixb needle s then S (count_from f needle (skipn (length needle) s))
                 else count_from f needle s'
    end
  end.
Definition count (needle s : str) : nat := count_from (S (length s)) needle s.
Fixpoint common_prefix (a b : str) : nat :=
  match a, b with
  | x :: a', y :: b' => if ch_eqb x y then S (common_prefix a' b') else 0
  | _, _ => 0
  end.
Definition nthc (s : str) (i : nat) : char := nth i s 0%N.
Definition slice (s : str) (a b : nat) : str := firstn (b - a) (skipn a s).
Definition lastn (n : nat) (s : str) : str := skipn (length s - n) s.
(* "while k > 0 and P k: k -= 1" *)
Fixpoint back (P : nat -> bool) (k : nat) : nat :=
  match k with 0 => 0 | S k' => if P k then back P k' else k end.
Definition c_nl : char := 10%N. Definition c_hash : char := 35%N.
Definition c_star : char := 42%N. Definition c_us : char := 95%N. Definition c_sp : char := 32%N.
