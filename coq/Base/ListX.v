From Coq Require Import List NArith Bool Arith Lia.
Import ListNotations.
From Adeu Require Import Str.
Lemma ch_eqb_eq a b : ch_eqb a b = true <-> a = b. Proof. apply N.eqb_eq. Qed.
Lemma str_eqb_eq a b : str_eqb a b = true <-> a = b.
Proof. revert b; induction a as [|x a IH]; intros [|y b]; simpl; split; intros H; try discriminate; auto.
  - apply andb_true_iff in H as [H1 H2]. apply ch_eqb_eq in H1. apply IH in H2. congruence.
  - inversion H; subst. apply andb_true_iff; split; [now apply ch_eqb_eq|now apply IH]. Qed.
Lemma firstn_add {A} a b (l : list A) : firstn (a + b) l = firstn a l ++ firstn b (skipn a l).
Proof. revert l; induction a; intros l; simpl; auto. destruct l; simpl; [now rewrite firstn_nil|]. now rewrite IHa. Qed.
Lemma skipn_skipn' {A} a b (l : list A) : skipn a (skipn b l) = skipn (b + a) l.
Proof. revert l; induction b; intros l; simpl; auto. destruct l; [now rewrite !skipn_nil|apply IHb]. Qed.
Lemma slice_nil (t : str) a : slice t a a = [].
Proof. unfold slice. now rewrite Nat.sub_diag. Qed.
Lemma slice_app (t : str) a b c : a <= b -> b <= c -> slice t a b ++ slice t b c = slice t a c.
Proof. intros H1 H2. unfold slice.
  replace (c - a) with ((b - a) + (c - b)) by lia.
  rewrite firstn_add. f_equal. rewrite skipn_skipn'. do 2 f_equal. lia. Qed.
Lemma slice_to_end (t : str) a : slice t a (length t) = skipn a t.
Proof. unfold slice. apply firstn_all2. rewrite skipn_length. lia. Qed.
Lemma slice_length (t : str) a b : b <= length t -> length (slice t a b) = b - a.
Proof. intros H. unfold slice. rewrite firstn_length, skipn_length. lia. Qed.
Lemma skipn_app_prefix (t x r : str) c : skipn c t = x ++ r -> slice t c (c + length x) = x.
Proof. intros H. unfold slice. replace (c + length x - c) with (length x) by lia. rewrite H.
  rewrite firstn_app, Nat.sub_diag, firstn_all. simpl. apply app_nil_r. Qed.
Lemma skipn_app_rest (t x r : str) c : skipn c t = x ++ r -> skipn (c + length x) t = r.
Proof. intros H. rewrite <- skipn_skipn', H. rewrite skipn_app, skipn_all, Nat.sub_diag. reflexivity. Qed.
Lemma skipn_len_le (t x r : str) c : c <= length t -> skipn c t = x ++ r -> c + length x <= length t.
Proof. intros Hc H. assert (L : length (skipn c t) = length (x ++ r)) by now rewrite H.
  rewrite skipn_length, app_length in L. lia. Qed.
