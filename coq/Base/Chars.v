(* Character classes. Theorems are generic in the class predicates (section variables); these tables instantiate
   them for running the model. They are compared with Python (str.isspace, re \w = isalnum or '_') on every
   character the generators use, and swept over the whole table range in the thorough tier. *)
From Coq Require Import NArith Bool List.
Import ListNotations.
From Adeu Require Import Str.
Definition in_rng (a b c : N) : bool := N.leb a c && N.leb c b.
(* Python str.isspace, complete over Unicode *)
Definition isspace_u (c : char) : bool :=
  in_rng 9 13 c || in_rng 28 32 c || N.eqb c 133 || N.eqb c 160 || N.eqb c 5760 || in_rng 8192 8202 c
  || N.eqb c 8232 || N.eqb c 8233 || N.eqb c 8239 || N.eqb c 8287 || N.eqb c 12288.
(* Python \w (str.isalnum or '_'), exact on U+0000..U+00FF; above that only what is listed (letters of Latin Extended-A/B,
   Greek, Cyrillic blocks are treated as word characters; everything else as non-word) *)
Definition isword_u (c : char) : bool :=
  in_rng 48 57 c || in_rng 65 90 c || in_rng 97 122 c || N.eqb c 95
  || N.eqb c 170 || N.eqb c 178 || N.eqb c 179 || N.eqb c 181 || N.eqb c 185 || N.eqb c 186 || in_rng 188 190 c
  || in_rng 192 214 c || in_rng 216 246 c || in_rng 248 591 c.
Definition isupper_u (c : char) : bool := in_rng 65 90 c || in_rng 192 214 c || in_rng 216 222 c.
