(* Document-level traversals: apply a paragraph-node transformer everywhere; normalisation of a whole document. *)
From Coq Require Import List NArith Bool Arith.
Import ListNotations.
From Adeu Require Import Str Doc Norm ParaMachine Project.

Fixpoint map_block (f : para -> para) (b : block) : block :=
  match b with
  | BPara p => BPara (f p)
  | BTbl t rows => BTbl t (map (fun r => map (fun c => (fst c, map (map_block f) (snd c))) r) rows)
  end.
Definition map_story f (s : story) : story := {| s_kind := s_kind s; s_blocks := map (map_block f) (s_blocks s) |}.
Definition map_doc (f : para -> para) (d : doc) : doc :=
  {| d_stories := map (map_story f) (d_stories d); d_comments := d_comments d; d_next_uid := d_next_uid d |}.
Definition with_nodes (p : para) (ns : list node) : para := {| p_id := p_id p; p_ppr := p_ppr p; p_style := p_style p; p_nodes := ns |}.

(* normalize_docx: proofErr elements are removed from the MAIN document part only (doc.element.xpath), runs are coalesced in
   every story *)
Definition coalesce_para (ns : list node) : list node := coalesce (length ns) ns.
Definition normalize_story (s : story) : story :=
  if N.eqb (s_kind s) 1 then map_story (fun p => with_nodes p (normalize_para (p_nodes p))) s
  else map_story (fun p => with_nodes p (coalesce_para (p_nodes p))) s.
Definition normalize_doc (d : doc) : doc :=
  {| d_stories := map normalize_story (d_stories d); d_comments := d_comments d; d_next_uid := d_next_uid d |}.

(* all paragraphs in document order *)
Fixpoint block_paras (b : block) : list para :=
  match b with
  | BPara p => [p]
  | BTbl _ rows => flat_map (fun r => flat_map (fun c => flat_map block_paras (snd c)) r) rows
  end.
Definition doc_paras (d : doc) : list para := flat_map (fun s => flat_map block_paras (s_blocks s)) (d_stories d).
