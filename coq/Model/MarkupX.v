From Coq Require Import List NArith Bool Arith Lia.
Import ListNotations.
From Adeu Require Import Str Markup.
Definition isword_ascii (c : char) : bool :=
  (N.leb 48 c && N.leb c 57) || (N.leb 65 c && N.leb c 90) || (N.leb 97 c && N.leb c 122) || N.eqb c 95 || N.ltb 127 c.
Fixpoint digits (fuel n : nat) (acc : str) : str :=
  match fuel with
  | 0 => acc
  | S f => let d := N.of_nat (48 + n mod 10) in if n <? 10 then d :: acc else digits f (n / 10) (d :: acc)
  end.
Definition show_nat (n : nat) : str := digits (S n) n [].
Definition render_ascii := render isword_ascii show_nat.
Definition find_match_x := find_match.
