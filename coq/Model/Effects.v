From Coq Require Import List Bool Arith Lia.
Import ListNotations.

(* ---------- effect skeletons (what skel.py emits for one MCP tool) ---------- *)
Inductive eff := ERead | ECompute | EOpenW | EWrite | EStdout.
Inductive stmt :=
| SEff (e : eff)
| SRetOk | SRetErr
| SIf (thn els : list stmt)
| STry (body handler : list stmt).

(* ---------- concrete semantics ---------- *)
(* file system, as far as a tool can change it: the designated output file *)
Inductive ostate := Untouched | Truncated | Written.
Record world := { out : ostate; stdout_used : bool }.
Inductive outcome := Fell | RetOk | RetErr | Raised | NoFuel.
(* an oracle resolves every nondeterministic choice: does the k-th effect raise? which branch is taken? *)
Definition oracle := nat -> bool.

Definition do_eff (e : eff) (w : world) (raise : bool) : world * bool (* raised *) :=
  match e with
  | ERead | ECompute => (w, raise)
  | EOpenW => if raise then (w, true) else ({| out := Truncated; stdout_used := stdout_used w |}, false)
  | EWrite => ({| out := Written; stdout_used := stdout_used w |}, false)        (* FM1: writing computed bytes does not fail *)
  | EStdout => ({| out := out w; stdout_used := true |}, raise)
  end.

(* fuel = structural size; k = oracle cursor *)
Fixpoint run (fuel : nat) (ss : list stmt) (w : world) (o : oracle) (k : nat) : outcome * world * nat :=
  match fuel with
  | 0 => (NoFuel, w, k)
  | S f =>
    match ss with
    | [] => (Fell, w, k)
    | SEff e :: rest =>
      let '(w', r) := do_eff e w (o k) in
      if r then (Raised, w', S k) else run f rest w' o (S k)
    | SRetOk :: _ => (RetOk, w, k)
    | SRetErr :: _ => (RetErr, w, k)
    | SIf a b :: rest =>
      let '(oc, w', k') := run f (if o k then a else b) w o (S k) in
      match oc with Fell => run f rest w' o k' | _ => (oc, w', k') end
    | STry body h :: rest =>
      let '(oc, w', k') := run f body w o k in
      match oc with
      | Fell => run f rest w' o k'
      | Raised => let '(oc2, w2, k2) := run f h w' o k' in
                  match oc2 with Fell => run f rest w2 o k2 | _ => (oc2, w2, k2) end
      | _ => (oc, w', k')
      end
    end
  end.

(* ---------- the static checker ---------- *)
(* abstract state: has the output been opened on this path? result: None = violation,
   Some (fall_clean, fall_dirty, may_raise) = which states can fall through, and whether a raise can escape *)
Definition res := option (bool * bool * bool).
Definition join (a b : res) : res :=
  match a, b with
  | Some (c1, d1, r1), Some (c2, d2, r2) => Some (c1 || c2, d1 || d2, r1 || r2)
  | _, _ => None end.
Fixpoint size_s (s : stmt) : nat :=
  match s with
  | SIf a b | STry a b =>
      S ((fix go (l : list stmt) := match l with [] => 1 | x :: l' => size_s x + go l' end) a +
         (fix go (l : list stmt) := match l with [] => 1 | x :: l' => size_s x + go l' end) b)
  | _ => 1
  end.
Fixpoint size (ss : list stmt) : nat := match ss with [] => 1 | x :: r => size_s x + size r end.
Fixpoint chk (fuel : nat) (dirty : bool) (ss : list stmt) : res :=
  match fuel with
  | 0 => None
  | S f =>
    match ss with
    | [] => Some (negb dirty, dirty, false)
    | SEff EStdout :: _ => None
    | SEff EWrite :: rest => if dirty then chk f true rest else None
    | SEff EOpenW :: rest =>
        if dirty then None
        else match chk f true rest with Some (c, d, r) => Some (c, d, true) | None => None end
    | SEff _ :: rest =>
        if dirty then None
        else match chk f false rest with Some (c, d, r) => Some (c, d, true) | None => None end
    | SRetOk :: _ => Some (false, false, false)
    | SRetErr :: _ => if dirty then None else Some (false, false, false)
    | SIf a b :: rest =>
        match join (chk f dirty a) (chk f dirty b) with
        | Some (c, d, r) =>
            let rc := if c then chk f false rest else Some (false, false, false) in
            let rd := if d then chk f true rest else Some (false, false, false) in
            match join rc rd with Some (c', d', r') => Some (c', d', r || r') | None => None end
        | None => None end
    | STry body h :: rest =>
        match chk f dirty body with
        | Some (c, d, r) =>
            (* a raise can only escape from a clean state (chk rejects raising effects when dirty) *)
            let rh := if r then chk f false h else Some (false, false, false) in
            match rh with
            | Some (hc, hd, hr) =>
                let rc := if c || hc then chk f false rest else Some (false, false, false) in
                let rd := if d || hd then chk f true rest else Some (false, false, false) in
                match join rc rd with Some (c', d', r') => Some (c', d', hr || r') | None => None end
            | None => None end
        | None => None end
    end
  end.
(* a tool is safe when, started clean, nothing falls off the end and no raise escapes *)
Definition safe (ss : list stmt) : bool :=
  match chk (size ss) false ss with Some (false, false, false) => true | _ => false end.

(* examples: the shapes skel.py produced for the unchanged tree *)
Definition apply_structured_edits :=
  [STry [SIf [SRetErr] []; SEff ERead; SEff ECompute; SEff ECompute; SIf [SIf [] []] []; SEff ECompute; SEff EOpenW; SEff EWrite; SRetOk] [SRetErr]].
Definition handle_apply_as_tool :=      (* cli.handle_apply wrapped as if it were a tool: OpenW before Compute *)
  [STry [SEff ERead; SEff ECompute; SEff ECompute; SEff EOpenW; SEff ECompute; SEff EWrite; SRetOk] [SRetErr]].
Example ok1 : safe apply_structured_edits = true. Proof. reflexivity. Qed.
Example bad1 : safe handle_apply_as_tool = false. Proof. reflexivity. Qed.

(* ---------- soundness ---------- *)
Definition w0 : world := {| out := Untouched; stdout_used := false |}.
Definition St (dirty : bool) (w : world) : Prop := stdout_used w = false /\ (dirty = false -> w = w0).

Lemma go_size l : (fix go (l : list stmt) := match l with [] => 1 | x :: l' => size_s x + go l' end) l = size l.
Proof. induction l as [|x l IH]; [reflexivity|]. cbn [size]. rewrite <- IH. reflexivity. Qed.
Lemma size_s_if a b : size_s (SIf a b) = S (size a + size b).
Proof. cbn [size_s]. now rewrite !go_size. Qed.
Lemma size_s_try a b : size_s (STry a b) = S (size a + size b).
Proof. cbn [size_s]. now rewrite !go_size. Qed.
Lemma size_pos ss : 1 <= size ss.
Proof. induction ss; simpl; lia. Qed.
Lemma size_s_pos s : 1 <= size_s s.
Proof. destruct s; simpl; lia. Qed.

Definition Post (c d r : bool) (oc : outcome) (w' : world) : Prop :=
  stdout_used w' = false /\
  match oc with
  | Fell => (w' = w0 /\ c = true) \/ (d = true)
  | Raised => r = true /\ w' = w0
  | RetErr => w' = w0
  | RetOk => True
  | NoFuel => False
  end.

Lemma join_some a b c d r : join a b = Some (c, d, r) ->
  exists c1 d1 r1 c2 d2 r2, a = Some (c1, d1, r1) /\ b = Some (c2, d2, r2) /\ c = c1 || c2 /\ d = d1 || d2 /\ r = r1 || r2.
Proof. destruct a as [[[c1 d1] r1]|], b as [[[c2 d2] r2]|]; simpl; try discriminate.
  intros H; inversion H; subst. repeat eexists. Qed.

Lemma post_weaken c d r c' d' r' oc w : Post c d r oc w ->
  (c = true -> c' = true) -> (d = true -> d' = true) -> (r = true -> r' = true) -> Post c' d' r' oc w.
Proof. intros [Hs P] Hc Hd Hr. split; auto. destruct oc; auto.
  - destruct P as [[-> E]|E]; [left; split; auto|right; auto].
  - destruct P as [E ->]. split; auto. Qed.

Ltac pw H := eapply post_weaken; [exact H | | | ];
  (let E := fresh in intros E; try rewrite E; first [reflexivity | apply orb_true_r | assumption | (rewrite orb_true_r; reflexivity)]).

Lemma chk_sound : forall f ss dirty w o k c d r,
  size ss <= f -> chk f dirty ss = Some (c, d, r) -> St dirty w ->
  let '(oc, w', _) := run f ss w o k in Post c d r oc w'.
Proof.
  induction f as [|f IH]; intros ss dirty w o k c d r Hsz Hchk [Hso Hst].
  { pose proof (size_pos ss). lia. }
  (* continuation after a fall-through in abstract state described by (cc, dd) *)
  assert (Cont : forall (rest : list stmt) (cc dd c' d' r' : bool) (w1 : world) (k1 : nat), size rest <= f ->
            join (if cc then chk f false rest else Some (false, false, false))
                 (if dd then chk f true rest else Some (false, false, false)) = Some (c', d', r') ->
            stdout_used w1 = false -> ((w1 = w0 /\ cc = true) \/ dd = true) ->
            let '(oc, w', _) := run f rest w1 o k1 in Post c' d' r' oc w').
  { intros rest cc dd c' d' r' w1 k1 Hs Hj Hs1 Hor.
    apply join_some in Hj as (c1 & d1 & r1 & c2 & d2 & r2 & E1 & E2 & Hc' & Hd' & Hr'). subst c' d' r'.
    destruct Hor as [[Hw Hc]|Hd].
    - subst w1. rewrite Hc in E1.
      pose proof (IH rest false w0 o k1 c1 d1 r1 Hs E1 (conj eq_refl (fun _ => eq_refl))) as H.
      destruct (run f rest w0 o k1) as [[oc w'] k'].
      apply (post_weaken c1 d1 r1); [exact H| | | ]; intros E; rewrite E; reflexivity.
    - rewrite Hd in E2.
      assert (S1 : St true w1) by (split; [exact Hs1|discriminate]).
      pose proof (IH rest true w1 o k1 c2 d2 r2 Hs E2 S1) as H.
      destruct (run f rest w1 o k1) as [[oc w'] k'].
      apply (post_weaken c2 d2 r2); [exact H| | | ]; intros E; rewrite E; apply orb_true_r. }
  destruct ss as [|s rest]; simpl in Hchk |- *.
  - inversion Hchk; subst c d r. split; auto. destruct dirty; [right; reflexivity|left; split; auto].
  - simpl in Hsz. pose proof (size_s_pos s) as Hs1. pose proof (size_pos rest) as Hr1.
    destruct s as [e| | |a b|body h].
    + destruct e; simpl in Hchk.
      * destruct dirty; [discriminate|]. destruct (chk f false rest) as [[[c1 d1] r1]|] eqn:E; [|discriminate].
        inversion Hchk; subst. unfold do_eff. destruct (o k); [split; auto; split; auto|].
        pose proof (IH rest false w o (S k) c d r1 ltac:(lia) E (conj Hso Hst)) as H.
        destruct (run f rest w o (S k)) as [[oc w'] k']. pw H.
      * destruct dirty; [discriminate|]. destruct (chk f false rest) as [[[c1 d1] r1]|] eqn:E; [|discriminate].
        inversion Hchk; subst. unfold do_eff. destruct (o k); [split; auto; split; auto|].
        pose proof (IH rest false w o (S k) c d r1 ltac:(lia) E (conj Hso Hst)) as H.
        destruct (run f rest w o (S k)) as [[oc w'] k']. pw H.
      * destruct dirty; [discriminate|]. destruct (chk f true rest) as [[[c1 d1] r1]|] eqn:E; [|discriminate].
        inversion Hchk; subst. unfold do_eff. destruct (o k); [split; auto; split; auto|].
        assert (S1 : St true {| out := Truncated; stdout_used := stdout_used w |}) by (split; auto; discriminate).
        pose proof (IH rest true _ o (S k) c d r1 ltac:(lia) E S1) as H.
        destruct (run f rest _ o (S k)) as [[oc w'] k']. pw H.
      * destruct dirty; [|discriminate].
        assert (S1 : St true {| out := Written; stdout_used := stdout_used w |}) by (split; auto; discriminate).
        specialize (IH rest true _ o (S k) c d r ltac:(lia) Hchk S1). unfold do_eff.
        destruct (run f rest _ o (S k)) as [[oc w'] k']. exact IH.
      * discriminate.
    + inversion Hchk; subst. split; auto.
    + destruct dirty; [discriminate|]. inversion Hchk; subst. split; auto.
    + (* If *)
      rewrite size_s_if in Hsz.
      destruct (join (chk f dirty a) (chk f dirty b)) as [[[cc dd] rr]|] eqn:Ej; [|discriminate].
      destruct (join (if cc then chk f false rest else Some (false, false, false))
                     (if dd then chk f true rest else Some (false, false, false))) as [[[c' d'] r']|] eqn:Ec; [|discriminate].
      inversion Hchk; subst c d r; clear Hchk.
      apply join_some in Ej as (ca & da & ra & cb & db & rb & Ea & Eb & -> & -> & ->).
      assert (Hbr : let '(oc, w', _) := run f (if o k then a else b) w o (S k) in Post (ca || cb) (da || db) (ra || rb) oc w').
      { destruct (o k).
        - pose proof (IH a dirty w o (S k) ca da ra ltac:(lia) Ea (conj Hso Hst)) as H.
          destruct (run f a w o (S k)) as [[oc w'] k']. pw H.
        - pose proof (IH b dirty w o (S k) cb db rb ltac:(lia) Eb (conj Hso Hst)) as H.
          destruct (run f b w o (S k)) as [[oc w'] k']. pw H. }
      destruct (run f (if o k then a else b) w o (S k)) as [[oc w'] k'].
      destruct Hbr as [Hs P]. destruct oc.
      * pose proof (Cont rest _ _ _ _ _ w' k' ltac:(lia) Ec Hs P) as H.
        destruct (run f rest w' o k') as [[oc2 w2] k2]. pw H.
      * split; auto.
      * split; auto.
      * destruct P as [E ->]. split; auto. split; auto. rewrite E. reflexivity.
      * destruct P.
    + (* Try *)
      rewrite size_s_try in Hsz.
      destruct (chk f dirty body) as [[[cb db] rb]|] eqn:Eb; [|discriminate].
      destruct (if rb then chk f false h else Some (false, false, false)) as [[[hc hd] hr]|] eqn:Eh; [|discriminate].
      destruct (join (if cb || hc then chk f false rest else Some (false, false, false))
                     (if db || hd then chk f true rest else Some (false, false, false))) as [[[c' d'] r']|] eqn:Ec; [|discriminate].
      inversion Hchk; subst c d r; clear Hchk.
      specialize (IH body dirty w o k cb db rb ltac:(lia) Eb (conj Hso Hst)) as Hb.
      destruct (run f body w o k) as [[oc w'] k']. destruct Hb as [Hs P]. destruct oc.
      * assert (P' : (w' = w0 /\ cb || hc = true) \/ db || hd = true).
        { destruct P as [[-> ->] | ->]; [left; split; auto|right; reflexivity]. }
        pose proof (Cont rest _ _ _ _ _ w' k' ltac:(lia) Ec Hs P') as H.
        destruct (run f rest w' o k') as [[oc2 w2] k2]. pw H.
      * split; auto.
      * split; auto.
      * (* raised inside the body: handler runs from the clean world *)
        destruct P as [-> ->]. 
        specialize (IH h false w0 o k' hc hd hr ltac:(lia) Eh (conj eq_refl (fun _ => eq_refl))) as Hh.
        destruct (run f h w0 o k') as [[oc2 w2] k2]. destruct Hh as [Hs2 P2]. destruct oc2.
        -- assert (P' : (w2 = w0 /\ cb || hc = true) \/ db || hd = true).
           { destruct P2 as [[-> ->] | ->]; [left; split; auto; apply orb_true_r|right; apply orb_true_r]. }
           pose proof (Cont rest _ _ _ _ _ w2 k2 ltac:(lia) Ec Hs2 P') as H.
           destruct (run f rest w2 o k2) as [[oc3 w3] k3]. pw H.
        -- split; auto.
        -- split; auto.
        -- destruct P2 as [-> ->]. split; auto.
        -- destruct P2.
      * destruct P.
Qed.

Theorem safe_sound ss : safe ss = true -> forall o,
  let '(oc, w', _) := run (size ss) ss w0 o 0 in
  (oc = RetOk \/ (oc = RetErr /\ w' = w0)) /\ stdout_used w' = false.
Proof.
  unfold safe. intros H o. destruct (chk (size ss) false ss) as [[[c d] r]|] eqn:E; [|discriminate].
  destruct c, d, r; try discriminate.
  pose proof (chk_sound (size ss) ss false w0 o 0 false false false (le_n _) E (conj eq_refl (fun _ => eq_refl))) as P.
  destruct (run (size ss) ss w0 o 0) as [[oc w'] k']. destruct P as [Hs P]. split; auto.
  destruct oc; auto.
  - destruct P as [[_ F]|F]; discriminate.
  - destruct P as [F _]; discriminate.
  - destruct P.
Qed.
Print Assumptions safe_sound.

(* ---------- CLI commands: an uncaught exception is an error report too (traceback, exit status 1), so a raise may
   escape - but only while the output is untouched ---------- *)
Definition safe_cli (ss : list stmt) : bool :=
  match chk (size ss) false ss with Some (false, false, _) => true | _ => false end.
Theorem safe_cli_sound ss : safe_cli ss = true -> forall o,
  let '(oc, w', _) := run (size ss) ss w0 o 0 in
  (oc = RetOk \/ ((oc = RetErr \/ oc = Raised) /\ w' = w0)) /\ stdout_used w' = false.
Proof.
  unfold safe_cli. intros H o. destruct (chk (size ss) false ss) as [[[c d] r]|] eqn:E; [|discriminate].
  destruct c, d; try discriminate.
  pose proof (chk_sound (size ss) ss false w0 o 0 false false r (le_n _) E (conj eq_refl (fun _ => eq_refl))) as P.
  destruct (run (size ss) ss w0 o 0) as [[oc w'] k']. destruct P as [Hs P]. split; auto.
  destruct oc; auto.
  - destruct P as [[_ F]|F]; discriminate.
  - destruct P as [_ ->]. right. split; auto.
  - destruct P.
Qed.
Print Assumptions safe_cli_sound.
