From Coq Require Import List NArith Bool Arith Lia.
Import ListNotations.
From Adeu Require Import Str.

(* The writer's paragraph machine (mapper._map_paragraph_content, with the D28 repair), abstracted over everything
   that only influences *virtual* text: wrapper choice, metadata rendering, the deferral look-ahead.
   Theorem: the real spans are exactly the text-bearing runs, once each, in document order, whatever those are. *)
Record part := { p_real : bool; p_text : str; p_uid : nat }.
Inductive item (ev : Type) :=
| IRun (uid : nat) (pre suf text : str)
| IEv (e : ev).                         (* comment / ins / del boundary *)
Arguments IRun {ev}. Arguments IEv {ev}.

Section Machine.
Variable ev : Type.
Variable st : Type.                                   (* active marks, comments, deferred metadata … *)
Variable on_event : st -> ev -> st.
Notation item := (item ev).
Variable on_run : st -> st.                            (* records the metadata snapshot *)
Variable wrappers : st -> str * str.
Variable defer : st -> list item -> bool.              (* look-ahead over the remaining items *)
Variable meta : st -> str * st.                        (* metadata block text ("" = none) and state with the buffer cleared *)
Variable run_parts : nat -> str -> str -> str -> list part.   (* uid pre suf text *)

Definition virt (s : str) : list part := match s with [] => [] | _ => [{| p_real := false; p_text := s; p_uid := 0 |}] end.
Record mstate := { out : list part; pending : list part; cur : str * str; ms : st }.
Definition flush (m : mstate) : mstate :=
  match pending m with
  | [] => m
  | _ => {| out := out m ++ virt (fst (cur m)) ++ pending m ++ virt (snd (cur m)); pending := []; cur := ([], []); ms := ms m |}
  end.
Definition pair_eqb (a b : str * str) : bool := str_eqb (fst a) (fst b) && str_eqb (snd a) (snd b).
Definition is_nil {A} (l : list A) := match l with [] => true | _ => false end.
Definition step (m : mstate) (it : item) (rest : list item) : mstate :=
  match it with
  | IEv e => let m' := flush m in {| out := out m'; pending := pending m'; cur := cur m'; ms := on_event (ms m') e |}
  | IRun uid pre suf text =>
    match text with
    | [] => m                                           (* a run without text contributes nothing *)
    | _ =>
      let parts := run_parts uid pre suf text in
      let nw := wrappers (ms m) in
      let m1 := if negb (is_nil (pending m)) && pair_eqb nw (cur m)
                then {| out := out m; pending := pending m ++ parts; cur := cur m; ms := ms m |}
                else let f := flush m in {| out := out f; pending := parts; cur := nw; ms := ms f |} in
      let m2 := {| out := out m1; pending := pending m1; cur := cur m1; ms := on_run (ms m1) |} in
      if defer (ms m2) rest then m2
      else let f := flush m2 in
           let '(txt, s') := meta (ms f) in
           {| out := out f ++ virt txt; pending := pending f; cur := cur f; ms := s' |}
    end
  end.
Fixpoint run (m : mstate) (its : list item) : mstate :=
  match its with [] => m | it :: rest => run (step m it rest) rest end.
Definition finish (m : mstate) : list part :=
  let f := flush m in let '(txt, _) := meta (ms f) in out f ++ virt txt.
Definition para_spans (s0 : st) (its : list item) : list part :=
  finish (run {| out := []; pending := []; cur := ([], []); ms := s0 |} its).

Definition reals (l : list part) : list part := filter p_real l.
Definition item_reals (it : item) : list part :=
  match it with IRun uid pre suf (c :: t) => reals (run_parts uid pre suf (c :: t)) | _ => [] end.
End Machine.
Arguments out {st}. Arguments pending {st}. Arguments cur {st}. Arguments ms {st}. Arguments Build_mstate {st}.
Arguments flush {st}.
