From Coq Require Import List NArith Bool Arith Lia.
Import ListNotations.
From Adeu Require Import Str Doc.
(* _split_run_at_index after the D2 repair: partition the run's children at a text offset
   (w:t / w:delText characters, w:tab, w:br count one; anything else is zero-width and stays where it occurs),
   then merge adjacent text children of the same kind. *)
Definition kid_len (k : rchild) : nat :=
  match k with CT s | CDelT s => length s | CTab | CBr | CCr => 1 | _ => 0 end.
(* k = characters still to go left; passed = a positive-length child has already gone right *)
Fixpoint split_kids (k : nat) (passed : bool) (kids : list rchild) : list rchild * list rchild :=
  match kids with
  | [] => ([], [])
  | kid :: rest =>
    match kid with
    | CT s =>
        if length s <=? k then let '(l, r) := split_kids (k - length s) passed rest in (kid :: l, r)
        else if (k =? 0) then let '(l, r) := split_kids 0 true rest in (l, kid :: r)
        else let '(l, r) := split_kids 0 true rest in (CT (firstn k s) :: l, CT (skipn k s) :: r)
    | CDelT s =>
        if length s <=? k then let '(l, r) := split_kids (k - length s) passed rest in (kid :: l, r)
        else if (k =? 0) then let '(l, r) := split_kids 0 true rest in (l, kid :: r)
        else let '(l, r) := split_kids 0 true rest in (CDelT (firstn k s) :: l, CDelT (skipn k s) :: r)
    | CTab | CBr | CCr =>
        if 0 <? k then let '(l, r) := split_kids (k - 1) passed rest in (kid :: l, r)
        else let '(l, r) := split_kids 0 true rest in (l, kid :: r)
    | _ =>
        if passed then let '(l, r) := split_kids k passed rest in (l, kid :: r)
        else let '(l, r) := split_kids k passed rest in (kid :: l, r)
    end
  end.
Fixpoint merge_text (kids : list rchild) : list rchild :=
  match kids with
  | CT a :: rest => match merge_text rest with CT b :: r' => CT (a ++ b) :: r' | r' => CT a :: r' end
  | CDelT a :: rest => match merge_text rest with CDelT b :: r' => CDelT (a ++ b) :: r' | r' => CDelT a :: r' end
  | x :: rest => x :: merge_text rest
  | [] => []
  end.
Definition split_run (uid nu k : nat) (n : node) : option (list node) :=
  match n with
  | NRun u f kids => if Nat.eqb u uid
                     then let '(l, r) := split_kids k false kids in Some [NRun u f (merge_text l); NRun nu f (merge_text r)]
                     else None
  | _ => None end.

(* The paragraph-level core of C01: every mutation the engine performs inside a paragraph is one of these
   uid-addressed primitives; each is invisible to the session-rejected view; hence so is any sequence of them,
   whatever offsets, matches or trimming decided which ones run. *)
Inductive prim :=
| PSplit (uid nu k : nat)                                  (* _split_run_at_index (repaired) *)
| PWrapDel (uid du : nat) (m : mark)                       (* track_delete_run *)
| PInsAfter (uid : nat) (iu : nat) (m : mark) (runs : list (nat * rpr * list rchild))   (* parent.insert(index+1, w:ins): runs only *)
| PInsBefore (uid : nat) (iu : nat) (m : mark) (runs : list (nat * rpr * list rchild))  (* parent.insert(index, w:ins) *)
| PAnchor (su eu : nat) (cid : str) (ru : nat) (rf : rpr).   (* commentRangeStart before su, End + reference run after eu *)

Definition ins_node iu m (runs : list (nat * rpr * list rchild)) := NWrap iu KIns m (map (fun r => NRun (fst (fst r)) (snd (fst r)) (snd r)) runs).
Definition insert_before (uid : nat) (new : node) (n : node) : option (list node) :=
  if has_uid uid n then Some [new; n] else None.
Definition anchor (su eu : nat) (cid : str) (ru : nat) (rf : rpr) (n : node) : option (list node) :=
  let ref := NRun ru rf [CRef cid] in
  if has_uid su n && has_uid eu n then Some [NCrs cid; n; NCre cid; ref]
  else if has_uid su n then Some [NCrs cid; n]
  else if has_uid eu n then Some [n; NCre cid; ref]
  else None.
Definition prim_fun (p : prim) : node -> option (list node) :=
  match p with
  | PSplit uid nu k => split_run uid nu k
  | PWrapDel uid du m => wrap_del uid du m
  | PInsAfter uid iu m runs => insert_after uid (ins_node iu m runs)
  | PInsBefore uid iu m runs => insert_before uid (ins_node iu m runs)
  | PAnchor su eu cid ru rf => anchor su eu cid ru rf
  end.
Definition apply_prim (ns : list node) (p : prim) : list node := upd_l (prim_fun p) ns.

