(* Review actions: engine._accept_change / _reject_change / accept_all_revisions / apply_review_actions (after the D14
   repair the XPath queries run over every story; every w:ins / w:del carrying the id is processed, nested ones too). *)
From Coq Require Import List NArith Bool Arith.
Import ListNotations.
From Adeu Require Import Str Doc ParaMachine Project DocOps.

Definition id_is (i : str) (m : mark) : bool := str_eqb (m_id m) i.
Definition undel_kid (k : rchild) : rchild := match k with CDelT s => CT s | _ => k end.
Fixpoint accept_node (i : str) (n : node) : list node :=
  match n with
  | NWrap u KIns m cs => let cs' := flat_map (accept_node i) cs in if id_is i m then cs' else [NWrap u KIns m cs']
  | NWrap u KDel m cs => if id_is i m then [] else [NWrap u KDel m (flat_map (accept_node i) cs)]
  | _ => [n]
  end.
Fixpoint reject_node (i : str) (n : node) : list node :=
  match n with
  | NWrap u KIns m cs => if id_is i m then [] else [NWrap u KIns m (flat_map (reject_node i) cs)]
  | NWrap u KDel m cs =>
      if id_is i m
      then flat_map (fun c => match c with NRun u' f k => [NRun u' f (map undel_kid k)] | _ => reject_node i c end) cs
      else [NWrap u KDel m (flat_map (reject_node i) cs)]
  | _ => [n]
  end.
Definition accept_l i (ns : list node) := flat_map (accept_node i) ns.
Definition reject_l i (ns : list node) := flat_map (reject_node i) ns.
Fixpoint has_id (i : str) (n : node) : bool :=
  match n with NWrap _ _ m cs => id_is i m || existsb (has_id i) cs | _ => false end.
Definition has_id_l i (ns : list node) := existsb (has_id i) ns.

(* accept_all_revisions: unwrap every w:ins, drop every w:del, remove comment range markers and reference elements *)
Definition no_ref (k : rchild) : bool := match k with CRef _ => false | _ => true end.
Fixpoint accept_all_node (n : node) : list node :=
  match n with
  | NWrap _ KIns _ cs => flat_map accept_all_node cs
  | NWrap _ KDel _ _ => []
  | NCrs _ | NCre _ => []
  | NRun u f k => [NRun u f (filter no_ref k)]
  | NOther t => [n]
  end.

(* document level *)
Definition doc_has_id (i : str) (d : doc) : bool := existsb (fun p => has_id_l i (p_nodes p)) (doc_paras d).
Definition accept_doc i (d : doc) : doc := map_doc (fun p => with_nodes p (accept_l i (p_nodes p))) d.
Definition reject_doc i (d : doc) : doc := map_doc (fun p => with_nodes p (reject_l i (p_nodes p))) d.
Definition accept_all_doc (d : doc) : doc := map_doc (fun p => with_nodes p (flat_map accept_all_node (p_nodes p))) d.

(* apply_review_actions: prefix routing and counting. REPLY is handled by the comment model (Engine.v); here it is a
   parameter so that the counting theorem covers it. *)
Inductive act_kind := AAccept | AReject | AReply.
Record action := { a_kind : act_kind; a_target : str; a_text : str }.
Definition s_chgp := lit [67;104;103;58]. Definition s_comp := lit [67;111;109;58].
Definition route (raw : str) : str * bool * bool :=       (* (target id, is_change, is_comment) *)
  if prefixb s_chgp raw then (skipn 4 raw, true, false)
  else if prefixb s_comp raw then (skipn 4 raw, false, true)
  else (raw, true, true).
Section Actions.
Variable reply : doc -> str -> str -> doc * bool.
Definition step_action (st : doc * nat * nat) (a : action) : doc * nat * nat :=
  let '(d, ap, sk) := st in
  let '(tid, is_chg, is_com) := route (a_target a) in
  let '(d', ok) :=
    match a_kind a with
    | AAccept => if is_chg && doc_has_id tid d then (accept_doc tid d, true) else (d, false)
    | AReject => if is_chg && doc_has_id tid d then (reject_doc tid d, true) else (d, false)
    | AReply => if is_com then reply d tid (a_text a) else (d, false)
    end in
  if ok then (d', S ap, sk) else (d', ap, S sk).
Definition apply_actions (d : doc) (acts : list action) : doc * nat * nat := fold_left step_action acts (d, 0, 0).
End Actions.
