From Coq Require Import List NArith Bool Arith Lia.
Import ListNotations.
From Adeu Require Import Str.
Inductive op := OEq | ODel | OIns.
Record edit := mkEdit { e_idx : nat; e_tgt : str; e_new : str }.
(* index just after the last newline in t[0..cur), 0 if none:  t.rfind("\n",0,cur)+1 *)
Fixpoint line_start_aux (t : str) (cur : nat) (pos : nat) (best : nat) : nat :=
  match cur, t with
  | 0, _ | _, [] => best
  | S cur', c :: t' => line_start_aux t' cur' (S pos) (if ch_eqb c c_nl then S pos else best)
  end.
Definition line_start (t : str) (cur : nat) : nat := line_start_aux t cur 0 0.
Fixpoint take_until_space (s : str) : str :=
  match s with [] => [] | c :: s' => if ch_eqb c c_sp then [] else c :: take_until_space s' end.
Definition has_space (s : str) : bool := existsb (fun c => ch_eqb c c_sp) s.
Definition anchor_target (next : str) : str := if has_space next then take_until_space next else firstn 20 next.
Definition is_nil {A} (l : list A) : bool := match l with [] => true | _ => false end.

Record st := mkSt { cur : nat; pend : option (nat * str); last_end : nat; acc : list edit }.  (* acc reversed *)
Definition flush (s : st) : st :=
  match pend s with
  | Some (i, d) => mkSt (cur s) None (i + length d) (mkEdit i d [] :: acc s)
  | None => s
  end.
Definition fwd_anchor (anchor : str) (next : option (op * str)) : option str :=
  if is_nil anchor
  then match next with
       | Some (OEq, nx) => let w := anchor_target nx in if is_nil w then None else Some w
       | _ => None end
  else None.
Definition anchor_start (t : str) (s : st) : nat :=
  Nat.max (Nat.max (last_end s) (cur s - 50)) (line_start t (cur s)).
Definition step (t : str) (s : st) (o : op) (x : str) (next : option (op * str)) : st :=
  match o with
  | OEq => let s' := flush s in mkSt (cur s' + length x) None (last_end s') (acc s')
  | ODel => mkSt (cur s + length x) (Some (cur s, x)) (last_end s) (acc s)
  | OIns =>
    match pend s with
    | Some (i, d) => mkSt (cur s) None (i + length d) (mkEdit i d x :: acc s)
    | None =>
      match fwd_anchor (slice t (anchor_start t s) (cur s)) next with
      | Some w => mkSt (cur s) None (cur s + length w) (mkEdit (cur s) w (x ++ w) :: acc s)
      | None => mkSt (cur s) None (cur s)
                     (mkEdit (anchor_start t s) (slice t (anchor_start t s) (cur s)) (slice t (anchor_start t s) (cur s) ++ x) :: acc s)
      end
    end
  end.
Fixpoint run (t : str) (s : st) (ds : list (op * str)) : st :=
  match ds with
  | [] => s
  | (o, x) :: rest => run t (step t s o x (hd_error rest)) rest
  end.
Definition edits_of_diffs (t : str) (ds : list (op * str)) : list edit :=
  rev (acc (flush (run t (mkSt 0 None 0 []) ds))).


(* ---- tokenizer: re.split(r"(\s+|\w+|[^\w\s])", text) without the empty strings ---- *)
Section Tokens.
Variable isspace isword : char -> bool.
Inductive cls := KSpace | KWord | KOther.
Definition class (c : char) : cls := if isspace c then KSpace else if isword c then KWord else KOther.
Definition cls_eqb a b := match a, b with KSpace, KSpace | KWord, KWord => true | _, _ => false end.  (* KOther never continues *)
Definition flush_tok (cur : str) : list str := match cur with [] => [] | _ => [rev cur] end.
(* cur: the token being built, reversed; k: its class *)
Fixpoint toks (s : str) (cur : str) (k : cls) : list str :=
  match s with
  | [] => flush_tok cur
  | c :: s' =>
    if cls_eqb (class c) k && negb (match cur with [] => true | _ => false end) then toks s' (c :: cur) k
    else flush_tok cur ++ toks s' [c] (class c)
  end.
Definition tokens (s : str) : list str := toks s [] KOther.
End Tokens.

(* spec: apply a script left to right *)
Fixpoint apply_script (es : list edit) (t : str) (cursor : nat) : option str :=
  match es with
  | [] => Some (skipn cursor t)
  | e :: es' =>
    if (cursor <=? e_idx e) && str_eqb (slice t (e_idx e) (e_idx e + length (e_tgt e))) (e_tgt e)
       && (e_idx e + length (e_tgt e) <=? length t)
    then match apply_script es' t (e_idx e + length (e_tgt e)) with
         | Some r => Some (slice t cursor (e_idx e) ++ e_new e ++ r)
         | None => None end
    else None
  end.
