(* The OPC package as far as adeu touches it: the parts reachable from the main document with their content types, and the
   main document's relationships. CommentsManager.__init__ (run by every engine / mapper construction) ensures the four
   comment-family parts: reuse the part that already has the content type (linking it if the main document has no
   relationship to it), otherwise create "/word/<base>N.xml" with the lowest free N >= 1 and relate it. *)
From Coq Require Import List NArith Bool Arith.
Import ListNotations.
From Adeu Require Import Str MarkupX.

Record part := { pt_name : str; pt_ctype : N }.                 (* content types are opaque codes; 1..4 = the comment family *)
Record rel := { r_type : N; r_target : str }.                   (* relationship of the MAIN document part; ids are not modelled *)
Record pkg := { parts : list part; rels : list rel }.
Definition has_name (n : str) (p : pkg) : bool := existsb (fun x => str_eqb (pt_name x) n) (parts p).
Definition find_ctype (c : N) (p : pkg) : option part := find (fun x => N.eqb (pt_ctype x) c) (parts p).
Definition related (n : str) (p : pkg) : bool := existsb (fun r => str_eqb (r_target r) n) (rels p).
(* next_partname: lowest n in 1..fuel with base ++ n ++ ".xml" unused *)
Definition dotxml : str := map N.of_nat [46; 120; 109; 108].
Fixpoint next_name (fuel n : nat) (base : str) (p : pkg) : str :=
  let cand := base ++ show_nat n ++ dotxml in
  match fuel with
  | 0 => cand
  | S f => if has_name cand p then next_name f (S n) base p else cand
  end.
Definition ensure (ctype rtype : N) (base : str) (p : pkg) : pkg :=
  match find_ctype ctype p with
  | Some x => if related (pt_name x) p then p else {| parts := parts p; rels := rels p ++ [{| r_type := rtype; r_target := pt_name x |}] |}
  | None => let n := next_name (S (length (parts p))) 1 base p in
            {| parts := parts p ++ [{| pt_name := n; pt_ctype := ctype |}]; rels := rels p ++ [{| r_type := rtype; r_target := n |}] |}
  end.
Definition lit' (l : list nat) : str := map N.of_nat l.
Definition b_comments := lit' [47;119;111;114;100;47;99;111;109;109;101;110;116;115].                                   (* /word/comments *)
Definition b_extended := b_comments ++ lit' [69;120;116;101;110;100;101;100].                                          (* Extended *)
Definition b_ids := b_comments ++ lit' [73;100;115].                                                                    (* Ids *)
Definition b_extensible := b_comments ++ lit' [69;120;116;101;110;115;105;98;108;101].                                  (* Extensible *)
Definition ensure_comment_parts (p : pkg) : pkg :=
  ensure 4 4 b_extensible (ensure 3 3 b_ids (ensure 2 2 b_extended (ensure 1 1 b_comments p))).
Definition is_comment_family (c : N) : bool := N.leb 1 c && N.leb c 4.
