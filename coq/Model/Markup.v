From Coq Require Import List NArith Bool Arith Lia.
Import ListNotations.
From Adeu Require Import Str.
Section Markup.
Variable isword : char -> bool.          (* Python \w *)
Definition isalpha_ascii (c : char) : bool := (N.leb 65 c && N.leb c 90) || (N.leb 97 c && N.leb c 122).
Definition m_bb := [c_star; c_star]. Definition m_uu := [c_us; c_us]. Definition m_u := [c_us]. Definition m_b := [c_star].

(* first occurrence *)
Fixpoint find_from (needle s : str) (i : nat) : option nat :=
  if prefixb needle s then Some i else match s with [] => None | _ :: s' => find_from needle s' (S i) end.
Definition find (needle s : str) : option nat := find_from needle s 0.
Definition contains (needle s : str) : bool := match find needle s with Some _ => true | None => false end.

Definition expand (text m : str) (se : nat * nat) : nat * nat :=
  let '(s, e) := se in
  if Nat.odd (count m (slice text s e)) then
    if prefixb m (skipn e text) then (s, e + length m)
    else if suffixb m (firstn s text) then (s - length m, e)
    else (s, e)
  else (s, e).
Definition expand_round text se := expand text m_b (expand text m_u (expand text m_uu (expand text m_bb se))).
Definition safe_bounds (text : str) (s e : nat) : nat * nat := expand_round text (expand_round text (s, e)).

(* _refine_match_boundaries: leading then trailing, markers in order **, __, *, _ *)
Definition refine_lead (text m : str) (se : nat * nat) : nat * nat :=
  let '(s, e) := se in let cur := slice text s e in
  if prefixb m cur && Nat.odd (count m cur) && Nat.even (count m (skipn (length m) cur)) then (s + length m, e) else (s, e).
Definition refine_trail (text m : str) (se : nat * nat) : nat * nat :=
  let '(s, e) := se in let cur := slice text s e in
  if suffixb m cur && Nat.odd (count m cur) && Nat.even (count m (firstn (length cur - length m) cur)) then (s, e - length m) else (s, e).
Definition refine (text : str) (s e : nat) : nat * nat :=
  let l := refine_lead text m_u (refine_lead text m_b (refine_lead text m_uu (refine_lead text m_bb (s, e)))) in
  refine_trail text m_u (refine_trail text m_b (refine_trail text m_uu (refine_trail text m_bb l))).

Definition q_norm (c : char) : char :=
  if N.eqb c 8220 || N.eqb c 8221 then 34%N else if N.eqb c 8216 || N.eqb c 8217 then 39%N else c.
(* fuzzy : raw regex span supplied by the oracle *)
Definition find_match (text target : str) (fuzzy : option (nat * nat)) : option (nat * nat) :=
  match target with
  | [] => None
  | _ =>
    match find target text with
    | Some i => Some (safe_bounds text i (i + length target))
    | None =>
      match find (map q_norm target) (map q_norm text) with
      | Some i => Some (safe_bounds text i (i + length target))
      | None => match fuzzy with
                | Some (s, e) => let '(s', e') := refine text s e in Some (safe_bounds text s' e')
                | None => None end
      end
    end
  end.

Definition should_strip (text m : str) : bool :=
  prefixb m text && suffixb m text && (2 * length m <=? length text) &&
  let inner := slice text (length m) (length text - length m) in
  negb (match inner with [] => true | _ => false end) && negb (contains m inner) && existsb isalpha_ascii inner &&
  negb (str_eqb m m_uu && forallb isword inner).
Definition strip_balanced (text : str) : str * str * str :=
  let try m := if should_strip text m then Some (m, slice text (length m) (length text - length m), m) else None in
  match try m_bb with Some r => r | None =>
  match try m_uu with Some r => r | None =>
  match try m_u with Some r => r | None =>
  match try m_b with Some r => r | None => ([], text, []) end end end end.

Definition lit (l : list nat) : str := map N.of_nat l.
Definition o_del := lit [123;45;45]. Definition c_del := lit [45;45;125].
Definition o_ins := lit [123;43;43]. Definition c_ins := lit [43;43;125].
Definition o_hl := lit [123;61;61]. Definition c_hl := lit [61;61;125].
Definition o_cm := lit [123;62;62]. Definition c_cm := lit [60;60;125].
Variable show_nat : nat -> str.      (* decimal rendering of the edit index, supplied by the driver *)
Definition build (target new : str) (comment : option str) (idx : nat) (with_idx hl : bool) : str :=
  let '(pre, ct, suf) := strip_balanced target in
  let cn := match pre, new with
            | _ :: _, _ :: _ => if prefixb pre new && suffixb suf new
                                then (if 2 * length pre <? length new then slice new (length pre) (length new - length pre) else new)
                                else new
            | _, _ => new end in
  let body := if hl then o_hl ++ ct ++ c_hl
              else match ct, cn with
                   | _ :: _, [] => o_del ++ ct ++ c_del
                   | [], _ :: _ => o_ins ++ cn ++ c_ins
                   | _ :: _, _ :: _ => o_del ++ ct ++ c_del ++ o_ins ++ cn ++ c_ins
                   | [], [] => [] end in
  let cm := match comment with Some (c :: cs) => [c :: cs] | _ => [] end in
  let ix := if with_idx then [lit [91;69;100;105;116;58] ++ show_nat idx ++ lit [93]] else [] in
  let meta := match cm ++ ix with
              | [] => []
              | [a] => o_cm ++ a ++ c_cm
              | a :: b :: _ => o_cm ++ a ++ [c_sp] ++ b ++ c_cm end in
  pre ++ body ++ suf ++ meta.

Record medit := { me_target : str; me_new : str; me_comment : option str; me_fuzzy : option (nat * nat) }.
Definition overlaps (occ : list (nat * nat)) (s e : nat) : bool := existsb (fun oe => (s <? snd oe) && (fst oe <? e)) occ.
(* matching + overlap filter in submission order *)
Fixpoint select (text : str) (es : list medit) (idx : nat) (occ : list (nat * nat)) : list (nat * nat * medit * nat) :=
  match es with
  | [] => []
  | e :: es' =>
    match find_match text (me_target e) (me_fuzzy e) with
    | Some (s, en) => if (s =? en) || overlaps occ s en then select text es' (S idx) occ   (* empty match: skipped (D23 repair) *)
                      else (s, en, e, idx) :: select text es' (S idx) (occ ++ [(s, en)])
    | None => select text es' (S idx) occ
    end
  end.
(* stable sort by start, descending: insertion sort keeping submission order among equal starts *)
Fixpoint ins_desc (x : nat * nat * medit * nat) (l : list (nat * nat * medit * nat)) :=
  match l with
  | [] => [x]
  | y :: l' => if (fst (fst (fst y)) <? fst (fst (fst x))) then x :: l else y :: ins_desc x l'
  end.
Definition sort_desc l := fold_left (fun acc x => ins_desc x acc) l [].
Definition render (text : str) (es : list medit) (with_idx hl : bool) : str :=
  match es with
  | [] => text
  | _ =>
    fold_left (fun res m => let '(s, en, e, idx) := m in
                 firstn s res ++ build (slice text s en) (me_new e) (me_comment e) idx with_idx hl ++ skipn en res)
              (sort_desc (select text es 0 [])) text
  end.
End Markup.
