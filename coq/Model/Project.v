(* The text projection: what ingest.extract_text_from_stream shows and what DocumentMapper indexes.
   After the repairs D5-D8/D28 the reader and the writer run the same walkers and the same paragraph machine; the model
   has ONE projection producing spans; the reader's string is the concatenation of their texts. Each of the two Python
   implementations is tied to it by correspondence. *)
From Coq Require Import List NArith Bool Arith.
Import ListNotations.
From Adeu Require Import Str Doc ParaMachine.

(* ---------- documents above the paragraph ---------- *)
Inductive pstyle := PSNormal (style_bold : bool) | PSHeading (n : nat) | PSTitle | PSOther.
Record para := { p_id : nat; p_ppr : N; p_style : pstyle; p_nodes : list node }.
Inductive block :=
| BPara (p : para)
| BTbl (tok : N) (rows : list (list (N * list block))).      (* cell = (tcPr token, blocks); merged cells appear once *)
Record comment := { c_id : str; c_author : str; c_date : str; c_text : str; c_parent : option str }.
Record story := { s_kind : N; s_blocks : list block }.         (* 0 header, 1 body, 2 footer; in iter_document_parts order *)
Record doc := { d_stories : list story; d_comments : list comment; d_next_uid : nat }.

(* ---------- strings ---------- *)
Definition lit (l : list nat) : str := map N.of_nat l.
Definition s_nlnl := lit [10;10]. Definition s_nl := lit [10]. Definition s_bar := lit [32;124;32].
Definition s_bb := lit [42;42]. Definition s_u := lit [95].
Definition w_del := (lit [123;45;45], lit [45;45;125]).
Definition w_ins := (lit [123;43;43], lit [43;43;125]).
Definition w_hl := (lit [123;61;61], lit [61;61;125]).
Definition o_meta := lit [123;62;62]. Definition c_meta := lit [60;60;125].
Fixpoint str_ltb (a b : str) : bool :=           (* Python < on str: lexicographic by code point *)
  match a, b with
  | _, [] => false
  | [], _ :: _ => true
  | x :: a', y :: b' => if N.ltb x y then true else if N.ltb y x then false else str_ltb a' b'
  end.
Fixpoint insert_sorted {A} (lt : A -> A -> bool) (x : A) (l : list A) : list A :=     (* stable: after equal elements *)
  match l with [] => [x] | y :: l' => if lt x y then x :: l else y :: insert_sorted lt x l' end.
Definition sort_by {A} (lt : A -> A -> bool) (l : list A) : list A := fold_left (fun acc x => insert_sorted lt x acc) l [].
Fixpoint take_until (c : char) (s : str) : str := match s with [] => [] | x :: s' => if N.eqb x c then [] else x :: take_until c s' end.
Fixpoint join (sep : str) (l : list str) : str :=
  match l with [] => [] | [x] => x | x :: l' => x ++ sep ++ join sep l' end.
Definition mem_str (x : str) (l : list str) : bool := existsb (str_eqb x) l.

(* ---------- run text and markers ---------- *)
Definition tab_to_sp (c : char) : char := if N.eqb c 9%N then 32%N else c.
Definition kid_text (k : rchild) : str :=
  match k with CT s | CDelT s => map tab_to_sp s | CTab => [32%N] | CBr | CCr => [10%N] | _ => [] end.
Definition run_text (kids : list rchild) : str := flat_map kid_text kids.
Definition t_b : N := 1%N. Definition t_i : N := 2%N.      (* rPr child codes of w:b and w:i; value 0 = w:val off; 1 = no w:val, 2 = w:val="1", 3 = "true", 4 = "on": all on *)
Definition prop_on (tag : N) (f : rpr) : bool :=
  match f with None => false | Some l => existsb (fun tv => N.eqb (fst tv) tag && negb (N.eqb (snd tv) 0%N)) l end.
Definition markers (f : rpr) : str * str :=
  let b := prop_on t_b f in let i := prop_on t_i f in
  ((if b then s_bb else []) ++ (if i then s_u else []), (if i then s_u else []) ++ (if b then s_bb else [])).

(* split at newlines: "a\nb" -> ["a"; "b"], "" -> [""] *)
Fixpoint split_nl (s : str) (cur : str) : list str :=
  match s with
  | [] => [rev cur]
  | c :: s' => if N.eqb c 10%N then rev cur :: split_nl s' [] else split_nl s' (c :: cur)
  end.
Definition real (uid : nat) (s : str) : part := {| p_real := true; p_text := s; p_uid := uid |}.
Definition has_nl (s : str) : bool := existsb (N.eqb 10%N) s.
Definition run_parts (uid : nat) (pre suf text : str) : list part :=
  match text with
  | [] => []
  | _ =>
    match pre, suf with
    | [], [] => [real uid text]
    | _, _ =>
      if has_nl text then
        (fix go (first : bool) (ps : list str) : list part :=
           match ps with
           | [] => []
           | p :: ps' => (if first then [] else [real uid s_nl]) ++
                         (match p with [] => [] | _ => virt pre ++ [real uid p] ++ virt suf end) ++ go false ps'
           end) true (split_nl text [])
      else virt pre ++ [real uid text] ++ virt suf
    end
  end.

(* ---------- paragraph items ---------- *)
Inductive ev := EvStart (id : str) | EvEnd (id : str) | EvRef (id : str)
              | EvInsS (m : mark) | EvInsE (id : str) | EvDelS (m : mark) | EvDelE (id : str).
Definition ref_events (kids : list rchild) : list (item ev) :=
  flat_map (fun k => match k with CRef (c :: i) => [IEv (EvRef (c :: i))] | _ => [] end) kids.
Definition run_item (u : nat) (f : rpr) (kids : list rchild) : item ev :=
  IRun u (fst (markers f)) (snd (markers f)) (run_text kids).
Definition items (clean : bool) (ns : list node) : list (item ev) :=
  flat_map (fun n =>
    match n with
    | NRun u f kids => ref_events kids ++ [run_item u f kids]
    | NWrap _ KIns m cs =>
        [IEv (EvInsS m)] ++
        flat_map (fun c => match c with
                           | NRun u f kids => ref_events kids ++ [run_item u f kids]
                           | NCrs i => [IEv (EvStart i)] | NCre i => [IEv (EvEnd i)]
                           | _ => [] end) cs ++
        [IEv (EvInsE (m_id m))]
    | NWrap _ KDel m cs =>
        [IEv (EvDelS m)] ++
        (* accepted view: deleted runs contribute nothing (the reader `continue`s, the writer emits nothing) *)
        (if clean then [] else flat_map (fun c => match c with NRun u f kids => [run_item u f kids] | _ => [] end) cs) ++
        [IEv (EvDelE (m_id m))]
    | NCrs i => [IEv (EvStart i)]
    | NCre i => [IEv (EvEnd i)]
    | NOther _ => []
    end) ns.

(* ---------- machine state ---------- *)
Definition snap := (list mark * list mark * list str)%type.
Record pst := { ps_clean : bool; ps_ins : list mark; ps_del : list mark; ps_com : list str; ps_def : list snap;
                ps_cmap : list comment }.
Definition dict_set (m : mark) (l : list mark) : list mark :=
  if existsb (fun x => str_eqb (m_id x) (m_id m)) l then map (fun x => if str_eqb (m_id x) (m_id m) then m else x) l else l ++ [m].
Definition dict_pop (i : str) (l : list mark) : list mark := filter (fun x => negb (str_eqb (m_id x) i)) l.
Definition on_event (s : pst) (e : ev) : pst :=
  let upd i d c := {| ps_clean := ps_clean s; ps_ins := i; ps_del := d; ps_com := c; ps_def := ps_def s; ps_cmap := ps_cmap s |} in
  match e with
  | EvStart i => upd (ps_ins s) (ps_del s) (if mem_str i (ps_com s) then ps_com s else ps_com s ++ [i])
  | EvEnd i => upd (ps_ins s) (ps_del s) (filter (fun x => negb (str_eqb x i)) (ps_com s))
  | EvRef _ => s
  | EvInsS m => upd (dict_set m (ps_ins s)) (ps_del s) (ps_com s)
  | EvInsE i => upd (dict_pop i (ps_ins s)) (ps_del s) (ps_com s)
  | EvDelS m => upd (ps_ins s) (dict_set m (ps_del s)) (ps_com s)
  | EvDelE i => upd (ps_ins s) (dict_pop i (ps_del s)) (ps_com s)
  end.
Definition on_run (s : pst) : pst :=
  if ps_clean s then s
  else {| ps_clean := false; ps_ins := ps_ins s; ps_del := ps_del s; ps_com := ps_com s;
          ps_def := ps_def s ++ [(ps_ins s, ps_del s, ps_com s)]; ps_cmap := ps_cmap s |}.
Definition nonempty {A} (l : list A) : bool := match l with [] => false | _ => true end.
Definition wrappers (s : pst) : str * str :=
  if ps_clean s then ([], [])
  else if nonempty (ps_del s) then w_del else if nonempty (ps_ins s) then w_ins else if nonempty (ps_com s) then w_hl else ([], []).
Fixpoint lookahead (ti td : bool) (rest : list (item ev)) : bool :=
  match rest with
  | [] => false
  | IRun _ _ _ _ :: _ => ti || td
  | IEv (EvInsS _) :: r => lookahead true td r
  | IEv (EvInsE _) :: r => lookahead false td r
  | IEv (EvDelS _) :: r => lookahead ti true r
  | IEv (EvDelE _) :: r => lookahead ti false r
  | IEv _ :: r => lookahead ti td r
  end.
Definition defer (s : pst) (rest : list (item ev)) : bool :=
  if ps_clean s then true                                  (* accepted view: no metadata, pending text keeps merging *)
  else if nonempty (ps_ins s) || nonempty (ps_del s) then lookahead (nonempty (ps_ins s)) (nonempty (ps_del s)) rest
  else false.

(* ---------- metadata block ---------- *)
Definition s_chg := lit [67;104;103;58]. Definition s_com := lit [67;111;109;58].      (* "Chg:" "Com:" *)
Definition s_unknown := lit [85;110;107;110;111;119;110].
Definition find_comment (cm : list comment) (i : str) : option comment := find (fun c => str_eqb (c_id c) i) cm.
Definition children_of (cm : list comment) (i : str) : list str :=
  map c_id (filter (fun c => match c_parent c with Some (x :: p) => str_eqb (x :: p) i | _ => false end) cm).
Definition date_of (cm : list comment) (i : str) : str := match find_comment cm i with Some c => c_date c | None => [] end.
(* returns (lines, seen); fuel bounds the thread depth (a comment is rendered once: seen) *)
Fixpoint render_comment (fuel : nat) (cm : list comment) (i : str) (seen : list str) : list str * list str :=
  match fuel with
  | 0 => ([], seen)
  | S f =>
    match find_comment cm i with
    | None => ([], seen)
    | Some c =>
      let sig := s_com ++ i in
      if mem_str sig seen then ([], seen)
      else
        let header := [91%N] ++ sig ++ [93%N; 32%N] ++ c_author c ++
                      (match c_date c with [] => [] | d => [32%N; 64%N; 32%N] ++ take_until 84%N d end) in
        let line := header ++ [58%N; 32%N] ++ c_text c in
        let kids := sort_by (fun a b => str_ltb (date_of cm a) (date_of cm b)) (children_of cm i) in
        fold_left (fun acc k => let '(ls, sn) := acc in let '(ls', sn') := render_comment f cm k sn in (ls ++ ls', sn'))
                  kids ([line], sig :: seen)
    end
  end.
Definition meta_block (cm : list comment) (states : list snap) : str :=
  let '(chg, com, _) :=
    fold_left (fun acc (st : snap) =>
      let '(chg, com, seen) := acc in
      let '(ins, del, cs) := st in
      let '(chg1, seen1) :=
        fold_left (fun a (m : mark) => let '(ch, sn) := a in
                     let sig := s_chg ++ m_id m in
                     if mem_str sig sn then a
                     else (ch ++ [[91%N] ++ sig ++ [93%N; 32%N] ++ (match m_author m with [] => s_unknown | au => au end)], sig :: sn))
                  (ins ++ del) (chg, seen) in
      let '(com1, seen2) :=
        fold_left (fun a i => let '(co, sn) := a in let '(ls, sn') := render_comment (S (length cm)) cm i sn in (co ++ ls, sn'))
                  (sort_by str_ltb cs) (com, seen1) in
      (chg1, com1, seen2)) states ([], [], []) in
  join s_nl (chg ++ com).
Definition meta (s : pst) : str * pst :=
  let s' := {| ps_clean := ps_clean s; ps_ins := ps_ins s; ps_del := ps_del s; ps_com := ps_com s; ps_def := []; ps_cmap := ps_cmap s |} in
  match ps_def s with
  | [] => ([], s')
  | d => match meta_block (ps_cmap s) d with [] => ([], s') | mb => (o_meta ++ mb ++ c_meta, s') end
  end.

Definition para_parts (clean : bool) (cm : list comment) (ns : list node) : list part :=
  para_spans ev pst on_event on_run wrappers defer meta run_parts
    {| ps_clean := clean; ps_ins := []; ps_del := []; ps_com := []; ps_def := []; ps_cmap := cm |} (items clean ns).

(* ---------- paragraph prefix ---------- *)
Section Prefix.
Variable isspace iscased_upper iscased_lower : char -> bool.
Variable other_text : N -> str.      (* what python-docx's paragraph.text shows of an opaque paragraph child (hyperlink text) *)
(* python-docx paragraph.text: direct runs only; w:t, tab, br/cr (delText and content of w:ins / w:del not included) *)
Definition pd_kid_text (k : rchild) : str := match k with CT s => s | CTab => [9%N] | CBr | CCr => [10%N] | _ => [] end.
Definition pd_run_text (kids : list rchild) : str := flat_map pd_kid_text kids.
Definition pd_para_text (ns : list node) : str := flat_map (fun n => match n with NRun _ _ k => pd_run_text k | NOther t => other_text t | _ => [] end) ns.
Fixpoint lstrip (s : str) : str := match s with c :: s' => if isspace c then lstrip s' else s | [] => [] end.
Definition strip_ws (s : str) : str := rev (lstrip (rev (lstrip s))).
Definition isupper_str (s : str) : bool := existsb iscased_upper s && negb (existsb iscased_lower s).
Definition first_nonblank_run_bold (ns : list node) : bool :=
  match find (fun n => match n with NRun _ _ k => nonempty (strip_ws (pd_run_text k)) | _ => false end) ns with
  | Some (NRun _ f _) => prop_on t_b f
  | _ => false end.
Definition hashes (n : nat) : str := repeat 35%N n ++ [32%N].
Definition prefix (p : para) : str :=
  match p_style p with
  | PSHeading n => hashes n
  | PSTitle => hashes 1
  | PSOther => []
  | PSNormal sb =>
      let t := strip_ws (pd_para_text (p_nodes p)) in
      if nonempty t && (length t <? 100) && isupper_str t && (sb || first_nonblank_run_bold (p_nodes p)) then hashes 2 else []
  end.

(* ---------- spans ---------- *)
Record span := { sp_text : str; sp_real : bool; sp_uid : nat; sp_pid : option nat }.
Definition vspan (t : str) (pid : option nat) : span := {| sp_text := t; sp_real := false; sp_uid := 0; sp_pid := pid |}.
Definition spans_len (l : list span) : nat := fold_left (fun a s => a + length (sp_text s)) l 0.
Definition para_spans_of (clean : bool) (cm : list comment) (p : para) : list span :=
  (match prefix p with [] => [] | pf => [vspan pf (Some (p_id p))] end) ++
  map (fun pt => {| sp_text := p_text pt; sp_real := p_real pt; sp_uid := p_uid pt; sp_pid := Some (p_id p) |}) (para_parts clean cm (p_nodes p)).
Definition is_empty_spans (l : list span) : bool := forallb (fun s => match sp_text s with [] => true | _ => false end) l.

(* generic joins (recursion on the list only, so that block_spans can pass itself as `f`) *)
Definition join_with {A} (sep : list span) (f : A -> list span) : list A -> list span :=
  fix go (l : list A) : list span :=
    match l with
    | [] => []
    | [x] => f x
    | x :: l' => f x ++ sep ++ go l'
    end.
Definition is_para (b : block) : option nat := match b with BPara p => Some (p_id p) | _ => None end.
(* blocks of a container joined by a blank line (the separator belongs to the paragraph it follows); a table without any
   text is skipped *)
Definition join_blocks (f : block -> list span) : bool -> option nat -> list block -> list span :=
  fix go (emitted : bool) (prev : option nat) (bs : list block) : list span :=
    match bs with
    | [] => []
    | b :: bs' =>
      let sp := f b in
      match is_para b with
      | Some pid => (if emitted then [vspan s_nlnl prev] else []) ++ sp ++ go true (Some pid) bs'
      | None => if is_empty_spans sp then go emitted prev bs'
                else (if emitted then [vspan s_nlnl prev] else []) ++ sp ++ go true None bs'
      end
    end.
Fixpoint block_spans (clean : bool) (cm : list comment) (b : block) : list span :=
  match b with
  | BPara p => para_spans_of clean cm p
  | BTbl _ rows =>
      join_with [vspan s_nl None]
        (fun r => join_with [vspan s_bar None] (fun c => join_blocks (block_spans clean cm) false None (snd c)) r) rows
  end.
Definition blocks_spans (clean : bool) (cm : list comment) (emitted : bool) (prev : option nat) (bs : list block) : list span :=
  join_blocks (block_spans clean cm) emitted prev bs.
Fixpoint stories_spans (clean : bool) (cm : list comment) (emitted : bool) (ss : list story) : list span :=
  match ss with
  | [] => []
  | s :: ss' =>
    let sp := blocks_spans clean cm false None (s_blocks s) in
    if is_empty_spans sp then stories_spans clean cm emitted ss'
    else (if emitted then [vspan s_nlnl None] else []) ++ sp ++ stories_spans clean cm true ss'
  end.
Definition doc_spans (clean : bool) (d : doc) : list span := stories_spans clean (d_comments d) false (d_stories d).
Definition full_text (l : list span) : str := flat_map sp_text l.
Definition extract (clean : bool) (d : doc) : str := full_text (doc_spans clean d).
End Prefix.
