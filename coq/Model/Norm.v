From Coq Require Import List NArith Bool Arith Lia.
Import ListNotations.
From Adeu Require Import Str Doc.
(* normalize_docx on one paragraph, with repair F1 (merge only XML-adjacent runs):
   drop proofErr, then repeatedly merge a direct run into the directly following direct run when neither is
   special and their rPr are identical. Runs inside w:ins / w:del are not direct children and are left alone. *)
Definition tok_prooferr : N := 1%N.
Definition is_prooferr (n : node) : bool := match n with NOther t => N.eqb t tok_prooferr | _ => false end.
Definition special_kid (k : rchild) : bool := match k with CRef _ | COther _ => true | _ => false end.
Definition special (kids : list rchild) : bool := existsb special_kid kids.
Fixpoint rpr_list_eqb (a b : list (N * N)) : bool :=
  match a, b with
  | [], [] => true
  | (x1, y1) :: a', (x2, y2) :: b' => N.eqb x1 x2 && N.eqb y1 y2 && rpr_list_eqb a' b'
  | _, _ => false end.
Definition rpr_eqb (a b : rpr) : bool :=
  match a, b with None, None => true | Some x, Some y => rpr_list_eqb x y | _, _ => false end.
(* fuel = number of nodes: every step either emits a node or removes one *)
Fixpoint coalesce (fuel : nat) (ns : list node) : list node :=
  match fuel with
  | 0 => ns
  | S f =>
    match ns with
    | NRun u1 f1 k1 :: NRun u2 f2 k2 :: rest =>
        if negb (special k1) && negb (special k2) && rpr_eqb f1 f2
        then coalesce f (NRun u1 f1 (k1 ++ k2) :: rest)
        else NRun u1 f1 k1 :: coalesce f (NRun u2 f2 k2 :: rest)
    | x :: rest => x :: coalesce f rest
    | [] => []
    end
  end.
Definition normalize_para (ns : list node) : list node :=
  let ns' := filter (fun n => negb (is_prooferr n)) ns in coalesce (length ns') ns'.

Definition np (l : list node) := filter (fun n => negb (is_prooferr n)) l.
Definition non_runs (l : list node) := filter (fun n => match n with NRun _ _ _ => false | _ => true end) l.
