From Coq Require Import List NArith Bool Arith Lia.
Import ListNotations.
From Adeu Require Import Str.
Section Trim.
Variable isspace : char -> bool.
Definition all_space (s : str) : bool := match s with [] => false | _ => forallb isspace s end.
Definition unbalanced (s : str) : bool :=
  negb (Nat.even (count [c_star; c_star] s)) || negb (Nat.even (count [c_us] s)).
(* the cut at k falls between the two asterisks of a ** delimiter (fix D48) *)
Definition splits_star (t : str) (k : nat) : bool :=
  (0 <? k) && (k <? length t) && ch_eqb (nthc t (k - 1)) c_star && ch_eqb (nthc t k) c_star.
(* header backtrack: scan down from k; at '#': go to line start; at newline: stop *)
Fixpoint header_back (t : str) (k : nat) (p : nat) : nat :=
  match k with
  | 0 => p
  | S k' =>
    let c := nthc t k' in
    if ch_eqb c c_hash then back (fun j => negb (ch_eqb (nthc t (j - 1)) c_nl)) k'
    else if ch_eqb c c_nl then p
    else header_back t k' p
  end.
Definition absorb (t n : str) (m : str) (ps : nat * nat) : nat * nat :=
  let '(p, s) := ps in
  let mlen := length m in
  let tr := slice t p (length t - s) in
  let nr := slice n p (length n - s) in
  if prefixb m tr && prefixb m nr && suffixb m tr && suffixb m nr
     && (2 * mlen <? length tr) && (2 * mlen <? length nr)
  then (p + mlen, s + mlen) else (p, s).
Definition trim_ne (t n : str) : nat * nat :=
    let lt := length t in let ln := length n in
    let p0 := common_prefix t n in
    let p1 := if (p0 <? lt) && (p0 <? ln)
              then back (fun k => negb (isspace (nthc t (k - 1))) && negb (isspace (nthc t k))) p0
              else p0 in
    let p2 := header_back t p1 p1 in
    let p3 := back (fun k => unbalanced (firstn k t) || splits_star t k) p2 in
    let lim := Nat.min (lt - p3) (ln - p3) in
    let s0 := Nat.min lim (common_prefix (rev t) (rev n)) in
    let s1 := if (0 <? s0) && (s0 <? lt)
              then back (fun k => negb (isspace (nthc t (lt - (k + 1)))) && negb (isspace (nthc t (lt - k)))) s0
              else s0 in
    let s2 := back (fun k => unbalanced (lastn k t) || splits_star t (lt - k)) s1 in
    let s3 := if (0 <? s2) && all_space (lastn s2 t) then 0 else s2 in
    absorb t n [c_us] (absorb t n [c_star; c_star] (p3, s3)).
Definition trim (t n : str) : nat * nat :=
  match t, n with
  | [], _ | _, [] => (0, 0)
  | _, _ => trim_ne t n
  end.
End Trim.
Definition isspace_ascii (c : char) : bool :=
  (N.leb 9 c && N.leb c 13) || (N.leb 28 c && N.leb c 32) || N.eqb c 133 || N.eqb c 160.
Definition trim_ascii := trim isspace_ascii.
