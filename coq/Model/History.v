(* Multi-round negotiation: a history is a list of sessions; every session starts from the bytes the previous one saved
   (load = normalise + rescan ids + rebuild maps; nothing else is carried over). *)
From Coq Require Import List NArith Bool Arith.
Import ListNotations.
From Adeu Require Import Str Doc Project DocOps Review Inst Engine.

Inductive session :=
| SEdits (author ts : str) (edits : list edit) (orc : list fm)      (* an edit batch by some author *)
| SReview (author ts : str) (acts : list action)                     (* ACCEPT / REJECT / REPLY actions *)
| SAcceptAll.
Definition run_session (d : doc) (s : session) : doc :=
  match s with
  | SEdits a t es o => let '(d', _, _, _, _) := apply_edits d a t es o in d'
  | SReview a t acts => let '(d', _, _) := review_session d a t acts in d'
  | SAcceptAll => accept_all_doc (normalize_doc d)
  end.
(* the trace of documents, one per saved state *)
Fixpoint run_history (d : doc) (ss : list session) : list doc :=
  match ss with [] => [] | s :: r => let d' := run_session d s in d' :: run_history d' r end.
