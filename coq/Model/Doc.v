From Coq Require Import List NArith Bool Arith Lia.
Import ListNotations.
From Adeu Require Import Str.

Inductive rchild := CT (s : str) | CDelT (s : str) | CTab | CBr | CCr | CRef (id : str) | COther (tok : N).
Definition rpr := option (list (N * N)).
Record mark := { m_id : str; m_author : str; m_date : str }.
Inductive wkind := KIns | KDel.
Inductive node :=
| NRun (uid : nat) (f : rpr) (kids : list rchild)
| NWrap (uid : nat) (k : wkind) (m : mark) (cs : list node)
| NCrs (id : str) | NCre (id : str) | NOther (tok : N).

(* nested induction principle *)
Section NodeInd.
  Variable P : node -> Prop.
  Hypothesis Hrun : forall u f k, P (NRun u f k).
  Hypothesis Hwrap : forall u k m cs, Forall P cs -> P (NWrap u k m cs).
  Hypothesis Hcrs : forall i, P (NCrs i).
  Hypothesis Hcre : forall i, P (NCre i).
  Hypothesis Hoth : forall t, P (NOther t).
  Fixpoint node_ind' (n : node) : P n :=
    match n with
    | NRun u f k => Hrun u f k
    | NWrap u k m cs => Hwrap u k m cs ((fix go (l : list node) : Forall P l :=
                          match l with [] => Forall_nil _ | x :: l' => Forall_cons _ (node_ind' x) (go l') end) cs)
    | NCrs i => Hcrs i | NCre i => Hcre i | NOther t => Hoth t
    end.
End NodeInd.

(* atoms: status = stack of enclosing marks (innermost first) *)
Inductive atom :=
| ACh (c : char) (f : rpr) (st : list (wkind * mark))
| ASp (tok : N) (f : rpr) (st : list (wkind * mark))
| ACrs (id : str) (st : list (wkind * mark)) | ACre (id : str) (st : list (wkind * mark))
| ACref (id : str) (f : rpr) (st : list (wkind * mark)).      (* w:commentReference inside a run *)
Definition kid_atoms (f : rpr) (st : list (wkind * mark)) (k : rchild) : list atom :=
  match k with
  | CT s | CDelT s => map (fun c => ACh c f st) s
  | CTab => [ACh 9%N f st] | CBr | CCr => [ACh 10%N f st]
  | CRef i => [ACref i f st] | COther t => [ASp t f st]
  end.
Fixpoint atoms (st : list (wkind * mark)) (n : node) : list atom :=
  match n with
  | NRun _ f kids => flat_map (kid_atoms f st) kids
  | NWrap _ k m cs => flat_map (atoms ((k, m) :: st)) cs
  | NCrs i => [ACrs i st] | NCre i => [ACre i st]
  | NOther t => [ASp t None st]
  end.
Definition atoms_l st (ns : list node) := flat_map (atoms st) ns.

(* uid-addressed update: f n = Some ns replaces n by ns (no recursion into ns), None recurses *)
Fixpoint upd (f : node -> option (list node)) (n : node) : list node :=
  match f n with
  | Some ns => ns
  | None => match n with
            | NWrap u k m cs => [NWrap u k m (flat_map (upd f) cs)]
            | _ => [n]
            end
  end.
Definition upd_l f (ns : list node) := flat_map (upd f) ns.

(* reject the session: S = marks created by the session (and C = its comment ids) *)
Section Rej.
  Variable S : mark -> bool.
  Variable C : str -> bool.
  Definition strip (st : list (wkind * mark)) := filter (fun km => negb (S (snd km))) st.
  Definition dead (st : list (wkind * mark)) := existsb (fun km => match fst km with KIns => S (snd km) | KDel => false end) st.
  Definition rej_atom (a : atom) : list atom :=
    match a with
    | ACh c f st => if dead st then [] else [ACh c f (strip st)]
    | ASp t f st => if dead st then [] else [ASp t f (strip st)]
    | ACrs i st => if C i || dead st then [] else [ACrs i (strip st)]
    | ACre i st => if C i || dead st then [] else [ACre i (strip st)]
    | ACref i f st => if C i || dead st then [] else [ACref i f (strip st)]
    end.
  Definition rej (l : list atom) := flat_map rej_atom l.
End Rej.
(* ---- three engine primitives, each discharged by the local condition of upd_rej ---- *)
Definition is_run (uid : nat) (n : node) : bool := match n with NRun u _ _ => Nat.eqb u uid | _ => false end.
Definition has_uid (uid : nat) (n : node) : bool :=
  match n with NRun u _ _ | NWrap u _ _ _ => Nat.eqb u uid | _ => false end.
Definition to_del (k : rchild) : rchild := match k with CT s => CDelT s | _ => k end.
Definition wrap_del (uid du : nat) (m : mark) (n : node) : option (list node) :=
  match n with
  | NRun u f kids => if Nat.eqb u uid then Some [NWrap du KDel m [NRun u f (map to_del kids)]] else None
  | _ => None end.
Definition insert_after (uid : nat) (new : node) (n : node) : option (list node) :=
  if has_uid uid n then Some [n; new] else None.
Definition split_plain (uid nu k : nat) (n : node) : option (list node) :=
  match n with
  | NRun u f [CT s] => if Nat.eqb u uid then Some [NRun u f [CT (firstn k s)]; NRun nu f [CT (skipn k s)]] else None
  | _ => None end.

