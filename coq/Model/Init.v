From Coq Require Import List Bool Arith Lia.
Import ListNotations.

(* ---------- crash-safety of `adeu init` (C18) ---------- *)
(* contents of a file, abstractly: the complete previous configuration, the complete new one, or anything else
   (truncated / half-written / a half-finished copy) *)
Inductive content := Orig | New | Junk.
Record world := { cfg : option content; bak : option content }.

Inductive eff :=
| ECopy          (* shutil.copy2(cfg, backup) *)
| EPure          (* read, parse, compute, mkdir, print to stderr: no effect on cfg/bak; may raise *)
| EOpenW         (* open(cfg, "w"): truncates *)
| EWrite.        (* json.dump(data, f) *)
Inductive stmt :=
| SEff (e : eff)
| SIfExists (thn els : list stmt)      (* if config_path.exists(): decided by the world, not by the oracle *)
| SIf (thn els : list stmt)
| STry (body handler : list stmt)      (* handler may or may not match the exception: the oracle decides *)
| SExit.

(* what can happen at an effect: it completes, it raises before doing anything, or the process dies before / in the middle *)
Inductive fate := Done | Raise | CrashBefore | CrashDuring.
Definition oracle := nat -> fate.
Definition obool (o : oracle) (k : nat) : bool := match o k with Done => true | _ => false end.
Inductive outcome := Fell | Exited | Raised | Crashed | NoFuel.

Definition exists_cfg (w : world) : bool := match cfg w with Some _ => true | None => false end.
Definition do_eff (e : eff) (w : world) (f : fate) : world * outcome :=
  match f with
  | CrashBefore => (w, Crashed)
  | Raise =>
    match e with
    | ECopy => ({| cfg := cfg w; bak := Some Junk |}, Raised)      (* copy2 failed half-way *)
    | EWrite => ({| cfg := Some Junk; bak := bak w |}, Raised)     (* dump failed half-way *)
    | _ => (w, Raised)
    end
  | Done =>
    match e with
    | ECopy => ({| cfg := cfg w; bak := cfg w |}, Fell)
    | EPure => (w, Fell)
    | EOpenW => ({| cfg := Some Junk; bak := bak w |}, Fell)
    | EWrite => ({| cfg := Some New; bak := bak w |}, Fell)
    end
  | CrashDuring =>
    match e with
    | ECopy => ({| cfg := cfg w; bak := Some Junk |}, Crashed)
    | EPure => (w, Crashed)
    | EOpenW => ({| cfg := Some Junk; bak := bak w |}, Crashed)
    | EWrite => ({| cfg := Some Junk; bak := bak w |}, Crashed)
    end
  end.

Fixpoint run (fuel : nat) (ss : list stmt) (w : world) (o : oracle) (k : nat) : outcome * world * nat :=
  match fuel with
  | 0 => (NoFuel, w, k)
  | S f =>
    match ss with
    | [] => (Fell, w, k)
    | SEff e :: rest =>
      let '(w', oc) := do_eff e w (o k) in
      match oc with Fell => run f rest w' o (S k) | _ => (oc, w', S k) end
    | SExit :: _ => (Exited, w, k)
    | SIfExists a b :: rest =>
      let '(oc, w', k') := run f (if exists_cfg w then a else b) w o k in
      match oc with Fell => run f rest w' o k' | _ => (oc, w', k') end
    | SIf a b :: rest =>
      let '(oc, w', k') := run f (if obool o k then a else b) w o (S k) in
      match oc with Fell => run f rest w' o k' | _ => (oc, w', k') end
    | STry body h :: rest =>
      let '(oc, w', k') := run f body w o k in
      match oc with
      | Fell => run f rest w' o k'
      | Raised => if obool o k' then
                    let '(oc2, w2, k2) := run f h w' o (S k') in
                    match oc2 with Fell => run f rest w2 o k2 | _ => (oc2, w2, k2) end
                  else (Raised, w', S k')
      | _ => (oc, w', k')
      end
    end
  end.

(* the property: whatever happens, the complete previous configuration is still in cfg or in the backup *)
Definition Keeps (w0 w : world) : Prop := cfg w0 = Some Orig -> cfg w = Some Orig \/ bak w = Some Orig.

(* ---------- checker ---------- *)
(* abstract state: `safe_to_clobber` = (a completed copy of the present cfg exists) or (cfg is known absent) *)
Fixpoint size_s (s : stmt) : nat :=
  match s with
  | SIfExists a b | SIf a b | STry a b =>
      S ((fix go (l : list stmt) := match l with [] => 1 | x :: l' => size_s x + go l' end) a +
         (fix go (l : list stmt) := match l with [] => 1 | x :: l' => size_s x + go l' end) b)
  | _ => 1
  end.
Fixpoint size (ss : list stmt) : nat := match ss with [] => 1 | x :: r => size_s x + size r end.

(* abstract state: ok = a completed copy of the (still original) cfg exists, or cfg is known absent;
                   clob = cfg may already have been truncated/rewritten.
   ok only grows along a path, clob only grows; joins: ok by /\, clob by \/ *)
Fixpoint clob_s (s : stmt) : bool :=
  match s with
  | SEff EOpenW | SEff EWrite => true
  | SIfExists a b | SIf a b | STry a b =>
      (fix go (l : list stmt) := match l with [] => false | x :: l' => clob_s x || go l' end) a ||
      (fix go (l : list stmt) := match l with [] => false | x :: l' => clob_s x || go l' end) b
  | _ => false
  end.
Fixpoint clobbers (ss : list stmt) : bool := match ss with [] => false | x :: r => clob_s x || clobbers r end.
Fixpoint copy_s (s : stmt) : bool :=
  match s with
  | SEff ECopy => true
  | SIfExists a b | SIf a b | STry a b =>
      (fix go (l : list stmt) := match l with [] => false | x :: l' => copy_s x || go l' end) a ||
      (fix go (l : list stmt) := match l with [] => false | x :: l' => copy_s x || go l' end) b
  | _ => false
  end.
Fixpoint copies (ss : list stmt) : bool := match ss with [] => false | x :: r => copy_s x || copies r end.
Definition ast := (bool * bool)%type.
Definition meet (a b : ast) : ast := (fst a && fst b, snd a || snd b).
Fixpoint chk (fuel : nat) (st : ast) (ss : list stmt) : option ast :=
  match fuel with
  | 0 => None
  | S f =>
    let '(ok, clob) := st in
    match ss with
    | [] => Some st
    | SEff ECopy :: rest => if clob then None else chk f (true, false) rest
    | SEff EPure :: rest => chk f st rest
    | SEff EOpenW :: rest => if ok then chk f (true, true) rest else None
    | SEff EWrite :: rest => if ok then chk f (true, true) rest else None
    | SExit :: _ => Some (true, false)                       (* nothing falls through *)
    | SIfExists a b :: rest =>
        match chk f st a, chk f (true, clob) b with           (* else-branch: cfg absent, nothing to lose *)
        | Some x, Some y => chk f (meet x y) rest
        | _, _ => None end
    | SIf a b :: rest =>
        match chk f st a, chk f st b with
        | Some x, Some y => chk f (meet x y) rest
        | _, _ => None end
    | STry body h :: rest =>
        match chk f st body with
        | Some x =>
            (* the handler starts after some prefix of the body: ok is at least the entry ok; clob is bounded syntactically *)
            match chk f (ok && negb (copies body), clob || clobbers body) h with
            | Some y => chk f (meet x y) rest
            | None => None end
        | None => None end
    end
  end.
Definition crash_safe (ss : list stmt) : bool := match chk (size ss) (false, false) ss with Some _ => true | None => false end.

(* handle_init as skel.py reads it on the unchanged tree *)
Definition handle_init :=
  [STry [SEff EPure] [SExit];
   SIfExists [SEff EPure; SEff ECopy; STry [SEff EPure; SEff EPure; SIf [SEff EPure] []] [SEff EPure]] [];
   SIf [SEff EPure] [SEff EPure; SEff EPure; SIf [SEff EPure] []];
   SEff EPure; SEff EOpenW; SEff EWrite].
Definition handle_init_no_backup :=
  [SIfExists [SEff EPure] []; SEff EPure; SEff EOpenW; SEff EWrite].
Example init_ok : crash_safe handle_init = true. Proof. reflexivity. Qed.
Example init_bad : crash_safe handle_init_no_backup = false. Proof. reflexivity. Qed.

Lemma go_size0 l : (fix go (l : list stmt) := match l with [] => 1 | x :: l' => size_s x + go l' end) l = size l.
Proof. induction l as [|x l IH]; [reflexivity|]. cbn [size]. rewrite <- IH. reflexivity. Qed.
Lemma go_clob0 l : (fix go (l : list stmt) := match l with [] => false | x :: l' => clob_s x || go l' end) l = clobbers l.
Proof. induction l as [|x l IH]; [reflexivity|]. cbn [clobbers]. rewrite <- IH. reflexivity. Qed.
Lemma go_copy0 l : (fix go (l : list stmt) := match l with [] => false | x :: l' => copy_s x || go l' end) l = copies l.
Proof. induction l as [|x l IH]; [reflexivity|]. cbn [copies]. rewrite <- IH. reflexivity. Qed.
Lemma sz_ife a b : size_s (SIfExists a b) = S (size a + size b). Proof. cbn [size_s]. now rewrite !go_size0. Qed.
Lemma sz_if a b : size_s (SIf a b) = S (size a + size b). Proof. cbn [size_s]. now rewrite !go_size0. Qed.
Lemma sz_try a b : size_s (STry a b) = S (size a + size b). Proof. cbn [size_s]. now rewrite !go_size0. Qed.
Lemma cl_ife a b : clob_s (SIfExists a b) = clobbers a || clobbers b. Proof. cbn [clob_s]. now rewrite !go_clob0. Qed.
Lemma cl_if a b : clob_s (SIf a b) = clobbers a || clobbers b. Proof. cbn [clob_s]. now rewrite !go_clob0. Qed.
Lemma cl_try a b : clob_s (STry a b) = clobbers a || clobbers b. Proof. cbn [clob_s]. now rewrite !go_clob0. Qed.
Lemma cp_ife a b : copy_s (SIfExists a b) = copies a || copies b. Proof. cbn [copy_s]. now rewrite !go_copy0. Qed.
Lemma cp_if a b : copy_s (SIf a b) = copies a || copies b. Proof. cbn [copy_s]. now rewrite !go_copy0. Qed.
Lemma cp_try a b : copy_s (STry a b) = copies a || copies b. Proof. cbn [copy_s]. now rewrite !go_copy0. Qed.
Lemma copies_app a b : copies (a ++ b) = copies a || copies b.
Proof. induction a; simpl; auto. now rewrite IHa, orb_assoc. Qed.
Lemma clobbers_app a b : clobbers (a ++ b) = clobbers a || clobbers b.
Proof. induction a; simpl; auto. now rewrite IHa, orb_assoc. Qed.
Lemma size_pos0 ss : 1 <= size ss. Proof. induction ss; simpl; lia. Qed.
Lemma size_s_pos0 s : 1 <= size_s s. Proof. destruct s; simpl; lia. Qed.
Ltac bs0 := intros; repeat match goal with b : bool |- _ => destruct b end; simpl in *; try reflexivity; try discriminate; auto.

Lemma chk_bounds : forall f ss ok clob ok' clob', size ss <= f -> chk f (ok, clob) ss = Some (ok', clob') ->
  (ok && negb (copies ss) = true -> ok' = true) /\ (clob' = true -> clob || clobbers ss = true).
Proof.
  induction f as [|f IH]; intros ss ok clob ok' clob' Hsz H.
  { pose proof (size_pos0 ss). lia. }
  destruct ss as [|s rest]; cbn [chk] in H.
  - inversion H; subst. cbn [copies clobbers]. split; bs0.
  - cbn [size] in Hsz. pose proof (size_s_pos0 s). pose proof (size_pos0 rest).
    destruct s as [e|a b|a b|body h|].
    + destruct e; cbn [copies copy_s clobbers clob_s].
      * destruct clob; [discriminate|]. destruct (IH rest _ _ _ _ ltac:(lia) H) as [A B]. split; [bs0|]. intros E. specialize (B E). bs0.
      * destruct (IH rest _ _ _ _ ltac:(lia) H) as [A B]. split; [exact A|exact B].
      * destruct ok; [|discriminate]. destruct (IH rest _ _ _ _ ltac:(lia) H) as [A B]. split; [intros E; apply A; exact E|bs0].
      * destruct ok; [|discriminate]. destruct (IH rest _ _ _ _ ltac:(lia) H) as [A B]. split; [intros E; apply A; exact E|bs0].
    + rewrite sz_ife in Hsz. cbn [copies clobbers]. rewrite cp_ife, cl_ife.
      destruct (chk f (ok, clob) a) as [[xo xc]|] eqn:Ea; [|discriminate].
      destruct (chk f (true, clob) b) as [[yo yc]|] eqn:Eb; [|discriminate]. unfold meet in H. cbn [fst snd] in H.
      destruct (IH a _ _ _ _ ltac:(lia) Ea) as [A1 B1]. destruct (IH b _ _ _ _ ltac:(lia) Eb) as [A2 B2].
      destruct (IH rest _ _ _ _ ltac:(lia) H) as [A3 B3]. split.
      * intros E. apply A3. destruct ok; [|discriminate]. destruct (copies a), (copies b), (copies rest); try discriminate.
        rewrite A1, A2; reflexivity.
      * intros E. specialize (B3 E). destruct xc, yc, clob, (clobbers a), (clobbers b), (clobbers rest); simpl in *; auto;
          try (specialize (B1 eq_refl)); try (specialize (B2 eq_refl)); try discriminate.
    + rewrite sz_if in Hsz. cbn [copies clobbers]. rewrite cp_if, cl_if.
      destruct (chk f (ok, clob) a) as [[xo xc]|] eqn:Ea; [|discriminate].
      destruct (chk f (ok, clob) b) as [[yo yc]|] eqn:Eb; [|discriminate]. unfold meet in H. cbn [fst snd] in H.
      destruct (IH a _ _ _ _ ltac:(lia) Ea) as [A1 B1]. destruct (IH b _ _ _ _ ltac:(lia) Eb) as [A2 B2].
      destruct (IH rest _ _ _ _ ltac:(lia) H) as [A3 B3]. split.
      * intros E. apply A3. destruct ok; [|discriminate]. destruct (copies a), (copies b), (copies rest); try discriminate.
        rewrite A1, A2; reflexivity.
      * intros E. specialize (B3 E). destruct xc, yc, clob, (clobbers a), (clobbers b), (clobbers rest); simpl in *; auto;
          try (specialize (B1 eq_refl)); try (specialize (B2 eq_refl)); try discriminate.
    + rewrite sz_try in Hsz. cbn [copies clobbers]. rewrite cp_try, cl_try.
      destruct (chk f (ok, clob) body) as [[xo xc]|] eqn:Ea; [|discriminate].
      destruct (chk f (ok && negb (copies body), clob || clobbers body) h) as [[yo yc]|] eqn:Eb; [|discriminate].
      unfold meet in H. cbn [fst snd] in H.
      destruct (IH body _ _ _ _ ltac:(lia) Ea) as [A1 B1]. destruct (IH h _ _ _ _ ltac:(lia) Eb) as [A2 B2].
      destruct (IH rest _ _ _ _ ltac:(lia) H) as [A3 B3]. split.
      * intros E. apply A3. destruct ok; [|discriminate]. destruct (copies body), (copies h), (copies rest); try discriminate.
        rewrite A1, A2; reflexivity.
      * intros E. specialize (B3 E). destruct xc, yc, clob, (clobbers body), (clobbers h), (clobbers rest); simpl in *; auto;
          try (specialize (B1 eq_refl)); try (specialize (B2 eq_refl)); try discriminate.
    + inversion H; subst. split; [reflexivity|discriminate].
Qed.

(* ---------- soundness ---------- *)
Section Sound.
Variable w0 : world.
Definition Keeps' (w : world) : Prop := cfg w0 = Some Orig -> cfg w = Some Orig \/ bak w = Some Orig.
Definition I (w : world) (st : ast) : Prop :=
  Keeps' w /\ (fst st = true -> cfg w0 = Some Orig -> bak w = Some Orig) /\
  (snd st = false -> cfg w = cfg w0) /\ (cfg w = None -> cfg w0 = None).

Lemma I_mono w ok clob ok' clob' : I w (ok, clob) -> (ok' = true -> ok = true) -> (clob = true -> clob' = true) -> I w (ok', clob').
Proof. intros (K & A & B & C) H1 H2. simpl in *. split; [exact K|]. split; [|split; [|exact C]].
  - intros E. apply A; auto.
  - intros E. apply B. destruct clob; [|reflexivity]. rewrite (H2 eq_refl) in E. discriminate. Qed.

Lemma go_size l : (fix go (l : list stmt) := match l with [] => 1 | x :: l' => size_s x + go l' end) l = size l.
Proof. induction l as [|x l IH]; [reflexivity|]. cbn [size]. rewrite <- IH. reflexivity. Qed.
Lemma go_clob l : (fix go (l : list stmt) := match l with [] => false | x :: l' => clob_s x || go l' end) l = clobbers l.
Proof. induction l as [|x l IH]; [reflexivity|]. cbn [clobbers]. rewrite <- IH. reflexivity. Qed.
Lemma size_pos ss : 1 <= size ss. Proof. induction ss; simpl; lia. Qed.
Lemma size_s_pos s : 1 <= size_s s. Proof. destruct s; simpl; lia. Qed.
Lemma size_s_2 a b : size_s (SIfExists a b) = S (size a + size b) /\ size_s (SIf a b) = S (size a + size b) /\ size_s (STry a b) = S (size a + size b).
Proof. cbn [size_s]. now rewrite !go_size. Qed.
Lemma clob_s_2 a b : clob_s (SIfExists a b) = clobbers a || clobbers b /\ clob_s (SIf a b) = clobbers a || clobbers b /\ clob_s (STry a b) = clobbers a || clobbers b.
Proof. cbn [clob_s]. now rewrite !go_clob. Qed.

Lemma go_copy l : (fix go (l : list stmt) := match l with [] => false | x :: l' => copy_s x || go l' end) l = copies l.
Proof. induction l as [|x l IH]; [reflexivity|]. cbn [copies]. rewrite <- IH. reflexivity. Qed.
Lemma copy_s_2 a b : copy_s (SIfExists a b) = copies a || copies b /\ copy_s (SIf a b) = copies a || copies b /\ copy_s (STry a b) = copies a || copies b.
Proof. cbn [copy_s]. now rewrite !go_copy. Qed.

Definition Post (st st' : ast) (ss : list stmt) (oc : outcome) (w' : world) : Prop :=
  oc <> NoFuel /\ Keeps' w' /\
  (oc = Raised -> I w' (fst st && negb (copies ss), snd st || clobbers ss)) /\
  (oc = Fell -> I w' st').

Ltac bs := intros; repeat match goal with b : bool |- _ => destruct b end; simpl in *; try reflexivity; try discriminate; auto.
Ltac mono H := eapply I_mono; [exact H | bs | bs].

Lemma I_exists_else w st : I w st -> cfg w = None -> I w (true, snd st).
Proof. intros (K & A & B & C) E. split; [exact K|]. split; [|split; [exact B|exact C]].
  intros _ H. rewrite (C E) in H. discriminate. Qed.

Lemma post_lift st1 st1' ss1 st st' ss oc w' :
  Post st1 st1' ss1 oc w' -> (oc = Fell -> I w' st1' -> I w' st') ->
  (fst st && negb (copies ss) = true -> fst st1 && negb (copies ss1) = true) ->
  (snd st1 || clobbers ss1 = true -> snd st || clobbers ss = true) ->
  Post st st' ss oc w'.
Proof. intros (N & K & R & F) HF H1 H2. split; [exact N|]. split; [exact K|]. split.
  - intros E. eapply I_mono; [exact (R E)|exact H1|exact H2].
  - intros E. apply HF; auto. Qed.

Lemma chk_sound : forall f ss st w o k st',
  size ss <= f -> chk f st ss = Some st' -> I w st ->
  let '(oc, w', _) := run f ss w o k in Post st st' ss oc w'.
Proof.
  induction f as [|f IH]; intros ss [ok clob] w o k st' Hsz Hchk HI.
  { pose proof (size_pos ss). lia. }
  assert (HK : Keeps' w) by apply HI.
  destruct ss as [|s rest]; cbn [chk run] in *.
  - inversion Hchk; subst st'. split; [discriminate|]. split; [exact HK|]. split; [discriminate|]. intros _. exact HI.
  - cbn [size] in Hsz. pose proof (size_s_pos s) as Hs1. pose proof (size_pos rest) as Hr1.
    destruct s as [e|a b|a b|body h|].
    + (* effects *)
      assert (Crash : forall w1, Keeps' w1 -> Post (ok, clob) st' (SEff e :: rest) Crashed w1).
      { intros w1 K1. split; [discriminate|]. split; [exact K1|]. split; discriminate. }
      destruct HI as (K & A & B & C). simpl in A, B.
      destruct e.
      * (* Copy *) destruct clob; [discriminate|]. specialize (B eq_refl).
        assert (Kc : Keeps' {| cfg := cfg w; bak := Some Junk |}) by (intros H; left; simpl; rewrite B; exact H).
        unfold do_eff. destruct (o k).
        -- assert (I1 : I {| cfg := cfg w; bak := cfg w |} (true, false)).
           { split; [intros H; left; simpl; rewrite B; exact H|]. split; [intros _ H; simpl; rewrite B; exact H|].
             split; [intros _; exact B|exact C]. }
           pose proof (IH rest (true, false) _ o (S k) st' ltac:(lia) Hchk I1) as H.
           destruct (run f rest _ o (S k)) as [[oc w'] k']. destruct H as (N & K' & R & F).
           split; [exact N|]. split; [exact K'|]. split; [|exact F].
           intros E. specialize (R E). simpl in R. eapply I_mono; [exact R| |]; cbn [fst snd copies copy_s clobbers clob_s]; bs.
        -- split; [discriminate|]. split; [exact Kc|]. split; [|discriminate]. intros _.
           cbn [fst snd copies copy_s]. simpl. split; [exact Kc|]. split; [intros H; destruct ok; discriminate|]. split; [intros _; exact B|exact C].
        -- apply Crash. exact K.
        -- apply Crash. exact Kc.
      * (* Pure *) unfold do_eff. destruct (o k).
        -- pose proof (IH rest (ok, clob) w o (S k) st' ltac:(lia) Hchk (conj K (conj A (conj B C)))) as H.
           destruct (run f rest w o (S k)) as [[oc w'] k']. destruct H as (N & K' & R & F).
           split; [exact N|]. split; [exact K'|]. split; [|exact F].
           intros E. specialize (R E). eapply I_mono; [exact R| |]; cbn [fst snd copies copy_s clobbers clob_s]; bs.
        -- split; [discriminate|]. split; [exact K|]. split; [|discriminate]. intros _.
           eapply I_mono; [exact (conj K (conj A (conj B C)))| |]; cbn [fst snd]; bs.
        -- apply Crash. exact K.
        -- apply Crash. exact K.
      * (* OpenW *) destruct ok; [|discriminate]. 
        assert (Kj : Keeps' {| cfg := Some Junk; bak := bak w |}) by (intros H; right; simpl; apply A; auto).
        assert (I1 : I {| cfg := Some Junk; bak := bak w |} (true, true)).
        { split; [exact Kj|]. split; [intros _ H; simpl; apply A; auto|]. split; [discriminate|discriminate]. }
        unfold do_eff. destruct (o k).
        -- pose proof (IH rest (true, true) _ o (S k) st' ltac:(lia) Hchk I1) as H.
           destruct (run f rest _ o (S k)) as [[oc w'] k']. destruct H as (N & K' & R & F).
           split; [exact N|]. split; [exact K'|]. split; [|exact F].
           intros E. specialize (R E). eapply I_mono; [exact R| |]; cbn [fst snd copies copy_s clobbers clob_s]; bs.
        -- split; [discriminate|]. split; [exact K|]. split; [|discriminate]. intros _.
           eapply I_mono; [exact (conj K (conj A (conj B C)))| |]; cbn [fst snd]; bs.
        -- apply Crash. exact K.
        -- apply Crash. exact Kj.
      * (* Write *) destruct ok; [|discriminate].
        assert (Kj : Keeps' {| cfg := Some Junk; bak := bak w |}) by (intros H; right; simpl; apply A; auto).
        assert (Kn : Keeps' {| cfg := Some New; bak := bak w |}) by (intros H; right; simpl; apply A; auto).
        assert (I1 : I {| cfg := Some New; bak := bak w |} (true, true)).
        { split; [exact Kn|]. split; [intros _ H; simpl; apply A; auto|]. split; [discriminate|discriminate]. }
        unfold do_eff. destruct (o k).
        -- pose proof (IH rest (true, true) _ o (S k) st' ltac:(lia) Hchk I1) as H.
           destruct (run f rest _ o (S k)) as [[oc w'] k']. destruct H as (N & K' & R & F).
           split; [exact N|]. split; [exact K'|]. split; [|exact F].
           intros E. specialize (R E). eapply I_mono; [exact R| |]; cbn [fst snd copies copy_s clobbers clob_s]; bs.
        -- split; [discriminate|]. split; [exact Kj|]. split; [|discriminate]. intros _.
           cbn [fst snd clobbers clob_s]. simpl. split; [exact Kj|]. split; [intros _ H; simpl; apply A; auto|].
           split; [intros H; destruct clob; discriminate|discriminate].
        -- apply Crash. exact K.
        -- apply Crash. exact Kj.
    + (* IfExists *)
      rewrite sz_ife in Hsz.
      destruct (chk f (ok, clob) a) as [[xo xc]|] eqn:Ea; [|discriminate].
      destruct (chk f (true, clob) b) as [[yo yc]|] eqn:Eb; [|discriminate].
      destruct (chk_bounds f a _ _ _ _ ltac:(lia) Ea) as [Ba1 Ba2]. destruct (chk_bounds f b _ _ _ _ ltac:(lia) Eb) as [Bb1 Bb2].
      assert (Br : let '(oc, w', _) := run f (if exists_cfg w then a else b) w o k in
                   Post (ok, clob) (meet (xo, xc) (yo, yc)) (a ++ b) oc w').
      { destruct (exists_cfg w) eqn:Ex.
        - pose proof (IH a (ok, clob) w o k _ ltac:(lia) Ea HI) as H.
          destruct (run f a w o k) as [[oc w'] k']. eapply post_lift; [exact H| | |].
          + intros _ H1. eapply I_mono; [exact H1| |]; unfold meet; cbn [fst snd]; bs.
          + cbn [fst snd]. intros E. destruct ok; [|discriminate]. simpl in E |- *. 
            rewrite copies_app in E.
            destruct (copies a); [discriminate|reflexivity].
          + cbn [fst snd]. intros E. rewrite clobbers_app.
            destruct clob, (clobbers a), (clobbers b); simpl in *; auto; try discriminate.
        - assert (Ec : cfg w = None) by (unfold exists_cfg in Ex; destruct (cfg w); [discriminate|reflexivity]).
          pose proof (IH b (true, clob) w o k _ ltac:(lia) Eb (I_exists_else w (ok, clob) HI Ec)) as H.
          destruct (run f b w o k) as [[oc w'] k']. eapply post_lift; [exact H| | |].
          + intros _ H1. eapply I_mono; [exact H1| |]; unfold meet; cbn [fst snd]; bs.
          + cbn [fst snd]. intros E. destruct ok; [|discriminate]. simpl in E |- *.
            rewrite copies_app in E.
            destruct (copies a), (copies b); try discriminate; reflexivity.
          + cbn [fst snd]. intros E. rewrite clobbers_app.
            destruct clob, (clobbers a), (clobbers b); simpl in *; auto; try discriminate. }
      destruct (run f (if exists_cfg w then a else b) w o k) as [[oc w'] k'].
      assert (Lift : forall oc2 w2, Post (ok, clob) (meet (xo, xc) (yo, yc)) (a ++ b) oc2 w2 -> oc2 <> Fell ->
                     Post (ok, clob) st' (SIfExists a b :: rest) oc2 w2).
      { intros oc2 w2 P NF. eapply post_lift; [exact P| | |].
        - intros E; contradiction.
        - cbn [fst snd copies]. rewrite cp_ife. intros E. destruct ok; [|discriminate]. simpl in E |- *.
          rewrite copies_app.
          destruct (copies a), (copies b); try discriminate; reflexivity.
        - cbn [fst snd clobbers]. rewrite cl_ife.
          rewrite clobbers_app.
          intros E. destruct clob, (clobbers a), (clobbers b); simpl in *; auto; try discriminate. }
      destruct oc; try (apply Lift; [exact Br|discriminate]).
      destruct Br as (N & K' & R & F). specialize (F eq_refl).
      pose proof (IH rest _ w' o k' st' ltac:(lia) Hchk F) as H.
      destruct (run f rest w' o k') as [[oc2 w2] k2]. eapply post_lift; [exact H| | |].
      * intros _ H1; exact H1.
      * unfold meet. cbn [fst snd copies]. rewrite cp_ife. intros E. destruct ok; [|discriminate]. simpl in E.
        destruct (copies a) eqn:Ca, (copies b) eqn:Cb, (copies rest) eqn:Cr; try discriminate.
        rewrite Ba1, Bb1; auto.
      * unfold meet. cbn [fst snd clobbers]. rewrite cl_ife. intros E.
        destruct xc, yc, clob, (clobbers a), (clobbers b), (clobbers rest); simpl in *; auto;
          try (specialize (Ba2 eq_refl)); try (specialize (Bb2 eq_refl)); try discriminate.
    + (* If *)
      rewrite sz_if in Hsz.
      destruct (chk f (ok, clob) a) as [[xo xc]|] eqn:Ea; [|discriminate].
      destruct (chk f (ok, clob) b) as [[yo yc]|] eqn:Eb; [|discriminate].
      destruct (chk_bounds f a _ _ _ _ ltac:(lia) Ea) as [Ba1 Ba2]. destruct (chk_bounds f b _ _ _ _ ltac:(lia) Eb) as [Bb1 Bb2].
      assert (Br : let '(oc, w', _) := run f (if obool o k then a else b) w o (S k) in
                   Post (ok, clob) (meet (xo, xc) (yo, yc)) (a ++ b) oc w').
      { destruct (obool o k).
        - pose proof (IH a (ok, clob) w o (S k) _ ltac:(lia) Ea HI) as H.
          destruct (run f a w o (S k)) as [[oc w'] k']. eapply post_lift; [exact H| | |].
          + intros _ H1. eapply I_mono; [exact H1| |]; unfold meet; cbn [fst snd]; bs.
          + cbn [fst snd]. intros E. destruct ok; [|discriminate]. simpl in E |- *. rewrite copies_app in E.
            destruct (copies a); [discriminate|reflexivity].
          + cbn [fst snd]. intros E. rewrite clobbers_app.
            destruct clob, (clobbers a), (clobbers b); simpl in *; auto; try discriminate.
        - pose proof (IH b (ok, clob) w o (S k) _ ltac:(lia) Eb HI) as H.
          destruct (run f b w o (S k)) as [[oc w'] k']. eapply post_lift; [exact H| | |].
          + intros _ H1. eapply I_mono; [exact H1| |]; unfold meet; cbn [fst snd]; bs.
          + cbn [fst snd]. intros E. destruct ok; [|discriminate]. simpl in E |- *. rewrite copies_app in E.
            destruct (copies a), (copies b); try discriminate; reflexivity.
          + cbn [fst snd]. intros E. rewrite clobbers_app.
            destruct clob, (clobbers a), (clobbers b); simpl in *; auto; try discriminate. }
      destruct (run f (if obool o k then a else b) w o (S k)) as [[oc w'] k'].
      assert (Lift : forall oc2 w2, Post (ok, clob) (meet (xo, xc) (yo, yc)) (a ++ b) oc2 w2 -> oc2 <> Fell ->
                     Post (ok, clob) st' (SIf a b :: rest) oc2 w2).
      { intros oc2 w2 P NF. eapply post_lift; [exact P| | |].
        - intros E; contradiction.
        - cbn [fst snd copies]. rewrite cp_if. intros E. destruct ok; [|discriminate]. simpl in E |- *.
          rewrite copies_app.
          destruct (copies a), (copies b); try discriminate; reflexivity.
        - cbn [fst snd clobbers]. rewrite cl_if. rewrite clobbers_app.
          intros E. destruct clob, (clobbers a), (clobbers b); simpl in *; auto; try discriminate. }
      destruct oc; try (apply Lift; [exact Br|discriminate]).
      destruct Br as (N & K' & R & F). specialize (F eq_refl).
      pose proof (IH rest _ w' o k' st' ltac:(lia) Hchk F) as H.
      destruct (run f rest w' o k') as [[oc2 w2] k2]. eapply post_lift; [exact H| | |].
      * intros _ H1; exact H1.
      * unfold meet. cbn [fst snd copies]. rewrite cp_if. intros E. destruct ok; [|discriminate]. simpl in E.
        destruct (copies a) eqn:Ca, (copies b) eqn:Cb, (copies rest) eqn:Cr; try discriminate.
        rewrite Ba1, Bb1; auto.
      * unfold meet. cbn [fst snd clobbers]. rewrite cl_if. intros E.
        destruct xc, yc, clob, (clobbers a), (clobbers b), (clobbers rest); simpl in *; auto;
          try (specialize (Ba2 eq_refl)); try (specialize (Bb2 eq_refl)); try discriminate.
    + (* Try *)
      rewrite sz_try in Hsz.
      destruct (chk f (ok, clob) body) as [[xo xc]|] eqn:Ea; [|discriminate].
      destruct (chk f (ok && negb (copies body), clob || clobbers body) h) as [[yo yc]|] eqn:Eb; [|discriminate].
      destruct (chk_bounds f body _ _ _ _ ltac:(lia) Ea) as [Ba1 Ba2]. destruct (chk_bounds f h _ _ _ _ ltac:(lia) Eb) as [Bb1 Bb2].
      pose proof (IH body (ok, clob) w o k _ ltac:(lia) Ea HI) as Hb.
      destruct (run f body w o k) as [[oc w'] k']. destruct Hb as (N & K' & R & F).
      assert (Cont : forall w1 k1, I w1 (meet (xo, xc) (yo, yc)) ->
                let '(oc2, w2, _) := run f rest w1 o k1 in Post (ok, clob) st' (STry body h :: rest) oc2 w2).
      { intros w1 k1 I1. pose proof (IH rest _ w1 o k1 st' ltac:(lia) Hchk I1) as H.
        destruct (run f rest w1 o k1) as [[oc2 w2] k2]. eapply post_lift; [exact H| | |].
        - intros _ H1; exact H1.
        - unfold meet. cbn [fst snd copies]. rewrite cp_try. intros E. destruct ok; [|discriminate]. simpl in E.
          destruct (copies body) eqn:Ca, (copies h) eqn:Cb, (copies rest) eqn:Cr; try discriminate.
          rewrite Ba1, Bb1; auto.
        - unfold meet. cbn [fst snd clobbers]. rewrite cl_try. intros E.
          destruct xc, yc, clob, (clobbers body), (clobbers h), (clobbers rest); simpl in *; auto;
            try (specialize (Ba2 eq_refl)); try (specialize (Bb2 eq_refl)); try discriminate. }
      destruct oc.
      * (* body fell through *)
        apply Cont. eapply I_mono; [exact (F eq_refl)| |]; unfold meet; cbn [fst snd]; bs.
      * split; [discriminate|]. split; [exact K'|]. split; discriminate.
      * (* raised in the body *)
        specialize (R eq_refl). cbn [fst snd] in R.
        destruct (obool o k').
        -- pose proof (IH h _ w' o (S k') _ ltac:(lia) Eb R) as Hh.
           destruct (run f h w' o (S k')) as [[oc2 w2] k2]. destruct Hh as (N2 & K2 & R2 & F2).
           destruct oc2.
           ++ apply Cont. eapply I_mono; [exact (F2 eq_refl)| |]; unfold meet; cbn [fst snd]; bs.
           ++ split; [discriminate|]. split; [exact K2|]. split; discriminate.
           ++ split; [discriminate|]. split; [exact K2|]. split; [|discriminate]. intros _.
              eapply I_mono; [exact (R2 eq_refl)| |]; cbn [fst snd copies clobbers]; rewrite ?cp_try, ?cl_try.
              ** intros E. destruct ok; [|discriminate]. simpl in E |- *.
                 destruct (copies body), (copies h), (copies rest); try discriminate; reflexivity.
              ** intros E. destruct clob, (clobbers body), (clobbers h), (clobbers rest); simpl in *; auto; try discriminate.
           ++ split; [discriminate|]. split; [exact K2|]. split; discriminate.
           ++ contradiction.
        -- split; [discriminate|]. split; [exact K'|]. split; [|discriminate]. intros _.
           eapply I_mono; [exact R| |]; cbn [fst snd copies clobbers]; rewrite ?cp_try, ?cl_try.
           ++ intros E. destruct ok; [|discriminate]. simpl in E |- *.
              destruct (copies body), (copies h), (copies rest); try discriminate; reflexivity.
           ++ intros E. destruct clob, (clobbers body), (clobbers h), (clobbers rest); simpl in *; auto; try discriminate.
      * split; [discriminate|]. split; [exact K'|]. split; discriminate.
      * contradiction.
    + (* Exit *) inversion Hchk; subst st'. split; [discriminate|]. split; [exact HK|]. split; discriminate.
Qed.

Theorem crash_safe_sound ss : crash_safe ss = true -> forall o,
  let '(oc, w', _) := run (size ss) ss w0 o 0 in Keeps w0 w' /\ oc <> NoFuel.
Proof.
  unfold crash_safe. intros H o. destruct (chk (size ss) (false, false) ss) as [st'|] eqn:E; [|discriminate].
  assert (I0 : I w0 (false, false)).
  { split; [intros H0; left; exact H0|]. split; [discriminate|]. split; [reflexivity|]. intros H0; exact H0. }
  pose proof (chk_sound (size ss) ss (false, false) w0 o 0 st' (le_n _) E I0) as P.
  destruct (run (size ss) ss w0 o 0) as [[oc w'] k']. destruct P as (N & K & _). split; [exact K|exact N].
Qed.
End Sound.
Print Assumptions crash_safe_sound.
