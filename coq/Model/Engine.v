(* The writer: DocumentMapper queries and RedlineEngine edit application, as the code stands after the repairs.
   Inline new text and block insertions (new text with line breaks and / or Markdown heading lines: track_insert creates
   new paragraphs after the paragraph of the anchor) are both modelled.
   Every mutation of the document goes through the uid-addressed primitives of Prims.v. *)
From Coq Require Import List NArith ZArith Bool Arith.
Import ListNotations.
From Adeu Require Import Str Chars Doc Norm Prims ParaMachine Project DocOps Review Trim MarkupX Inst.

(* ---------- numbers as w:id strings ---------- *)
Definition digit_of (c : char) : option nat :=
  if N.leb 48 c && N.leb c 57 then Some (N.to_nat (c - 48)) else None.
Fixpoint nat_of_str_aux (s : str) (acc : nat) : option nat :=
  match s with [] => Some acc | c :: s' => match digit_of c with Some d => nat_of_str_aux s' (10 * acc + d) | None => None end end.
Definition nat_of_str (s : str) : option nat := match s with [] => None | _ => nat_of_str_aux s 0 end.
Definition str_of_nat (n : nat) : str := show_nat n.

(* ---------- spans with offsets and enclosing marks ---------- *)
Record ospan := { o_start : nat; o_end : nat; o_text : str; o_real : bool; o_uid : nat; o_pid : option nat;
                  o_ins : option str; o_del : option str }.
Fixpoint find_mark_in (uid : nat) (ns : list node) : option (wkind * mark) :=
  match ns with
  | [] => None
  | NWrap _ k m cs :: r => if existsb (is_run uid) cs then Some (k, m) else find_mark_in uid r
  | _ :: r => find_mark_in uid r
  end.
Definition find_mark (uid : nat) (d : doc) : option (wkind * mark) :=
  fold_left (fun acc p => match acc with Some _ => acc | None => find_mark_in uid (p_nodes p) end) (doc_paras d) None.
Fixpoint offsets (d : doc) (l : list span) (off : nat) : list ospan :=
  match l with
  | [] => []
  | s :: r =>
    let m := if sp_real s then find_mark (sp_uid s) d else None in
    {| o_start := off; o_end := off + length (sp_text s); o_text := sp_text s; o_real := sp_real s; o_uid := sp_uid s; o_pid := sp_pid s;
       o_ins := match m with Some (KIns, mk) => Some (m_id mk) | _ => None end;
       o_del := match m with Some (KDel, mk) => Some (m_id mk) | _ => None end |} :: offsets d r (off + length (sp_text s))
  end.
(* cm: the comments the mapper extracted when it was constructed (DocumentMapper.comments_map is never refreshed) *)
Definition with_comments (d : doc) (cm : list comment) : doc := {| d_stories := d_stories d; d_comments := cm; d_next_uid := d_next_uid d |}.
Definition build_map (clean : bool) (cm : list comment) (d : doc) : list ospan := offsets d (doc_spans_u clean (with_comments d cm)) 0.
Definition map_text (sp : list ospan) : str := flat_map o_text sp.
Definition sub (s : str) (a len : nat) : str := firstn len (skipn a s).

(* ---------- mapper queries ---------- *)
Definition offset_in_run (sp : list ospan) (x : ospan) : nat :=
  fold_left (fun a s => if o_real s && Nat.eqb (o_uid s) (o_uid x) && (o_start s <? o_start x) then a + length (o_text s) else a) sp 0.
Definition first_some {A B} (f : A -> option B) : list A -> option B :=
  fix go (l : list A) : option B := match l with [] => None | x :: r => match f x with Some y => Some y | None => go r end end.
Fixpoint find_run_node (uid : nat) (n : node) : option node :=
  match n with
  | NRun u f k => if Nat.eqb u uid then Some n else None
  | NWrap _ _ _ cs => first_some (find_run_node uid) cs
  | _ => None
  end.
Definition find_run_in (uid : nat) (ns : list node) : option node := first_some (find_run_node uid) ns.
Definition find_run (uid : nat) (d : doc) : option node :=
  fold_left (fun acc p => match acc with Some _ => acc | None => find_run_in uid (p_nodes p) end) (doc_paras d) None.
Definition para_of_run (uid : nat) (d : doc) : option nat :=
  option_map p_id (find (fun p => match find_run_in uid (p_nodes p) with Some _ => true | None => false end) (doc_paras d)).
Definition run_kids (uid : nat) (d : doc) : list rchild := match find_run uid d with Some (NRun _ _ k) => k | _ => [] end.
Definition run_rpr (uid : nat) (d : doc) : rpr := match find_run uid d with Some (NRun _ f _) => f | _ => None end.
(* is the run a direct child of its paragraph? *)
Definition is_direct (uid : nat) (d : doc) : bool := existsb (fun p => existsb (is_run uid) (p_nodes p)) (doc_paras d).

Definition upd_doc (f : node -> option (list node)) (d : doc) : doc := map_doc (fun p => with_nodes p (upd_l f (p_nodes p))) d.
Definition fresh (d : doc) : doc * nat :=
  ({| d_stories := d_stories d; d_comments := d_comments d; d_next_uid := S (d_next_uid d) |}, d_next_uid d).
Definition do_split (d : doc) (uid k : nat) : doc * nat * nat :=       (* (doc, left uid, right uid) *)
  let '(d1, nu) := fresh d in (upd_doc (split_run uid nu k) d1, uid, nu).

Definition dedup (l : list nat) : list nat := fold_left (fun acc x => if existsb (Nat.eqb x) acc then acc else acc ++ [x]) l [].
Definition last_opt {A} (l : list A) : option A := match rev l with x :: _ => Some x | [] => None end.

(* _resolve_runs_at_range: (doc', uids of the runs covering exactly [a,b), modified?) *)
Definition resolve (d : doc) (sp : list ospan) (a b : nat) : doc * list nat * bool :=
  let aff := filter (fun s => (a <? o_end s) && (o_start s <? b)) sp in
  let real := filter o_real aff in
  match real with
  | [] => (d, [], false)
  | first :: _ =>
    let work := map o_uid real in
    let ro := offset_in_run sp first + (a - o_start first) in
    let '(d1, work1, modif, adj) :=
      if 0 <? ro then
        let '(d', _, rgt) := do_split d (o_uid first) ro in
        (d', map (fun s => if Nat.eqb (o_uid s) (o_uid first) then rgt else o_uid s) real, true, ro)
      else (d, work, false, 0) in
    match last_opt real, last_opt work1 with
    | Some last, Some rts =>
      let same := Nat.eqb (o_uid first) (o_uid last) in
      let le0 := offset_in_run sp last + (Nat.min (o_end last) b - o_start last) in
      let le := if same && (0 <? adj) then le0 - adj else le0 in
      if (0 <? le) && (le <? length (run_text (run_kids rts d1))) then
        let '(d2, lft, _) := do_split d1 rts le in
        (d2, dedup (removelast work1 ++ [lft]), true)
      else (d1, dedup work1, modif)
    | _, _ => (d1, dedup work1, modif)
    end
  end.

(* get_insertion_anchor *)
(* the anchor after a real span: the span may end in the middle of its run (a run with line breaks has several spans): split there *)
Definition after_span (d : doc) (sp : list ospan) (s : ospan) : doc * option nat :=
  let ro := offset_in_run sp s + length (o_text s) in
  if ro <? length (run_text (run_kids (o_uid s) d)) then let '(d', l, _) := do_split d (o_uid s) ro in (d', Some l)
  else (d, Some (o_uid s)).
(* last real span ending before the index (fix D49: same treatment as a span ending at the index) *)
Definition gap_anchor (d : doc) (sp : list ospan) (index : nat) : doc * option nat :=
  match last_opt (filter (fun s => o_real s && (o_end s <? index)) sp) with
  | Some s => after_span d sp s
  | None => (d, None) end.
Definition insertion_anchor (d : doc) (sp : list ospan) (index : nat) : doc * option nat :=
  let prec := filter (fun s => Nat.eqb (o_end s) index) sp in
  match last_opt prec with
  | Some s => if o_real s then after_span d sp s
              else
      (* fall through *)
      match filter (fun s => (o_start s <? index) && (index <? o_end s)) sp with
      | c :: _ => if o_real c then let '(d', l, _) := do_split d (o_uid c) (offset_in_run sp c + (index - o_start c)) in (d', Some l)
                  else (d, None)       (* unreachable: a preceding span ends at index, so none strictly contains it *)
      | [] => if Nat.eqb index 0 then (d, option_map o_uid (find o_real sp))
              else gap_anchor d sp index
      end
  | None =>
      match filter (fun s => (o_start s <? index) && (index <? o_end s)) sp with
      | c :: _ =>
          if o_real c then let '(d', l, _) := do_split d (o_uid c) (offset_in_run sp c + (index - o_start c)) in (d', Some l)
          else if Nat.eqb index 0 then (d, option_map o_uid (find o_real sp))
          else gap_anchor d sp index
      | [] => if Nat.eqb index 0 then (d, option_map o_uid (find o_real sp))
              else gap_anchor d sp index
      end
  end.

(* ---------- inline Markdown (the D20 pattern), heading detection ---------- *)
Section Inline.
Variable isspace isword : char -> bool.
Definition c_starN : char := 42%N. Definition c_usN : char := 95%N.
Definition not_ws_or (x : char) (c : char) : bool := negb (isspace c) && negb (N.eqb c x).
(* bold at the head of s (s starts at the candidate position): returns the length of the whole match *)
Fixpoint bold_end (rest : str) (e : nat) : option nat :=     (* rest = s from index e (>= 2); find minimal e with s[e] ok and s[e+1..e+2] = "**" *)
  match rest with
  | c :: ((c1 :: c2 :: _) as r') =>
      if not_ws_or c_starN c && N.eqb c1 c_starN && N.eqb c2 c_starN then Some (e + 3) else bold_end r' (S e)
  | _ => None
  end.
Definition match_bold (s : str) : option nat :=
  match s with
  | a :: b :: ((c :: _) as r) => if N.eqb a c_starN && N.eqb b c_starN && not_ws_or c_starN c then bold_end r 2 else None
  | _ => None
  end.
Fixpoint ital_end (rest : str) (e : nat) : option nat :=     (* rest = s from index e (>= 1) *)
  match rest with
  | c :: ((c1 :: r2) as r') =>
      if not_ws_or c_usN c && N.eqb c1 c_usN && (match r2 with [] => true | x :: _ => negb (isword x || N.eqb x c_usN) end)
      then Some (e + 2) else ital_end r' (S e)
  | _ => None
  end.
Definition match_ital (prev : option char) (s : str) : option nat :=
  match s with
  | a :: ((c :: _) as r) =>
      if N.eqb a c_usN && (match prev with None => true | Some p => negb (isword p || N.eqb p c_usN) end) && not_ws_or c_usN c
      then ital_end r 1 else None
  | _ => None
  end.
(* leftmost match: (start, length, is_bold) *)
Fixpoint search (s : str) (prev : option char) (i : nat) : option (nat * nat * bool) :=
  match match_bold s with
  | Some l => Some (i, l, true)
  | None =>
    match match_ital prev s with
    | Some l => Some (i, l, false)
    | None => match s with [] => None | c :: s' => search s' (Some c) (S i) end
    end
  end.
(* segments: (text, bold, italic) *)
Fixpoint parse_inline (fuel : nat) (s : str) (b i : bool) : list (str * bool * bool) :=
  match fuel with
  | 0 => match s with [] => [] | _ => [(s, b, i)] end
  | S f =>
    match s with
    | [] => []
    | _ =>
      match search s None 0 with
      | None => [(s, b, i)]
      | Some (st, len, isb) =>
        let pre := firstn st s in
        let inner := if isb then sub s (st + 2) (len - 4) else sub s (st + 1) (len - 2) in
        let post := skipn (st + len) s in
        (match pre with [] => [] | _ => [(pre, b, i)] end) ++
        parse_inline f inner (if isb then true else b) (if isb then i else true) ++ parse_inline f post b i
      end
    end
  end.
Definition c_hashN : char := 35%N.
Fixpoint strip_hashes (s : str) : str := match s with c :: s' => if N.eqb c c_hashN then strip_hashes s' else s | [] => [] end.
Definition is_heading_line (s : str) : bool :=
  match s with
  | c :: _ => N.eqb c c_hashN && (match strip_hashes s with x :: _ => N.eqb x 32%N | [] => false end)
  | [] => false end.
Definition inline_text (s : str) : bool := negb (existsb (fun c => N.eqb c 10%N || N.eqb c 13%N) s) && negb (is_heading_line s).
End Inline.

(* _apply_run_props *)
(* set the value of the first rPr token with this tag *)
Fixpoint set_first (tag v : N) (l : list (N * N)) (done : bool) : list (N * N) :=
  match l with [] => [] | (t, v0) :: r => if N.eqb t tag && negb done then (t, v) :: set_first tag v r true else (t, v0) :: set_first tag v r done end.
Definition set_prop (tag : N) (on suppress : bool) (l : list (N * N)) : list (N * N) :=
  if on then (if existsb (fun tv => N.eqb (fst tv) tag) l then set_first tag 2%N l false else l ++ [(tag, 2%N)])   (* w:val="1" *)
  else if suppress then set_first tag 0%N l false
  else l.
Definition apply_run_props (f : rpr) (b i suppress : bool) : rpr :=
  if negb b && negb i && negb suppress then f
  else Some (set_prop t_i i suppress (set_prop t_b b suppress (match f with Some l => l | None => [] end))).

(* ---------- engine state ---------- *)
Record eng := { e_doc : doc; e_cur : nat; e_next_c : nat; e_author : str; e_ts : str }.
Definition with_doc (e : eng) (d : doc) : eng := {| e_doc := d; e_cur := e_cur e; e_next_c := e_next_c e; e_author := e_author e; e_ts := e_ts e |}.
Fixpoint node_ids (n : node) : list nat :=
  match n with
  | NWrap _ _ m cs => (match nat_of_str (m_id m) with Some k => [k] | None => [] end) ++ flat_map node_ids cs
  | _ => [] end.
Definition max_list (l : list nat) : nat := fold_left Nat.max l 0.
Definition scan_ids (d : doc) : nat := max_list (flat_map (fun p => flat_map node_ids (p_nodes p)) (doc_paras d)).
Definition next_comment_id (d : doc) : nat :=
  S (max_list (flat_map (fun c => match nat_of_str (c_id c) with Some k => [k] | None => [] end) (d_comments d))).
Definition mk_engine (d : doc) (author ts : str) : eng :=
  let d' := normalize_doc d in {| e_doc := d'; e_cur := scan_ids d'; e_next_c := next_comment_id d'; e_author := author; e_ts := ts |}.
Definition new_mark (e : eng) : eng * mark :=
  ({| e_doc := e_doc e; e_cur := S (e_cur e); e_next_c := e_next_c e; e_author := e_author e; e_ts := e_ts e |},
   {| m_id := str_of_nat (S (e_cur e)); m_author := e_author e; m_date := e_ts e |}).
Definition fresh_e (e : eng) : eng * nat := let '(d, u) := fresh (e_doc e) in (with_doc e d, u).

(* _track_insert_inline: the w:ins element with one run per Markdown segment *)
Definition ins_inline (e : eng) (text : str) (anchor : rpr) (suppress : bool) : eng * node :=
  let segs := parse_inline isspace_u isword_u (S (length text)) text false false in
  let '(e1, runs) := fold_left (fun acc seg => let '(e0, rs) := acc in let '(t, b, i) := seg in
                                  let '(e0', u) := fresh_e e0 in (e0', rs ++ [(u, apply_run_props anchor b i suppress, [CT t])])) segs (e, []) in
  let '(e2, iu) := fresh_e e1 in
  let '(e3, m) := new_mark e2 in
  (e3, ins_node iu m runs).
Definition node_uid (n : node) : nat := match n with NRun u _ _ | NWrap u _ _ _ => u | _ => 0 end.

(* comments: add_comment + _attach_comment (start element / end element addressed by uid, same parent) *)
Definition rpr_cref : rpr := Some [(104%N, 0%N)].        (* <w:rStyle w:val="CommentReference"/> is entry 4 of the harness rPr table *)
Definition attach (e : eng) (su eu : nat) (text : str) : eng :=
  match text with
  | [] => e
  | _ =>
    let cid := str_of_nat (e_next_c e) in
    let d := e_doc e in
    let d1 := {| d_stories := d_stories d; d_next_uid := d_next_uid d;
                 d_comments := d_comments d ++ [{| c_id := cid; c_author := e_author e; c_date := e_ts e; c_text := text; c_parent := None |}] |} in
    let '(d2, ru) := fresh d1 in
    {| e_doc := upd_doc (anchor su eu cid ru rpr_cref) d2; e_cur := e_cur e; e_next_c := S (e_next_c e); e_author := e_author e; e_ts := e_ts e |}
  end.

Definition delete_run (e : eng) (uid : nat) : eng * nat :=
  let '(e1, du) := fresh_e e in
  let '(e2, m) := new_mark e1 in
  (with_doc e2 (upd_doc (wrap_del uid du m) (e_doc e2)), du).
Definition place_after (e : eng) (uid : nat) (n : node) : eng := with_doc e (upd_doc (insert_after uid n) (e_doc e)).
Definition place_before (e : eng) (uid : nat) (n : node) : eng := with_doc e (upd_doc (insert_before uid n) (e_doc e)).

(* next w:r sibling of a run (same parent) that has a w:t child *)
Fixpoint next_sibling_run (uid : nat) (l : list node) : option (option node) :=     (* Some r = the run is a direct element; r = its next run sibling *)
  match l with
  | [] => None
  | NRun u _ _ :: r => if Nat.eqb u uid then Some (find (fun n => match n with NRun _ _ k => existsb (fun x => match x with CT _ => true | _ => false end) k | _ => false end) r) else next_sibling_run uid r
  | _ :: r => next_sibling_run uid r
  end.
Fixpoint next_run_node (uid : nat) (n : node) : option (option node) :=
  match n with
  | NWrap _ _ _ cs => match next_sibling_run uid cs with Some x => Some x | None => first_some (next_run_node uid) cs end
  | _ => None
  end.
Definition next_run_in (uid : nat) (ns : list node) : option (option node) :=
  match next_sibling_run uid ns with Some x => Some x | None => first_some (next_run_node uid) ns end.
Definition next_run (uid : nat) (d : doc) : option node :=
  match fold_left (fun acc p => match acc with Some _ => acc | None => next_run_in uid (p_nodes p) end) (doc_paras d) None with
  | Some (Some n) => Some n | _ => None end.

(* ---------- block insertions: track_insert on text with line breaks / heading lines ---------- *)
Definition is_nl (c : char) : bool := N.eqb c 10%N || N.eqb c 13%N.
(* re.split(r"[\r\n]+", s) *)
Fixpoint split_lines_aux (s cur : str) (in_sep : bool) : list str :=
  match s with
  | [] => [rev cur]
  | c :: r => if is_nl c then (if in_sep then split_lines_aux r cur true else rev cur :: split_lines_aux r [] true)
              else split_lines_aux r (c :: cur) false
  end.
Definition split_lines (s : str) : list str := split_lines_aux s [] false.
Fixpoint count_hashes (s : str) : nat := match s with c :: r => if N.eqb c c_hashN then S (count_hashes r) else 0 | [] => 0 end.
Fixpoint drop_ws (s : str) : str := match s with c :: r => if isspace_u c then drop_ws r else s | [] => [] end.
Definition strip_ws (s : str) : str := rev (drop_ws (rev (drop_ws s))).
(* _parse_markdown_style: (text, heading level). Note: leading '#'s not followed by a space are dropped without a style. *)
Definition md_style (s : str) : str * option nat :=
  match s with
  | c :: _ => if N.eqb c c_hashN then
                let rest := strip_hashes s in
                match rest with
                | x :: _ => if N.eqb x 32%N then (strip_ws rest, Some (count_hashes s)) else (rest, None)
                | [] => ([], None) end
              else (s, None)
  | [] => ([], None) end.
(* heading levels above 9 have no style in the template: outside *)
Definition block_ok (s : str) : bool := forallb (fun l => match snd (md_style l) with Some k => k <=? 9 | None => true end) (s :: split_lines s).
(* the story (index in iter_document_parts order) a paragraph belongs to *)
Definition story_of (pid : nat) (d : doc) : option nat :=
  (fix go (l : list story) (i : nat) : option nat :=
     match l with
     | [] => None
     | st :: r => if existsb (fun p => Nat.eqb (p_id p) pid) (flat_map block_paras (s_blocks st)) then Some i else go r (S i)
     end) (d_stories d) 0.
Definition para_rec (uid : nat) (d : doc) : option para :=
  find (fun p => match find_run_in uid (p_nodes p) with Some _ => true | None => false end) (doc_paras d).
(* paragraph-property tokens are opaque except for one: token 5 is "only a section break" (a section-ending paragraph); the copy
   made for an inserted paragraph leaves the section break out (fix D52) *)
Definition ppr_no_sect (t : N) : N := if N.eqb t 5 then 0%N else t.
(* one new paragraph holding one w:ins: heading style, or a copy of the current paragraph's properties *)
Definition new_para (e : eng) (text : str) (anchor : rpr) (suppress : bool) (style : option nat) (cur : para) : eng * para * nat :=
  let '(e1, ins) := ins_inline e text anchor suppress in
  let '(e2, pid) := fresh_e e1 in
  (e2, {| p_id := pid; p_ppr := match style with Some _ => 0%N | None => ppr_no_sect (p_ppr cur) end;
          p_style := match style with Some l => PSHeading l | None => p_style cur end; p_nodes := [ins] |}, node_uid ins).
(* body.insert(p_index + 1 + i, new_p): positions are taken in the block list that holds the current paragraph *)
Fixpoint insert_at {A} (i : nat) (x : A) (l : list A) : list A :=
  match i, l with 0, _ => x :: l | S k, y :: r => y :: insert_at k x r | S _, [] => [x] end.
Fixpoint index_of_para (pid : nat) (bs : list block) (i : nat) : option nat :=
  match bs with
  | [] => None
  | BPara p :: r => if Nat.eqb (p_id p) pid then Some i else index_of_para pid r (S i)
  | _ :: r => index_of_para pid r (S i) end.
Definition place_here (pid : nat) (news : list (nat * para)) (bs : list block) : list block :=
  match index_of_para pid bs 0 with
  | Some k => fold_left (fun acc ip => insert_at (k + 1 + fst ip) (BPara (snd ip)) acc) news bs
  | None => bs end.
Fixpoint place_block (pid : nat) (news : list (nat * para)) (b : block) : block :=
  match b with
  | BPara p => b
  | BTbl t rows => BTbl t (map (fun r => map (fun c => (fst c, place_here pid news (map (place_block pid news) (snd c)))) r) rows)
  end.
Definition place_paras (pid : nat) (news : list (nat * para)) (d : doc) : doc :=
  {| d_stories := map (fun s => {| s_kind := s_kind s; s_blocks := place_here pid news (map (place_block pid news) (s_blocks s)) |}) (d_stories d);
     d_comments := d_comments d; d_next_uid := d_next_uid d |}.
Definition new_paras_step (anchor : rpr) (suppress : bool) (cur : para) (skip_empty : bool)
    (acc : eng * list (nat * para) * list nat * nat) (line : str) : eng * list (nat * para) * list nat * nat :=
  let '(e0, ns, cr, i) := acc in
  let '(ct, st) := md_style line in
  if skip_empty && match ct, st with [], None => true | _, _ => false end then (e0, ns, cr, S i)
  else let '(e0', p, iu) := new_para e0 ct anchor suppress st cur in (e0', ns ++ [(i, p)], cr ++ [iu], S i).
(* track_insert. Result: engine, the inline w:ins the caller still has to place (None on the heading path, where the
   comment is attached here, on the created paragraphs) *)
Definition track_insert (e : eng) (text : str) (anchor : rpr) (cur : para) (comment : str) (suppress : bool) : eng * option node :=
  match split_lines text with
  | [] => (e, None)
  | l0 :: rest =>
    match snd (md_style l0) with
    | Some _ =>
      let '(e1, news, created, _) := fold_left (new_paras_step anchor suppress cur true) (l0 :: rest) (e, [], [], 0) in
      let e2 := with_doc e1 (place_paras (p_id cur) news (e_doc e1)) in
      (match created with
       | c0 :: _ => attach e2 c0 (match last_opt created with Some x => x | None => c0 end) comment
       | [] => e2 end, None)
    | None =>
      let rest' := match last_opt rest with Some [] => removelast rest | _ => rest end in
      (* new text that starts with a line break has no inline part (fix D45): no empty w:ins; the comment goes on the paragraphs *)
      let '(e1, oins) := match l0, rest' with
                         | [], _ :: _ => (e, None)
                         | _, _ => let '(e1, ins) := ins_inline e l0 anchor suppress in (e1, Some ins)
                         end in
      let '(e2, news, created, _) := fold_left (new_paras_step anchor suppress cur false) rest' (e1, [], [], 0) in
      let e3 := with_doc e2 (place_paras (p_id cur) news (e_doc e2)) in
      match oins, created with
      | None, c0 :: _ => (attach e3 c0 (match last_opt created with Some x => x | None => c0 end) comment, None)
      | _, _ => (e3, oins)
      end
    end
  end.

(* ---------- one edit, addressed by offset ---------- *)
Inductive op := OpIns | OpDel | OpMod.
(* Outside r: the model does not cover this case and says why (the batch result carries r + 1):
   1 edit inside / overlapping a pending insertion, 2 block insertion (line break or heading in the new text),
   3 the insertion anchor lies inside a tracked change, 4 the target runs are not direct children of one paragraph,
   5 the target overlaps a pending insertion only partially (or several insertions) *)
(* AppliedN: applied through the nested-insertion shortcut (the pending insertion the edit starts in is replaced as a whole) *)
(* SkippedN: the edit entered the nested-insertion shortcut and was skipped there *)
Inductive outcome := Applied | AppliedN | Skipped | SkippedN | Outside (r : nat).
Definition ends_with_space (s : str) : bool := match rev s with c :: _ => N.eqb c 32%N | [] => false end.
Fixpoint has_sub (needle s : str) : bool := prefixb needle s || match s with [] => false | _ :: s' => has_sub needle s' end.
Definition has_md (s : str) : bool := has_sub [42%N; 42%N] s || existsb (N.eqb 95%N) s.
Definition opt_nat_eqb (a b : option nat) : bool := match a, b with Some x, Some y => Nat.eqb x y | None, None => true | _, _ => false end.

Definition opt_str_eqb (a b : option str) : bool := match a, b with Some x, Some y => str_eqb x y | None, None => true | _, _ => false end.
(* all real spans of the range lie in one and the same pending insertion *)
Definition same_ins (l : list ospan) : bool :=
  match l with [] => false | x :: _ => forallb (fun y => opt_str_eqb (o_ins y) (o_ins x)) l && match o_ins x with Some (_ :: _) => true | _ => false end end.
Definition is_some_nonempty (x : option str) : bool := match x with Some (_ :: _) => true | _ => false end.
(* every resolved run is a direct child of a paragraph (not inside another mark); the runs may lie in several paragraphs *)
Definition all_direct (d : doc) (uids : list nat) : bool := forallb (fun v => is_direct v d) uids.
(* all resolved runs lie in one story (document part): revision marks and comment ranges cannot span parts (fix D57) *)
Definition run_story (u : nat) (d : doc) : option nat := match para_of_run u d with Some p => story_of p d | None => None end.
Definition one_story (d : doc) (uids : list nat) : bool :=
  match uids with
  | [] => true
  | u :: _ => forallb (fun v => opt_nat_eqb (run_story v d) (run_story u d)) uids
  end.
Definition crosses (d : doc) (uids : list nat) : bool :=
  match uids with
  | [] => false
  | u :: _ => negb (forallb (fun v => opt_nat_eqb (para_of_run v d) (para_of_run u d)) uids)
  end.

(* engine with its maps: raw map (self.mapper, possibly stale exactly as in the code) and the accepted-view map *)
Record est := { s_eng : eng; s_raw : list ospan; s_clean : option (list ospan); s_cm0 : list comment (* comments at engine construction *);
                s_cmc : list comment (* comments when the accepted-view mapper was constructed *);
                s_xp : nat (* bookkeeping of the MODEL only: number of deletions / modifications whose resolved runs lay in more than one paragraph *) }.
Definition set_eng (s : est) (e : eng) : est := {| s_eng := e; s_raw := s_raw s; s_clean := s_clean s; s_cm0 := s_cm0 s; s_cmc := s_cmc s; s_xp := s_xp s |}.

(* ---------- the nested-insertion shortcut: an edit that starts inside a pending insertion replaces that insertion ---------- *)
Fixpoint first_ins_node (i : str) (n : node) : option node :=      (* //w:ins[@w:id=i], document order *)
  match n with
  | NWrap u KIns m cs => if str_eqb (m_id m) i then Some n else first_some (first_ins_node i) cs
  | NWrap _ _ _ cs => first_some (first_ins_node i) cs
  | _ => None end.
Definition first_ins (i : str) (d : doc) : option node :=
  fold_left (fun acc p => match acc with Some _ => acc | None => first_some (first_ins_node i) (p_nodes p) end) (doc_paras d) None.
Definition is_run_node (n : node) : bool := match n with NRun _ _ _ => true | _ => false end.
(* track_insert with a style source that has just been removed from the tree (or with none): the paragraph of the anchor cannot
   be found, so a heading-first text inserts nothing and further lines of a multi-line text are dropped; only the inline part
   of the first line survives *)
Definition nested_inline (e : eng) (text : str) (anchor : rpr) : eng * option node :=
  match split_lines text with
  | [] => (e, None)
  | l0 :: rest =>
    match snd (md_style l0) with
    | Some _ => (e, None)
    | None =>
      let rest' := match last_opt rest with Some [] => removelast rest | _ => rest end in
      match l0, rest' with
      | [], _ :: _ => (e, None)
      | _, _ => let '(e1, ins) := ins_inline e l0 anchor false in (e1, Some ins)
      end
    end
  end.
Definition nested_replace (s : est) (ins_id : str) (new comment : str) : est * outcome :=
  let e := s_eng s in
  match first_ins ins_id (e_doc e) with
  | Some (NWrap u0 _ _ cs) =>
    let style := match find is_run_node cs with Some (NRun _ f _) => f | _ => None end in
    match new with
    | [] => (set_eng s (with_doc e (reject_doc ins_id (e_doc e))), AppliedN)
    | _ =>
      let '(e1, oins) := nested_inline e new style in
      match oins with
      | None => (set_eng s (with_doc e1 (reject_doc ins_id (e_doc e1))), AppliedN)
      | Some ins =>
        let e2 := place_before e1 u0 ins in                        (* parent.insert(index, ins_elem): where the first w:ins was *)
        let e3 := with_doc e2 (reject_doc ins_id (e_doc e2)) in     (* _reject_change: every w:ins / w:del with that id, in every story *)
        (set_eng s (attach e3 (node_uid ins) (node_uid ins) comment), AppliedN)
      end
    end
  | _ => (s, SkippedN)
  end.

(* where new text anchored on run au goes: next to the run itself when it is a direct child of its paragraph; next to the tracked-change
   wrapper when the run is the wrapper's outermost child on that side (fix D59: a w:ins is never placed inside another wrapper's
   edge); otherwise the model refuses (finding D34) *)
Fixpoint edge_wrapper (uid : nat) (before : bool) (ns : list node) : option nat :=
  match ns with
  | [] => None
  | NWrap u _ _ cs :: r =>
      match (if before then hd_error cs else last_opt cs) with
      | Some n => if is_run uid n then Some u else edge_wrapper uid before r
      | None => edge_wrapper uid before r
      end
  | _ :: r => edge_wrapper uid before r
  end.
Definition place_uid (au : nat) (before : bool) (d : doc) : option nat :=
  if is_direct au d then Some au
  else fold_left (fun acc p => match acc with Some _ => acc | None => edge_wrapper au before (p_nodes p) end) (doc_paras d) None.
(* _apply_single_edit_indexed. use_clean: the offsets refer to the accepted-view map (active_mapper) *)
Definition apply_indexed (s : est) (use_clean : bool) (start : nat) (target new comment : str) (o : option op) : est * outcome :=
  let sp := if use_clean then match s_clean s with Some m => m | None => s_raw s end else s_raw s in
  let e := s_eng s in
  let o := match o with Some x => x | None => match target, new with [], _ :: _ => OpIns | _ :: _, [] => OpDel | _, _ => OpMod end end in
  let ln := length target in
  let ctx := if 0 <? ln then find (fun x => o_real x && (start <? o_end x) && (o_start x <? start + ln)) sp else None in
  let inr := filter (fun x => o_real x && (start <? o_end x) && (o_start x <? start + ln)) sp in
  if match ctx with Some c => is_some_nonempty (o_ins c) | None => false end
  then nested_replace s (match ctx with Some c => match o_ins c with Some i => i | None => [] end | None => [] end) new comment
  else if negb (block_ok new) then (s, Outside 1)
  else match o with
  | OpIns =>
      let inl := inline_text new in
      let '(d1, a0) := insertion_anchor (e_doc e) sp start in
      let here := find (fun x => (o_start x <=? start) && (start <? o_end x)) sp in
      let '(a, before) :=
        if Nat.eqb start 0 then (a0, true)
        else match here with
             | Some h =>
               match o_pid h with
               | Some hp =>
                 let ap := match a0 with Some u => para_of_run u d1 | None => None end in
                 (* text with line breaks keeps the preceding run as its anchor unless that run lies in another story (fix D53) *)
                 let other_story := match ap with Some x => negb (opt_nat_eqb (story_of x d1) (story_of hp d1)) | None => true end in
                 if opt_nat_eqb ap (Some hp) || negb (inl || other_story) then (a0, false)
                 else match find (fun x => o_real x && (start <=? o_start x) && opt_nat_eqb (o_pid x) (Some hp)) sp with
                      | Some f => (Some (o_uid f), true)
                      | None => (a0, false) end
               | None => (a0, false) end
             | None => (a0, false) end in
      match a with
      | None => (set_eng s (with_doc e d1), Skipped)
      | Some au =>
        match place_uid au before d1 with
        | None => (s, Outside 2)          (* D34: the anchor sits inside a tracked change, away from its edge *)
        | Some pu =>
          let e1 := with_doc e d1 in
          let style := if before then run_rpr au d1
                       else match next_run au d1 with
                            | Some (NRun _ f _) => if ends_with_space new then f else run_rpr au d1
                            | _ => run_rpr au d1 end in
          if inl then
            let '(e2, ins) := ins_inline e1 new style false in
            let e3 := if before then place_before e2 pu ins else place_after e2 pu ins in
            (set_eng s (attach e3 (node_uid ins) (node_uid ins) comment), Applied)
          else
            match para_rec au d1 with
            | None => (s, Outside 2)
            | Some cur =>
              let '(e2, oi) := track_insert e1 new style cur comment false in
              match oi with
              | None => (set_eng s e2, Applied)
              | Some ins =>
                let e3 := if before then place_before e2 pu ins else place_after e2 pu ins in
                (set_eng s (attach e3 (node_uid ins) (node_uid ins) comment), Applied)
              end
            end
        end
      end
  | _ =>
      let '(d1, work, modif) := resolve (e_doc e) sp start (start + ln) in
      let xp := s_xp s + (if crosses d1 work && one_story d1 work then 1 else 0) in
      let s1 := if modif then (if use_clean then {| s_eng := with_doc e d1; s_raw := s_raw s; s_clean := Some (build_map true (s_cmc s) d1); s_cm0 := s_cm0 s; s_cmc := s_cmc s; s_xp := xp |}
                               else {| s_eng := with_doc e d1; s_raw := build_map false (s_cm0 s) d1; s_clean := s_clean s; s_cm0 := s_cm0 s; s_cmc := s_cmc s; s_xp := xp |})
                else {| s_eng := with_doc e d1; s_raw := s_raw s; s_clean := s_clean s; s_cm0 := s_cm0 s; s_cmc := s_cmc s; s_xp := xp |} in
      match work with
      | [] => (s1, Skipped)
      | w0 :: _ =>
        if negb (one_story d1 work) then (s1, Skipped)               (* the range runs from one story into another: not editable (fix D57) *)
        else if negb (all_direct d1 work) then (s, Outside 3)      (* cross-paragraph edit, or text inside another mark *)
        else
          let lastw := match last_opt work with Some x => x | None => w0 end in
          let last_rpr := run_rpr lastw d1 in
          let cur := para_rec lastw d1 in
          let '(e2, dels) := fold_left (fun acc u => let '(e0, ds) := acc in let '(e0', du) := delete_run e0 u in (e0', ds ++ [du])) work (s_eng s1, []) in
          let d_first := match dels with x :: _ => x | [] => 0 end in
          let d_last := match last_opt dels with Some x => x | None => 0 end in
          match o, new with
          | OpDel, _ => (set_eng s1 (attach e2 d_first d_last comment), Applied)
          | _, [] => (set_eng s1 e2, Applied)
          | _, _ =>
            (* a heading line replacing text in a paragraph that already has that heading style loses its marker *)
            let tti := match md_style new, cur with
                       | (ct, Some l), Some p => match p_style p with PSHeading n => if Nat.eqb n l then ct else new | _ => new end
                       | _, _ => new end in
            if inline_text tti then
              let '(e3, ins) := ins_inline e2 tti last_rpr (negb (has_md tti)) in
              let e4 := place_after e3 d_last ins in
              (set_eng s1 (attach e4 d_first (node_uid ins) comment), Applied)
            else
              match cur with
              | None => (s, Outside 3)
              | Some cp =>
                let '(e3, oi) := track_insert e2 tti last_rpr cp comment (negb (has_md tti)) in
                match oi with
                | None => (set_eng s1 e3, Applied)
                | Some ins =>
                  let e4 := place_after e3 d_last ins in
                  (set_eng s1 (attach e4 d_first (node_uid ins) comment), Applied)
                end
              end
          end
      end
  end.

(* ---------- heuristic path ---------- *)
Fixpoint find_sub (needle s : str) (i : nat) : option nat :=
  if prefixb needle s then Some i else match s with [] => None | _ :: s' => find_sub needle s' (S i) end.
(* find_match_index: the exact stage and the smart-quote stage are modelled; the later stages (Markdown-stripped target, fuzzy
   regex) are answered by the oracle list (the implementation's own answers for the calls whose first two stages failed, in call order) *)
Definition fm := option (nat * nat).
(* an occurrence counts only when it touches text of the document itself (a span with a run): generated text (comment and change
   metadata, style markers, paragraph separators) is part of the projection but resolves to no run (fix D54); and when it does not
   reach into a tracked deletion, whose text cannot be edited again (fix D55) *)
Definition covers (a b : nat) (x : ospan) : bool := o_real x && (a <? o_end x) && (o_start x <? b).
Definition touches_real (sp : list ospan) (a b : nat) : bool :=
  existsb (covers a b) sp && negb (existsb (fun x => covers a b x && is_some_nonempty (o_del x)) sp).
Fixpoint find_real (sp : list ospan) (needle s : str) (i : nat) : option nat :=
  if prefixb needle s && touches_real sp i (i + length needle) then Some i
  else match s with [] => None | _ :: s' => find_real sp needle s' (S i) end.
Definition find_on (sp : list ospan) (needle : str) : option nat := find_real sp needle (map_text sp) 0.
(* stage 2, smart-quote normalisation: typographic quotes made plain in text and target alike (one character for one, so positions
   are those of the text itself); the same first-occurrence-on-document-text rule; the length reported is the target's *)
Definition qn (c : char) : char :=
  if N.eqb c 8220 || N.eqb c 8221 then 34%N else if N.eqb c 8216 || N.eqb c 8217 then 39%N else c.
Definition find_quote (sp : list ospan) (needle : str) : option nat := find_real sp (map qn needle) (map qn (map_text sp)) 0.
(* the answer of the stages after the exact one: the quote stage (modelled), else the recorded answer of stages 3-4 *)
Definition approx (sp : list ospan) (target : str) (orc : list fm) : fm * list fm :=
  match find_quote sp target with
  | Some i => (Some (i, length target), orc)
  | None => match orc with a :: r => (a, r) | [] => (None, []) end
  end.
Definition find_match (sp : list ospan) (target : str) (orc : list fm) : fm * list fm :=
  match find_on sp target with
  | Some i => (Some (i, length target), orc)
  | None => approx sp target orc
  end.

(* raw-view match; when it is not exact, an exact accepted-view match wins (fix D44), then the raw-view approximate
   answer, then the accepted-view approximate answer (the accepted-view map is built once and cached) *)
Definition locate (s : est) (target : str) (orc : list fm) : fm * bool * est * list fm :=
  match find_on (s_raw s) target with
  | Some i => (Some (i, length target), false, s, orc)
  | None =>
    let '(m1, orc1) := approx (s_raw s) target orc in
    let cmc := match s_clean s with Some _ => s_cmc s | None => d_comments (e_doc (s_eng s)) end in
    let cm := match s_clean s with Some c => c | None => build_map true cmc (e_doc (s_eng s)) end in
    let s' := {| s_eng := s_eng s; s_raw := s_raw s; s_clean := Some cm; s_cm0 := s_cm0 s; s_cmc := cmc; s_xp := s_xp s |} in
    match find_on cm target with
    | Some i => (Some (i, length target), true, s', orc1)
    | None =>
      match m1 with
      | Some x => (Some x, false, s', orc1)
      | None => let '(m2, orc') := find_match cm target orc1 in (m2, true, s', orc')
      end
    end
  end.
(* s[:i] and s[j:] with Python's negative-index semantics *)
Definition py_to (s : str) (i : Z) : str := if (0 <=? i)%Z then firstn (Z.to_nat i) s else firstn (length s - Z.to_nat (- i)) s.
Definition py_from (s : str) (j : Z) : str := if (0 <=? j)%Z then skipn (Z.to_nat j) s else skipn (length s - Z.to_nat (- j)) s.
Definition apply_located (s1 : est) (use_clean : bool) (st ml : nat) (new comment : str) : est * outcome :=
  let sp := if use_clean then match s_clean s1 with Some c => c | None => [] end else s_raw s1 in
  let inrange := filter (fun x => o_real x && (st <? o_end x) && (o_start x <? st + ml)) sp in
  if existsb (fun x => is_some_nonempty (o_del x)) inrange then (s1, Skipped)         (* D9 *)
  else match find (fun x => is_some_nonempty (o_ins x)) (firstn 1 inrange) with
  | Some c =>
    (* the first real span of the match lies in a pending insertion: the whole insertion is rewritten (Python slice semantics) *)
    let ins_spans := filter (fun x => o_real x && opt_str_eqb (o_ins x) (o_ins c)) sp in
    let ins_start := match ins_spans with x :: _ => o_start x | [] => 0 end in
    let full := flat_map o_text ins_spans in
    let rel := (Z.of_nat st - Z.of_nat ins_start)%Z in
    let expanded := py_to full rel ++ new ++ py_from full (rel + Z.of_nat ml)%Z in
    (* (the rewritten edit is addressed in the coordinates of the active map but resolved on the raw map, as in the code) *)
    let r := apply_indexed s1 false ins_start full expanded comment None in
    (fst r, match snd r with Applied => AppliedN | Skipped => SkippedN | o => o end)
  | None =>
    let actual := sub (map_text sp) st ml in
    if str_eqb actual new then (s1, Applied)
    else if prefixb actual new then apply_indexed s1 use_clean (st + ml) [] (skipn (length actual) new) comment (Some OpIns)
    else
      let ps := trim_u actual new in
      let ft := sub actual (fst ps) (length actual - snd ps - fst ps) in
      let fn := sub new (fst ps) (length new - snd ps - fst ps) in
      match ft, fn with
      | [], [] => (s1, Applied)
      | [], _ => apply_indexed s1 use_clean (st + fst ps) ft fn comment (Some OpIns)
      | _, [] => apply_indexed s1 use_clean (st + fst ps) ft fn comment (Some OpDel)
      | _, _ => apply_indexed s1 use_clean (st + fst ps) ft fn comment (Some OpMod)
      end
  end.
Definition apply_heuristic (s : est) (target new comment : str) (orc : list fm) : est * outcome * list fm :=
  match target with
  | [] => (s, Skipped, orc)
  | _ =>
    match locate s target orc with
    | (None, _, s1, orc2) => (s1, Skipped, orc2)
    | (Some (st, ml), uc, s1, orc2) => let r := apply_located s1 uc st ml new comment in (fst r, snd r, orc2)
    end
  end.

(* ---------- batches ---------- *)
Record edit := { ed_target : str; ed_new : str; ed_comment : str; ed_index : option nat }.
Definition overl (occ : list (nat * nat)) (a b : nat) : bool := existsb (fun r => (a <? snd r) && (fst r <? b)) occ.
Definition rebuild (s : est) : est := {| s_eng := s_eng s; s_raw := build_map false (s_cm0 s) (e_doc (s_eng s)); s_clean := None; s_cm0 := s_cm0 s; s_cmc := s_cmc s; s_xp := s_xp s |}.
(* result: state, applied, skipped, outside? *)
(* the match ranges are planned once, on the map as it stands before any heuristic edit *)
Fixpoint plan (text : list ospan) (es : list edit) (orc : list fm) : list (edit * option (nat * nat)) * list fm :=
  match es with
  | [] => ([], orc)
  | ed :: r =>
    match ed_target ed with
    | [] => let '(l, o) := plan text r orc in ((ed, None) :: l, o)
    | _ => let '(m, orc1) := find_match text (ed_target ed) orc in
           let '(l, o) := plan text r orc1 in
           ((ed, match m with Some (st, ml) => Some (st, st + ml) | None => None end) :: l, o)
    end
  end.
Definition step_heur (acc : est * nat * nat * nat * list fm * list (nat * nat) * nat) (edp : edit * option (nat * nat)) :=
  let '(s, ap, sk, out, orc, occ, nn) := acc in
  let '(ed, rng) := edp in
  if negb (Nat.eqb out 0) then acc else
  if match rng with Some (a, b) => overl occ a b | None => false end then (s, ap, S sk, 0, orc, occ, nn)
  else
    let '(s', oc, orc') := apply_heuristic s (ed_target ed) (ed_new ed) (ed_comment ed) orc in
    match oc with
    | Applied => (rebuild s', S ap, sk, 0, orc', match rng with Some r => occ ++ [r] | None => occ end, nn)
    | AppliedN => (rebuild s', S ap, sk, 0, orc', match rng with Some r => occ ++ [r] | None => occ end, S nn)
    | Skipped => (s', ap, S sk, 0, orc', occ, nn)
    | SkippedN => (s', ap, S sk, 0, orc', occ, S nn)
    | Outside r => (s', ap, sk, S r, orc', occ, nn)
    end.
Definition sort_len_desc (l : list edit) : list edit := sort_by (fun a b => length (ed_target b) <? length (ed_target a)) l.
Definition idx_of (e : edit) : nat := match ed_index e with Some i => i | None => 0 end.
Definition sort_idx_desc (l : list edit) : list edit := sort_by (fun a b => idx_of b <? idx_of a) l.
Definition step_idx (acc : est * nat * nat * nat * list (nat * nat) * nat) (ed : edit) :=
  let '(s, ap, sk, out, occ, nn) := acc in
  if negb (Nat.eqb out 0) then acc else
  let st := idx_of ed in let en := st + length (ed_target ed) in
  if overl occ st en then (s, ap, S sk, 0, occ, nn)
  else let '(s', oc) := apply_indexed s false st (ed_target ed) (ed_new ed) (ed_comment ed) None in
       match oc with
       | Applied => (s', S ap, sk, 0, occ ++ [(st, en)], nn)
       | AppliedN => (s', S ap, sk, 0, occ ++ [(st, en)], S nn)
       | Skipped => (s', ap, S sk, 0, occ, nn)
       | SkippedN => (s', ap, S sk, 0, occ, S nn)
       | Outside r => (s', ap, sk, S r, occ, nn)
       end.
(* result: document, applied, skipped, stop code (0 = none), number of nested-insertion replacements *)
Definition apply_edits (d : doc) (author ts : str) (edits : list edit) (orc : list fm) : doc * nat * nat * nat * nat :=
  let e := mk_engine d author ts in
  let s0 := {| s_eng := e; s_raw := build_map false (d_comments (e_doc e)) (e_doc e); s_clean := None; s_cm0 := d_comments (e_doc e); s_cmc := []; s_xp := 0 |} in
  let indexed := filter (fun x => match ed_index x with Some _ => true | None => false end) edits in
  let heur := filter (fun x => match ed_index x with Some _ => false | None => true end) edits in
  let '(s1, ap1, sk1, out1, occ1, nn1) := fold_left step_idx (sort_idx_desc indexed) (s0, 0, 0, 0, [], 0) in
  match heur with
  | [] => (e_doc (s_eng s1), ap1, sk1, out1, nn1)
  | _ =>
    let sr := rebuild s1 in
    let '(planned, orc1) := plan (s_raw sr) (sort_len_desc heur) orc in
    let '(s2, ap2, sk2, out2, _, _, nn2) := fold_left step_heur planned (sr, ap1, sk1, out1, orc1, occ1, nn1) in
    (e_doc (s_eng s2), ap2, sk2, out2, nn2)
  end.

(* the same batch, reporting also the model's count of cross-paragraph deletions / modifications (agreement: Proofs/EngineProofs.v apply_edits_x_fst) *)
Definition apply_edits_x (d : doc) (author ts : str) (edits : list edit) (orc : list fm) : doc * nat * nat * nat * nat * nat :=
  let e := mk_engine d author ts in
  let s0 := {| s_eng := e; s_raw := build_map false (d_comments (e_doc e)) (e_doc e); s_clean := None; s_cm0 := d_comments (e_doc e); s_cmc := []; s_xp := 0 |} in
  let indexed := filter (fun x => match ed_index x with Some _ => true | None => false end) edits in
  let heur := filter (fun x => match ed_index x with Some _ => false | None => true end) edits in
  let '(s1, ap1, sk1, out1, occ1, nn1) := fold_left step_idx (sort_idx_desc indexed) (s0, 0, 0, 0, [], 0) in
  match heur with
  | [] => (e_doc (s_eng s1), ap1, sk1, out1, nn1, s_xp s1)
  | _ =>
    let sr := rebuild s1 in
    let '(planned, orc1) := plan (s_raw sr) (sort_len_desc heur) orc in
    let '(s2, ap2, sk2, out2, _, _, nn2) := fold_left step_heur planned (sr, ap1, sk1, out1, orc1, occ1, nn1) in
    (e_doc (s_eng s2), ap2, sk2, out2, nn2, s_xp s2)
  end.


(* ---------- REPLY: engine._reply_to_comment + _anchor_reply_comment + CommentsManager.add_comment(parent_id) ---------- *)
Fixpoint thread_root (fuel : nat) (cm : list comment) (i : str) : str :=
  match fuel with
  | 0 => i
  | S f => match find (fun c => str_eqb (c_id c) i) cm with
           | Some c => match c_parent c with Some (x :: p) => thread_root f cm (x :: p) | _ => i end
           | None => i end
  end.
Definition has_cref (i : str) (ks : list rchild) : bool := existsb (fun k => match k with CRef j => str_eqb j i | _ => false end) ks.
Fixpoint node_has_cref (i : str) (n : node) : bool :=
  match n with NRun _ _ ks => has_cref i ks | NWrap _ _ _ cs => existsb (node_has_cref i) cs | _ => false end.
Definition doc_has_cref (i : str) (d : doc) : bool := existsb (fun p => existsb (node_has_cref i) (p_nodes p)) (doc_paras d).
Definition reply_doc (author ts : str) (d : doc) (target text : str) : doc * bool :=
  if negb (existsb (fun c => str_eqb (c_id c) target) (d_comments d)) then (d, false)
  else
    let cid := str_of_nat (next_comment_id d) in
    let root := thread_root (S (length (d_comments d))) (d_comments d) target in
    let d1 := {| d_stories := d_stories d; d_next_uid := d_next_uid d;
                 d_comments := d_comments d ++ [{| c_id := cid; c_author := author; c_date := ts; c_text := text; c_parent := Some root |}] |} in
    let '(d2, ru) := fresh d1 in
    let refrun := NRun ru rpr_cref [CRef cid] in
    let has_start := existsb (fun p => existsb (fun n => (fix go (n : node) : bool := match n with NCrs j => str_eqb j target | NWrap _ _ _ cs => existsb go cs | _ => false end) n) (p_nodes p)) (doc_paras d2) in
    if negb has_start then (d2, true)
    else
      let d3 := upd_doc (fun n => match n with NCrs j => if str_eqb j target then Some [NCrs j; NCrs cid] else None | _ => None end) d2 in
      let via_ref := doc_has_cref target d3 in
      let d4 := upd_doc (fun n => match n with
                                  | NRun u f ks => if via_ref && has_cref target ks then Some [n; NCre cid; refrun] else None
                                  | NCre j => if negb via_ref && str_eqb j target then Some [NCre j; NCre cid; refrun] else None
                                  | _ => None end) d3 in
      (d4, true).
Definition review_session (d : doc) (author ts : str) (acts : list action) : doc * nat * nat :=
  apply_actions (reply_doc author ts) (normalize_doc d) acts.
