(* Instantiations of the section-generic models with the concrete character tables (what the driver runs). *)
From Coq Require Import List NArith Bool Arith.
Import ListNotations.
From Adeu Require Import Str Chars Trim Diff.
Definition tokens_u := tokens isspace_u isword_u.
Definition trim_u := trim isspace_u.
From Adeu Require Import Doc Norm Prims ParaMachine Project.
(* character classes used by the paragraph-prefix heuristic (ASCII + Latin-1 letters) *)
Definition other_text_u (t : N) : str := if N.eqb t 4 then map N.of_nat [108;105;110;107] else [].   (* the generator's hyperlink reads "link" *)
Definition doc_spans_u := doc_spans isspace_u isupper_u islower_u other_text_u.
Definition extract_u := extract isspace_u isupper_u islower_u other_text_u.
