(* Instantiations of the section-generic models with the concrete character tables (what the driver runs). *)
From Coq Require Import List NArith Bool Arith.
Import ListNotations.
From Adeu Require Import Str Chars Trim Diff.
Definition tokens_u := tokens isspace_u isword_u.
Definition trim_u := trim isspace_u.
