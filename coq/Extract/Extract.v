(* Extraction of the executable model. ExtrOcamlBasic only (bool, option, unit, list, prod, sumbool -> OCaml's);
   N, positive, nat stay Coq datatypes; no Extract Constant. *)
From Adeu Require Import Str Trim Diff Markup MarkupX Chars Doc Norm Prims ParaMachine Project DocOps Review Inst Engine Package.
Require Extraction. Require Import ExtrOcamlBasic.
Extraction "Extract/model.ml" trim_ascii trim_u tokens_u doc_spans_u extract_u normalize_para normalize_doc accept_doc reject_doc accept_all_doc doc_has_id route apply_actions apply_edits apply_edits_x build_map review_session ensure_comment_parts edits_of_diffs apply_script render_ascii find_match_x isspace_u isword_u isupper_u islower_u.
