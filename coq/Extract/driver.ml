(* Hand-written, unverified glue: reads one case per line, prints one canonical result per line.
   usage: driver <mode>   modes: trim | diff | markup *)
open Model
let rec pos_of_int n = if n = 1 then XH else if n land 1 = 0 then XO (pos_of_int (n lsr 1)) else XI (pos_of_int (n lsr 1))
let n_of_int n = if n = 0 then N0 else Npos (pos_of_int n)
let rec int_of_pos = function XH -> 1 | XO p -> 2 * int_of_pos p | XI p -> 2 * int_of_pos p + 1
let int_of_n = function N0 -> 0 | Npos p -> int_of_pos p
let rec int_of_nat = function O -> 0 | S k -> 1 + int_of_nat k
let rec nat_of_int n = if n = 0 then O else S (nat_of_int (n-1))
let parse s = if s = "" then [] else List.map (fun x -> n_of_int (int_of_string x)) (String.split_on_char ',' s)
let show s = String.concat "," (List.map (fun c -> string_of_int (int_of_n c)) s)

let trim_line line =
  match String.split_on_char '|' line with
  | [a; b] -> let (p, s) = trim_ascii (parse a) (parse b) in Printf.sprintf "%d %d" (int_of_nat p) (int_of_nat s)
  | _ -> "ERR"

(* line: t1 ; op:str ; op:str ... *)
let diff_line line =
  match String.split_on_char ';' line with
  | t :: ds ->
    let ds = List.filter (fun x -> x <> "") ds in
    let ds = List.map (fun d -> match String.split_on_char ':' d with
      | [o; x] -> ((match o with "0" -> OEq | "-1" -> ODel | _ -> OIns), parse x) | _ -> failwith "bad") ds in
    let es = edits_of_diffs (parse t) ds in
    let r = match apply_script es (parse t) O with Some r -> show r | None -> "NONE" in
    String.concat ";" (List.map (fun e -> Printf.sprintf "%d:%s:%s" (int_of_nat e.e_idx) (show e.e_tgt) (show e.e_new)) es) ^ "|" ^ r
  | _ -> "ERR"

(* line: flags(wi,hl) ; text ; target:new:comment|-:fs/fe|- ; ... *)
let markup_line line =
  match String.split_on_char ';' line with
  | fl :: t :: es ->
    let wi = fl.[0] = '1' and hl = fl.[1] = '1' in
    let es = List.filter (fun x -> x <> "") es in
    let es = List.map (fun d -> match String.split_on_char ':' d with
      | [tg; nw; cm; fz] ->
        let cm = if cm = "-" then None else Some (parse cm) in
        let fz = if fz = "-" then None else (match String.split_on_char '/' fz with
          | [a;b] -> Some (nat_of_int (int_of_string a), nat_of_int (int_of_string b)) | _ -> failwith "fz") in
        { me_target = parse tg; me_new = parse nw; me_comment = cm; me_fuzzy = fz }
      | _ -> failwith "bad") es in
    show (render_ascii (parse t) es wi hl)
  | _ -> "ERR"

let tokens_line line = String.concat "|" (List.map show (tokens_u (parse line)))
let trimu_line line =
  match String.split_on_char '|' line with
  | [a; b] -> let (p, s) = trim_u (parse a) (parse b) in Printf.sprintf "%d %d" (int_of_nat p) (int_of_nat s)
  | _ -> "ERR"

(* ---------- s-expressions of integers: the document syntax written by harness/absdoc.py ---------- *)
type sx = A of int | L of sx list
let sx_parse (s : string) : sx =
  let n = String.length s in
  let pos = ref 0 in
  let rec skip () = if !pos < n && (s.[!pos] = ' ' || s.[!pos] = '\t') then (incr pos; skip ()) in
  let rec go () =
    skip ();
    if s.[!pos] = '(' then begin
      incr pos; let acc = ref [] in
      let rec loop () = skip (); if s.[!pos] = ')' then incr pos else (acc := go () :: !acc; loop ()) in
      loop (); L (List.rev !acc) end
    else begin
      let st = !pos in
      while !pos < n && s.[!pos] <> ' ' && s.[!pos] <> ')' && s.[!pos] <> '(' do incr pos done;
      A (int_of_string (String.sub s st (!pos - st))) end in
  go ()
let ai = function A i -> i | _ -> failwith "int expected"
let al = function L l -> l | _ -> failwith "list expected"
let to_str x = List.map (fun c -> n_of_int (ai c)) (al x)
let to_kid x = match al x with
  | [A 0; s] -> CT (to_str s) | [A 1; s] -> CDelT (to_str s) | [A 2] -> CTab | [A 3] -> CBr | [A 4] -> CCr
  | [A 5; s] -> CRef (to_str s) | [A 6; A t] -> COther (n_of_int t) | _ -> failwith "kid"
let to_rpr x = match al x with
  | [] -> None | [A 1; L l] -> Some (List.map (fun p -> match al p with [A a; A b] -> (n_of_int a, n_of_int b) | _ -> failwith "rpr") l)
  | _ -> failwith "rpr"
let to_mark x = match al x with [a; b; c] -> { m_id = to_str a; m_author = to_str b; m_date = to_str c } | _ -> failwith "mark"
let rec to_node x = match al x with
  | [A 0; A u; r; L ks] -> NRun (nat_of_int u, to_rpr r, List.map to_kid ks)
  | [A 1; A u; m; L cs] -> NWrap (nat_of_int u, KIns, to_mark m, List.map to_node cs)
  | [A 2; A u; m; L cs] -> NWrap (nat_of_int u, KDel, to_mark m, List.map to_node cs)
  | [A 3; s] -> NCrs (to_str s) | [A 4; s] -> NCre (to_str s) | [A 5; A t] -> NOther (n_of_int t)
  | _ -> failwith "node"
let to_style x = match al x with
  | [A 0; A b] -> PSNormal (b <> 0) | [A 1; A n] -> PSHeading (nat_of_int n) | [A 2] -> PSTitle | _ -> PSOther
let rec to_block x = match al x with
  | [A 0; A pid; A ppr; st; L ns] -> BPara { p_id = nat_of_int pid; p_ppr = n_of_int ppr; p_style = to_style st; p_nodes = List.map to_node ns }
  | [A 1; A tok; L rows] -> BTbl (n_of_int tok, List.map (fun r -> List.map (fun c -> match al c with [A t; L bs] -> (n_of_int t, List.map to_block bs) | _ -> failwith "cell") (al r)) rows)
  | _ -> failwith "block"
let to_comment x = match al x with
  | [a; b; c; d; p] -> { c_id = to_str a; c_author = to_str b; c_date = to_str c; c_text = to_str d;
                         c_parent = (match al p with [] -> None | [A 1; s] -> Some (to_str s) | _ -> failwith "parent") }
  | _ -> failwith "comment"
let to_doc x = match al x with
  | [L ss; L cs; A nu] -> { d_stories = List.map (fun s -> match al s with [A k; L bs] -> { s_kind = n_of_int k; s_blocks = List.map to_block bs } | _ -> failwith "story") ss;
                            d_comments = List.map to_comment cs; d_next_uid = nat_of_int nu }
  | _ -> failwith "doc"
(* printers (same syntax) *)
let p_str s = "(" ^ String.concat " " (List.map (fun c -> string_of_int (int_of_n c)) s) ^ ")"
let p_kid = function CT s -> "(0 " ^ p_str s ^ ")" | CDelT s -> "(1 " ^ p_str s ^ ")" | CTab -> "(2)" | CBr -> "(3)" | CCr -> "(4)"
  | CRef s -> "(5 " ^ p_str s ^ ")" | COther t -> Printf.sprintf "(6 %d)" (int_of_n t)
let p_rpr = function None -> "()" | Some l -> "(1 (" ^ String.concat " " (List.map (fun (a, b) -> Printf.sprintf "(%d %d)" (int_of_n a) (int_of_n b)) l) ^ "))"
let p_mark m = "(" ^ p_str m.m_id ^ " " ^ p_str m.m_author ^ " " ^ p_str m.m_date ^ ")"
let rec p_node = function
  | NRun (u, r, ks) -> Printf.sprintf "(0 %d %s (%s))" (int_of_nat u) (p_rpr r) (String.concat " " (List.map p_kid ks))
  | NWrap (u, k, m, cs) -> Printf.sprintf "(%d %d %s (%s))" (match k with KIns -> 1 | KDel -> 2) (int_of_nat u) (p_mark m) (String.concat " " (List.map p_node cs))
  | NCrs s -> "(3 " ^ p_str s ^ ")" | NCre s -> "(4 " ^ p_str s ^ ")" | NOther t -> Printf.sprintf "(5 %d)" (int_of_n t)
let p_style = function PSNormal b -> if b then "(0 1)" else "(0 0)" | PSHeading n -> Printf.sprintf "(1 %d)" (int_of_nat n) | PSTitle -> "(2)" | PSOther -> "(3)"
let rec p_block = function
  | BPara p -> Printf.sprintf "(0 %d %d %s (%s))" (int_of_nat p.p_id) (int_of_n p.p_ppr) (p_style p.p_style) (String.concat " " (List.map p_node p.p_nodes))
  | BTbl (t, rows) -> Printf.sprintf "(1 %d (%s))" (int_of_n t) (String.concat " " (List.map (fun r -> "(" ^ String.concat " " (List.map (fun (t, bs) -> Printf.sprintf "(%d (%s))" (int_of_n t) (String.concat " " (List.map p_block bs))) r) ^ ")") rows))
let p_comment c = "(" ^ String.concat " " [p_str c.c_id; p_str c.c_author; p_str c.c_date; p_str c.c_text; (match c.c_parent with None -> "()" | Some s -> "(1 " ^ p_str s ^ ")")] ^ ")"
let p_doc d = Printf.sprintf "((%s) (%s) %d)" (String.concat " " (List.map (fun s -> Printf.sprintf "(%d (%s))" (int_of_n s.s_kind) (String.concat " " (List.map p_block s.s_blocks))) d.d_stories))
    (String.concat " " (List.map p_comment d.d_comments)) (int_of_nat d.d_next_uid)
let p_span sp = Printf.sprintf "%s:%d:%d:%d" (show sp.sp_text) (if sp.sp_real then 1 else 0) (int_of_nat sp.sp_uid) (match sp.sp_pid with None -> -1 | Some p -> int_of_nat p)
(* line: (clean doc) -> spans joined by ';' *)
let spans_line line = match al (sx_parse line) with
  | [A c; d] -> String.concat ";" (List.map p_span (doc_spans_u (c <> 0) (to_doc d)))
  | _ -> "ERR"
let norm_line line = p_doc (normalize_doc (to_doc (sx_parse line)))
(* (clean doc): the engine/reader view = projection of the normalised document *)
let nspans_line line = match al (sx_parse line) with
  | [A c; d] -> String.concat ";" (List.map p_span (doc_spans_u (c <> 0) (normalize_doc (to_doc d))))
  | _ -> "ERR"
(* (doc author ts ((kind target text) ...)) -> "applied skipped|doc"; kind 0 ACCEPT 1 REJECT 2 REPLY *)
let review_line line = match al (sx_parse line) with
  | [d; au; ts; L acts] ->
    let acts = List.map (fun a -> match al a with
      | [A k; t; x] -> { a_kind = (match k with 0 -> AAccept | 1 -> AReject | _ -> AReply); a_target = to_str t; a_text = to_str x }
      | _ -> failwith "act") acts in
    let ((d', ap), sk) = review_session (to_doc d) (to_str au) (to_str ts) acts in
    Printf.sprintf "%d %d|%s" (int_of_nat ap) (int_of_nat sk) (p_doc d')
  | _ -> "ERR"
let acceptall_line line = p_doc (accept_all_doc (to_doc (sx_parse line)))
(* (doc author ts ((target new comment idx) ...) (oracle ...)) -> "applied skipped outside|doc" *)
let edits_line line = match al (sx_parse line) with
  | [d; au; ts; L eds; L orc] ->
    let eds = List.map (fun e -> match al e with
      | [t; n; c; i] -> { ed_target = to_str t; ed_new = to_str n; ed_comment = to_str c;
                          ed_index = (match al i with [] -> None | [A 1; A k] -> Some (nat_of_int k) | _ -> failwith "idx") }
      | _ -> failwith "edit") eds in
    let orc = List.map (fun o -> match al o with [] -> None | [A a; A b] -> Some (nat_of_int a, nat_of_int b) | _ -> failwith "orc") orc in
    let (((((d', ap), sk), out), nn), xp) = apply_edits_x (to_doc d) (to_str au) (to_str ts) eds orc in
    Printf.sprintf "%d %d %d %d %d|%s" (int_of_nat ap) (int_of_nat sk) (int_of_nat out) (int_of_nat nn) (int_of_nat xp) (p_doc d')
  | _ -> "ERR"
(* (((name ctype) ...) ((rtype target) ...)) -> "name:ctype;...|rtype:target;..." *)
let package_line line = match al (sx_parse line) with
  | [L ps; L rs] ->
    let p = { parts = List.map (fun x -> match al x with [n; A c] -> { pt_name = to_str n; pt_ctype = n_of_int c } | _ -> failwith "part") ps;
              rels = List.map (fun x -> match al x with [A t; n] -> { r_type = n_of_int t; r_target = to_str n } | _ -> failwith "rel") rs } in
    let q = ensure_comment_parts p in
    String.concat ";" (List.map (fun x -> show x.pt_name ^ ":" ^ string_of_int (int_of_n x.pt_ctype)) q.parts) ^ "|" ^
    String.concat ";" (List.map (fun x -> string_of_int (int_of_n x.r_type) ^ ":" ^ show x.r_target) q.rels)
  | _ -> "ERR"
let extract_line line = match al (sx_parse line) with
  | [A c; d] -> show (extract_u (c <> 0) (to_doc d))
  | _ -> "ERR"

(* line: "a b" -> class bits of every code point in [a,b): 1 space, 2 word, 4 upper, 8 lower, 16 ascii-space, 32 ascii-word *)
let chars_line line = match String.split_on_char ' ' line with
  | [a; b] ->
    let a = int_of_string a and b = int_of_string b in
    let buf = Buffer.create (2 * (b - a)) in
    for c = a to b - 1 do
      let n = n_of_int c in
      let v = (if isspace_u n then 1 else 0) + (if isword_u n then 2 else 0) + (if isupper_u n then 4 else 0) + (if islower_u n then 8 else 0) in
      Buffer.add_char buf (Char.chr (65 + v))
    done; Buffer.contents buf
  | _ -> "ERR"
let () =
  let f = match Sys.argv.(1) with
    | "chars" -> chars_line
    | "trim" -> trimu_line | "trim_ascii" -> trim_line | "tokens" -> tokens_line | "spans" -> spans_line | "nspans" -> nspans_line | "normalize" -> norm_line | "review" -> review_line | "edits" -> edits_line | "package" -> package_line | "acceptall" -> acceptall_line | "extract" -> extract_line | "diff" -> diff_line | "markup" -> markup_line
    | m -> failwith ("mode " ^ m) in
  try while true do
    let line = input_line stdin in
    print_endline (try f line with e -> "EXC " ^ Printexc.to_string e)
  done with End_of_file -> ()
