(* Hand-written, unverified glue: reads one case per line, prints one canonical result per line.
   usage: driver <mode>   modes: trim | diff | markup *)
open Model
let rec pos_of_int n = if n = 1 then XH else if n land 1 = 0 then XO (pos_of_int (n lsr 1)) else XI (pos_of_int (n lsr 1))
let n_of_int n = if n = 0 then N0 else Npos (pos_of_int n)
let rec int_of_pos = function XH -> 1 | XO p -> 2 * int_of_pos p | XI p -> 2 * int_of_pos p + 1
let int_of_n = function N0 -> 0 | Npos p -> int_of_pos p
let rec int_of_nat = function O -> 0 | S k -> 1 + int_of_nat k
let rec nat_of_int n = if n = 0 then O else S (nat_of_int (n-1))
let parse s = if s = "" then [] else List.map (fun x -> n_of_int (int_of_string x)) (String.split_on_char ',' s)
let show s = String.concat "," (List.map (fun c -> string_of_int (int_of_n c)) s)

let trim_line line =
  match String.split_on_char '|' line with
  | [a; b] -> let (p, s) = trim_ascii (parse a) (parse b) in Printf.sprintf "%d %d" (int_of_nat p) (int_of_nat s)
  | _ -> "ERR"

(* line: t1 ; op:str ; op:str ... *)
let diff_line line =
  match String.split_on_char ';' line with
  | t :: ds ->
    let ds = List.filter (fun x -> x <> "") ds in
    let ds = List.map (fun d -> match String.split_on_char ':' d with
      | [o; x] -> ((match o with "0" -> OEq | "-1" -> ODel | _ -> OIns), parse x) | _ -> failwith "bad") ds in
    let es = edits_of_diffs (parse t) ds in
    let r = match apply_script es (parse t) O with Some r -> show r | None -> "NONE" in
    String.concat ";" (List.map (fun e -> Printf.sprintf "%d:%s:%s" (int_of_nat e.e_idx) (show e.e_tgt) (show e.e_new)) es) ^ "|" ^ r
  | _ -> "ERR"

(* line: flags(wi,hl) ; text ; target:new:comment|-:fs/fe|- ; ... *)
let markup_line line =
  match String.split_on_char ';' line with
  | fl :: t :: es ->
    let wi = fl.[0] = '1' and hl = fl.[1] = '1' in
    let es = List.filter (fun x -> x <> "") es in
    let es = List.map (fun d -> match String.split_on_char ':' d with
      | [tg; nw; cm; fz] ->
        let cm = if cm = "-" then None else Some (parse cm) in
        let fz = if fz = "-" then None else (match String.split_on_char '/' fz with
          | [a;b] -> Some (nat_of_int (int_of_string a), nat_of_int (int_of_string b)) | _ -> failwith "fz") in
        { me_target = parse tg; me_new = parse nw; me_comment = cm; me_fuzzy = fz }
      | _ -> failwith "bad") es in
    show (render_ascii (parse t) es wi hl)
  | _ -> "ERR"

let tokens_line line = String.concat "|" (List.map show (tokens_u (parse line)))
let trimu_line line =
  match String.split_on_char '|' line with
  | [a; b] -> let (p, s) = trim_u (parse a) (parse b) in Printf.sprintf "%d %d" (int_of_nat p) (int_of_nat s)
  | _ -> "ERR"

let () =
  let f = match Sys.argv.(1) with
    | "trim" -> trimu_line | "trim_ascii" -> trim_line | "tokens" -> tokens_line | "diff" -> diff_line | "markup" -> markup_line
    | m -> failwith ("mode " ^ m) in
  try while true do
    let line = input_line stdin in
    print_endline (try f line with e -> "EXC " ^ Printexc.to_string e)
  done with End_of_file -> ()
