#!/bin/sh
# Build the framework from files on disk only (offline): full .vo build of the Coq project, extraction, OCaml driver.
set -e
cd "$(dirname "$0")/coq"
coq_makefile -f _CoqProject -o Makefile
timeout 3000 make -j8
cd Extract
ocamlfind ocamlopt -O2 -w -a model.mli model.ml driver.ml -o driver
echo setup ok
