#!/usr/bin/env python3
"""confirm_seed.py Cxx N : confirm a seeded change produced by a sub-agent in $SEED_ROOT/Cxx/seed/mutN (default /tmp/wt; stored as m(N+$SEED_OFFSET)):
fresh scratch worktree of /repo HEAD; demo passes unchanged; patch applies; test suite passes with it; demo fails with it.
On success copies it to /verif/seeded/Cxx-mN/ with meta.json. The scratch worktree is removed."""
import json, os, re, shutil, subprocess, sys
pid, n = sys.argv[1], sys.argv[2]
root = os.environ.get('SEED_ROOT', '/tmp/wt'); off = int(os.environ.get('SEED_OFFSET', '0'))
src = '%s/%s/seed/mut%s' % (root, pid, n)
wt = '/tmp/confirm_%s_%s' % (pid, n)
def sh(cmd, **k): return subprocess.run(cmd, shell=True, capture_output=True, text=True, **k)
sh('git -C /repo worktree remove --force %s' % wt); shutil.rmtree(wt, ignore_errors=True)
r = sh('git -C /repo worktree add --detach %s HEAD' % wt); assert r.returncode == 0, r.stderr
env = dict(os.environ, PYTHONPATH=wt + '/src', PYTHONHASHSEED='0')
try:
    demo = open(src + '/demo.py').read().replace('%s/%s' % (root, pid), wt)
    os.makedirs(wt + '/seed/mut%s' % n, exist_ok=True)
    dpath = wt + '/seed/mut%s/demo.py' % n; open(dpath, 'w').write(demo)
    d0 = sh('/venv/bin/python %s' % dpath, env=env, cwd=wt)
    ap = sh('git -C %s apply %s/patch.diff' % (wt, src))
    t = sh('/venv/bin/python -m pytest -q -p no:cacheprovider --timeout=900 -n 8 2>&1 | tail -15', env=env, cwd=wt)
    fails = [f for f in re.findall(r'FAILED (\S+)', t.stdout) if 'test_fuzz_split_run_mechanics' not in f]
    summary = [l for l in t.stdout.split('\n') if ' passed' in l or ' failed' in l]
    tests_ok = bool(summary) and not fails and 'error' not in summary[-1]
    d1 = sh('/venv/bin/python %s' % dpath, env=env, cwd=wt)
    ok = d0.returncode == 0 and ap.returncode == 0 and tests_ok and d1.returncode == 1
    print(pid, n, 'demo_unchanged=%d apply=%d tests=%s demo_changed=%d => %s' % (d0.returncode, ap.returncode, summary[-1:] , d1.returncode, 'CONFIRMED' if ok else 'REJECTED'))
    if ok:
        dst = '/verif/seeded/%s-m%d' % (pid, int(n) + off); os.makedirs(dst, exist_ok=True)
        shutil.copy(src + '/patch.diff', dst + '/patch.diff'); shutil.copy(src + '/demo.py', dst + '/demo.py')
        if os.path.exists(src + '/notes.md'): shutil.copy(src + '/notes.md', dst + '/notes.md')
        notes = open(src + '/notes.md').read() if os.path.exists(src + '/notes.md') else ''
        meta = {'property': pid, 'breaks': notes.split('\n')[0][:300], 'needs_to_manifest': 'see notes.md',
                'confirmed_by': 'tools/confirm_seed.py: fresh worktree of /repo HEAD; demo exit 0 unchanged; patch applies; pytest -n 8 green with patch (%s); demo exit 1 with patch' % (summary[-1] if summary else ''),
                'repo_head': sh('git -C /repo rev-parse --short HEAD').stdout.strip(), 'demo_output_with_change': d1.stdout[-600:]}
        json.dump(meta, open(dst + '/meta.json', 'w'), indent=1)
    else:
        print(d0.stdout[-300:], d0.stderr[-300:], ap.stderr[-300:], t.stdout[-500:], d1.stdout[-300:], d1.stderr[-300:])
finally:
    sh('git -C /repo worktree remove --force %s' % wt); shutil.rmtree(wt, ignore_errors=True)
