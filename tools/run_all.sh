#!/bin/bash
# run every registered check (quick by default) on the current /repo tree; prints one line per property
tier=${1:-quick}
cd /verif
for p in C01 C02 C03 C04 C05 C06 C07 C08 C09 C10 C11 C12 C13 C14 C15 C16 C17 C18; do
  out=$(./check $p --tier $tier 2>&1); rc=$?
  echo "$p rc=$rc $(echo "$out" | grep -c KNOWN-FINDING) known | $(echo "$out" | grep VIOLATION | head -2 | tr '\n' ' ') $(echo "$out" | tail -1 | cut -c1-160)"
done
