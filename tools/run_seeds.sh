#!/bin/bash
# run_seeds.sh <check id> <seed dir> ... : apply each seeded change to /repo, run the check (quick), undo
chk=$1; shift
for s in "$@"; do
  if git -C /repo apply --check /verif/seeded/$s/patch.diff 2>/dev/null; then
    git -C /repo apply /verif/seeded/$s/patch.diff
    res=$(cd /verif && ./check $chk --tier quick 2>&1 | grep -v KNOWN | tail -2 | tr '\n' ' ' | cut -c1-230)
    git -C /repo checkout -- .
    echo "$chk vs $s: $res"
  else echo "$chk vs $s: PATCH DOES NOT APPLY (repo moved on)"; fi
done
