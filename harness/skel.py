"""Fail-closed translator: effect skeletons of the MCP tools, the CLI handlers and `adeu init`, regenerated from
/repo/src on every run and emitted as Coq terms (Gen/SkelGen.v).

Every call in a function body is classified (read / compute / open-for-write / write / stdout / exit / copy ...);
a call the tables below do not know makes the translation FAIL (the proof obligation then cannot be discharged).
Abstractions made here (trusted, validated dynamically by the effect traces of C17/C18):
  * a call that only computes is one `ECompute` (it may raise, it does not touch the file system);
  * `print(..., file=sys.stderr)` is not an effect; in CLI handlers `print()` to stdout is a compute step
    (stdout is the protocol channel only for the MCP server);
  * a `for` loop whose body contains only read/compute effects and no return/exit is ONE compute step;
  * `with open(p, 'w') as f` = OpenW, then the body; `f.write` / `json.dump(_, f)` = Write;
  * helper functions defined in the same module are inlined.
"""
import ast, os, sys

PURE_FUNCS = {'BytesIO', 'basicConfig', 'Path', 'str', 'len', 'getattr', 'max', 'min', 'bool', 'isinstance', 'int', 'list', 'dict',
              'enumerate', 'range', 'repr', 'sorted', 'tuple', 'set', 'any', 'all'}
PURE_ATTRS = {'getvalue', 'endswith', 'startswith', 'with_name', 'with_suffix', 'strip', 'lower', 'upper', 'replace', 'split', 'join',
              'append', 'get', 'setdefault', 'items', 'values', 'keys', 'format', 'strftime', 'seek', 'extend'}
COMPUTE = {'RedlineEngine', 'extract_text_from_stream', 'generate_edits_from_text', '_apply_edits_to_markdown', 'apply_edits_to_markdown',
           'apply_edits', 'apply_review_actions', 'accept_all_revisions', 'save_to_stream', 'DocumentEdit', 'loads', 'load', 'dumps',
           'which', 'getuser', 'now', 'cwd', 'resolve', '_get_claude_config_path', 'model_dump', 'system', 'home',
           'encode'}      # str.encode: no effect, may raise (UnicodeEncodeError)

class Fail(Exception):
    pass

def name_of(f):
    if isinstance(f, ast.Name): return f.id
    if isinstance(f, ast.Attribute): return f.attr
    raise Fail('callee ' + ast.dump(f))

def sym(e):
    try: return ast.unparse(e)
    except Exception: return '?'

class X:
    def __init__(s, funcs, inline, cli):
        s.funcs = funcs; s.inline = inline; s.cli = cli; s.depth = 0
    def expr(s, e, out):
        """post-order: arguments before the call"""
        if e is None: return
        if isinstance(e, ast.Call):
            for a in e.args: s.expr(a, out)
            for k in e.keywords: s.expr(k.value, out)
            if isinstance(e.func, ast.Attribute): s.expr(e.func.value, out)
            n = name_of(e.func)
            if n == 'print':
                f = [k for k in e.keywords if k.arg == 'file']
                if f and sym(f[0].value) == 'sys.stderr': return
                out.append(('Compute', 'print') if s.cli else ('Stdout',))
            elif n == 'open':
                if any(k.arg not in ('encoding', 'newline', 'errors', 'mode') for k in e.keywords): raise Fail('open() with keyword %s: semantics not modelled' % [k.arg for k in e.keywords])
                km = [k for k in e.keywords if k.arg == 'mode']
                mode = sym(e.args[1]) if len(e.args) > 1 else (sym(km[0].value) if km else "'r'")
                if any(c in mode for c in 'wax+'): out.append(('OpenW', sym(e.args[0])))
                else: out.append(('Read', 'open ' + sym(e.args[0])))
            elif n == 'write': out.append(('Write', sym(e.func.value)))
            elif n == 'read': out.append(('Read', 'read'))
            elif n == 'dump': out.append(('Write', sym(e.args[1])))
            elif n == 'exit': out.append(('Exit', sym(e.args[0]) if e.args else '0'))
            elif n == 'copy2':
                # the Copy effect stands for shutil.copy2(src, dst): the CONTENT of src (links followed) becomes a new regular file
                if e.keywords or len(e.args) != 2: raise Fail('copy2 with other than two positional arguments (%s): semantics not modelled' % [k.arg for k in e.keywords])
                out.append(('Copy', sym(e.args[0]), sym(e.args[1])))
            elif n == 'mkdir': out.append(('Compute', 'mkdir'))
            elif n == 'exists': out.append(('Exists', sym(e.func.value)))
            elif n in s.inline:
                if s.depth > 3: raise Fail('inline depth')
                s.depth += 1; out += s.block(s.funcs[n].body, as_helper=True); s.depth -= 1
            elif n in COMPUTE: out.append(('Compute', n))
            elif n in PURE_FUNCS or n in PURE_ATTRS: pass
            else: raise Fail('unclassified call ' + n)
        else:
            for c in ast.iter_child_nodes(e):
                if isinstance(c, ast.expr): s.expr(c, out)
                elif isinstance(c, (ast.keyword, ast.comprehension)):
                    for cc in ast.iter_child_nodes(c):
                        if isinstance(cc, ast.expr): s.expr(cc, out)
    def block(s, stmts, as_helper=False):
        out = []
        for st in stmts: out += s.stmt(st, as_helper)
        return out
    def stmt(s, st, as_helper=False):
        out = []
        if isinstance(st, (ast.Expr, ast.Assign, ast.AnnAssign, ast.AugAssign)):
            if isinstance(st, ast.Expr) and isinstance(st.value, ast.Constant): return []
            s.expr(st.value, out)
        elif isinstance(st, ast.Return):
            s.expr(st.value, out)
            if not as_helper:
                v = st.value
                text = ''
                if isinstance(v, ast.JoinedStr) and v.values and isinstance(v.values[0], ast.Constant): text = str(v.values[0].value)
                elif isinstance(v, ast.Constant): text = str(v.value)
                out.append(('Return', 'err' if text.startswith('Error') else 'ok'))
            else:
                out.append(('HelperReturn',))
        elif isinstance(st, ast.If):
            t = []; s.expr(st.test, t); out += t
            out.append(('If', sym(st.test), s.block(st.body, as_helper), s.block(st.orelse, as_helper)))
        elif isinstance(st, ast.With):
            for it in st.items: s.expr(it.context_expr, out)
            out += s.block(st.body, as_helper)
        elif isinstance(st, ast.Try):
            if st.finalbody or st.orelse: raise Fail('try/finally/else')
            hs = [(sym(h.type) if h.type else 'BaseException', s.block(h.body, as_helper)) for h in st.handlers]
            out.append(('Try', s.block(st.body, as_helper), hs))
        elif isinstance(st, ast.For):
            s.expr(st.iter, out)
            body = s.block(st.body, as_helper)
            def only_pure(b):
                for e in b:
                    if e[0] in ('Compute', 'Read', 'Exists'): continue
                    if e[0] == 'If' and only_pure(e[2]) and only_pure(e[3]): continue
                    return False
                return True
            if not only_pure(body): raise Fail('loop with effects other than read/compute at line %d' % st.lineno)
            if body: out.append(('Compute', 'loop'))
        elif isinstance(st, (ast.Pass, ast.Import, ast.ImportFrom, ast.Nonlocal, ast.Global)): pass
        elif isinstance(st, ast.Raise): out.append(('Raise',))
        else: raise Fail('stmt ' + type(st).__name__)
        return out

def helper_tail_ok(sk):
    """an inlined helper may only `return` as its last statement (so inlining is sequential composition)"""
    for i, e in enumerate(sk):
        if e[0] == 'HelperReturn' and i != len(sk) - 1: return False
        if e[0] == 'If' and (any(x[0] == 'HelperReturn' for x in e[2]) or any(x[0] == 'HelperReturn' for x in e[3])): return False
    return True

def skeletons(path, names, cli):
    tree = ast.parse(open(path).read())
    funcs = {f.name: f for f in tree.body if isinstance(f, ast.FunctionDef)}
    inline = {n for n in funcs if n.startswith('_') and n not in names and n != '_get_claude_config_path'}
    x = X(funcs, inline, cli)
    return {n: x.block(funcs[n].body) for n in names}

# ----------------------------------------------------------------------------- emit Effects.stmt (C17)
def eff_term(sk, cli):
    """list of Effects.stmt as Coq text. Raises Fail on anything the Effects language cannot express."""
    out = []
    for e in sk:
        k = e[0]
        if k in ('Read', 'Exists'): out.append('SEff ERead')
        elif k == 'Compute': out.append('SEff ECompute')
        elif k == 'OpenW': out.append('SEff EOpenW')
        elif k == 'Write': out.append('SEff EWrite')
        elif k == 'Stdout': out.append('SEff EStdout')
        elif k == 'Return': out.append('SRetErr' if e[1] == 'err' else 'SRetOk')
        elif k == 'HelperReturn': pass
        elif k == 'Exit': out.append('SRetOk' if e[1] in ('0', 'status') else 'SRetErr')   # status exit after the result was written = completion
        elif k == 'Raise': out.append('SEff ECompute')      # over-approximation: may raise (or fall through)
        elif k == 'If':
            thn, els = e[2], e[3]
            # documented status exit of the CLI: `if skipped > 0: sys.exit(1)` after the result has been written
            if cli and e[1].replace(' ', '') == 'skipped>0':
                thn = [('Exit', 'status') if x[0] == 'Exit' else x for x in thn]
            out.append('SIf [%s] [%s]' % (eff_term(thn, cli), eff_term(els, cli)))
        elif k == 'Try':
            hs = e[2]
            catch_all = any(t in ('Exception', 'BaseException') for t, _ in hs)
            h = None
            for t, b in reversed(hs):
                hb = eff_term(b, cli)
                h = hb if h is None and catch_all else ('SIf [%s] [%s]' % (hb, h if h is not None else 'SEff ECompute'))
            out.append('STry [%s] [%s]' % (eff_term(e[1], cli), h))
        elif k == 'Copy': raise Fail('copy in a tool')
        else: raise Fail('effect ' + k)
    return '; '.join(out)

# ----------------------------------------------------------------------------- emit Init.stmt (C18)
def init_term(sk, cfg_var, state=None):
    """list of Init.stmt. cfg_var: the expression naming the configuration path (assigned from _get_claude_config_path)."""
    out = []
    for e in sk:
        k = e[0]
        if k in ('Read', 'Compute'): out.append('SEff EPure')
        elif k == 'Exists':
            out.append('SEff EPure')           # the test itself; the branch is emitted by the enclosing If
        elif k == 'Copy':
            if e[1] != cfg_var: raise Fail('copy2 source is %s, not the configuration file' % e[1])
            if e[2] == cfg_var: raise Fail('copy2 onto the configuration file')
            out.append('SEff ECopy')
        elif k == 'OpenW':
            if e[1] != cfg_var: raise Fail('opens %s for writing' % e[1])
            out.append('SEff EOpenW')
        elif k == 'Write': out.append('SEff EWrite')
        elif k == 'Stdout': out.append('SEff EPure')
        elif k == 'Exit': out.append('SExit')
        elif k == 'HelperReturn': pass
        elif k == 'Return': out.append('SExit')
        elif k == 'Raise': out.append('SEff EPure')
        elif k == 'If':
            a, b = init_term(e[2], cfg_var), init_term(e[3], cfg_var)
            if e[1].replace(' ', '') == cfg_var + '.exists()':
                out.pop()                      # the Exists test is decided by the world, not an effect
                out.append('SIfExists [%s] [%s]' % (a, b))
            elif e[1].replace(' ', '') == 'not' + cfg_var + '.exists()':
                out.pop(); out.append('SIfExists [%s] [%s]' % (b, a))
            else: out.append('SIf [%s] [%s]' % (a, b))
        elif k == 'Try':
            hs = e[2]
            h = ' ; '.join([])
            # Init.STry: the oracle decides whether the handler matches; several handlers = oracle-chosen alternative
            hb = None
            for t, b in reversed(hs):
                x = init_term(b, cfg_var)
                hb = x if hb is None else 'SIf [%s] [%s]' % (x, hb)
            out.append('STry [%s] [%s]' % (init_term(e[1], cfg_var), hb))
        else: raise Fail('effect ' + k)
    return '; '.join(out)

TOOLS = ['read_docx', 'diff_docx_files', 'apply_structured_edits', 'manage_review_actions', 'accept_all_changes', 'apply_edits_as_markdown']
CLI = ['handle_extract', 'handle_diff', 'handle_apply', 'handle_markup']

def find_cfg_var(path):
    tree = ast.parse(open(path).read())
    f = [x for x in tree.body if isinstance(x, ast.FunctionDef) and x.name == 'handle_init'][0]
    for n in ast.walk(f):
        if isinstance(n, ast.Assign) and isinstance(n.value, ast.Call) and name_of(n.value.func) == '_get_claude_config_path':
            return sym(n.targets[0])
    raise Fail('handle_init does not call _get_claude_config_path')

def generate(src):
    """returns (coq_text, info dict). Failures are recorded per function; a failed function gets the skeleton `[SUnknown]`
    which no checker accepts."""
    info = {'failed': {}, 'skeletons': {}}
    lines = ['(* GENERATED by harness/skel.py from %s - do not edit *)' % src,
             'From Coq Require Import List. Import ListNotations.', 'From Adeu Require Effects Init.', '']
    def emit(name, kind, fn):
        try:
            t = fn()
        except (Fail, KeyError, IndexError, SyntaxError) as ex:
            info['failed'][name] = str(ex)
            t = 'SEff EOpenW' if kind == 'init' else 'SEff EStdout'     # a skeleton no checker accepts (fail closed)
        info['skeletons'][name] = t
        mod = 'Init' if kind == 'init' else 'Effects'
        lines.append('Definition sk_%s : list %s.stmt := [%s].' % (name, mod, qualify(t, mod)))
    def qualify(t, mod):
        import re
        return re.sub(r'\b(SEff|SRetOk|SRetErr|SExitStatus|SRaise|SIfExists|SIf|STry|SExit|SUnknown|ERead|ECompute|EOpenW|EWrite|EStdout|ECopy|EPure)\b',
                      lambda m: mod + '.' + m.group(1), t)
    try:
        sk = skeletons(os.path.join(src, 'server.py'), TOOLS, cli=False)
    except (Fail, KeyError, SyntaxError) as ex:
        sk = None; err = str(ex)
    for n in TOOLS:
        emit(n, 'tool', (lambda n=n: eff_term(sk[n], False)) if sk is not None else (lambda: (_ for _ in ()).throw(Fail(err))))
    try:
        skc = skeletons(os.path.join(src, 'cli.py'), CLI + ['handle_init'], cli=True)
    except (Fail, KeyError, SyntaxError) as ex:
        skc = None; err = str(ex)
    for n in CLI:
        emit(n, 'cli', (lambda n=n: eff_term(skc[n], True) + '; SRetOk')   # falling off the end of a command = exit status 0
             if skc is not None else (lambda: (_ for _ in ()).throw(Fail(err))))
    def init():
        if skc is None: raise Fail(err)
        return init_term(skc['handle_init'], find_cfg_var(os.path.join(src, 'cli.py')))
    emit('handle_init', 'init', init)
    lines.append('Definition tool_skeletons : list (list Effects.stmt) := [%s].' % '; '.join('sk_' + n for n in TOOLS))
    lines.append('Definition cli_skeletons : list (list Effects.stmt) := [%s].' % '; '.join('sk_' + n for n in CLI))
    info['raw'] = {'tools': sk, 'cli': skc}
    return '\n'.join(lines) + '\n', info

if __name__ == '__main__':
    text, info = generate(sys.argv[1] if len(sys.argv) > 1 else '/repo/src/adeu')
    print(text); print(info['failed'])
