"""Running the implementation and the model on abstract documents; canonical observations; structural validator."""
import io, re, zipfile, json
from lxml import etree
from harness import core, absdoc as A

# ----------------------------------------------------------------------------- implementation side (call inside worker processes)
def impl_init():
    core.use_repo()

def engine_roundtrip(b, author='Tester'):
    from adeu.redline.engine import RedlineEngine
    e = RedlineEngine(io.BytesIO(b), author=author)
    return e.save_to_stream().getvalue()

def engine_review(b, actions, author='Tester'):
    """actions: [(kind, target_id, text)] kind in ACCEPT/REJECT/REPLY"""
    from adeu.redline.engine import RedlineEngine
    from adeu.models import ReviewAction
    e = RedlineEngine(io.BytesIO(b), author=author)
    ap, sk = e.apply_review_actions([ReviewAction(action=k, target_id=t, text=x) for k, t, x in actions])
    return ap, sk, e.save_to_stream().getvalue()

def engine_accept_all(b):
    from adeu.redline.engine import RedlineEngine
    e = RedlineEngine(io.BytesIO(b)); e.accept_all_revisions()
    return e.save_to_stream().getvalue()

def extract(b, clean):
    from adeu.ingest import extract_text_from_stream
    return extract_text_from_stream(io.BytesIO(b), clean_view=clean)

# ----------------------------------------------------------------------------- shapes (run structure, for the model correspondence)
def merge_t(kids):
    out = []
    for k in kids:
        if out and k[0] in ('t', 'dt') and out[-1][0] == k[0]: out[-1] = [k[0], out[-1][1] + k[1]]
        else: out.append(list(k))
    return [tuple(k) for k in out if not (k[0] in ('t', 'dt') and k[1] == '')]
def shape(nodes):
    out = []
    for n in nodes:
        if n[0] == 'run': out.append(('r', A.rpr_key(n[2], empty_is_none=False), tuple(merge_t(n[3]))))
        elif n[0] in ('ins', 'del'): out.append((n[0], tuple(n[2]), tuple(shape(n[3]))))
        elif n[0] in ('crs', 'cre'): out.append((n[0], n[1]))
        else: out.append(('o', n[1]))
    return out
def doc_shape(doc):
    def go(bl):
        out = []
        for b in bl:
            if b['t'] == 'p': out.append(('p', b['ppr'], tuple(b['style']), tuple(shape(b['nodes']))))
            else: out.append(('tbl', [[go(c['blocks']) for c in r] for r in b['rows']]))      # cell spans are not carried by the model
        return out
    return [(s['kind'], go(s['blocks'])) for s in doc['stories']]

def comments_key(doc):
    return sorted((c['id'], c['author'], c.get('date') or '', c['text'].strip(), c.get('parent')) for c in doc['comments'])

def first_diff(a, b):
    ra, rb = repr(a), repr(b)
    n = min(len(ra), len(rb)); i = next((k for k in range(n) if ra[k] != rb[k]), n)
    return {'at': i, 'left': ra[max(0, i - 120):i + 160], 'right': rb[max(0, i - 120):i + 160]}

# ----------------------------------------------------------------------------- structural validator (C09 and friends), lxml only
W = A.W
def struct_issues(b, session_author=None, session_ids=None):
    """returns a list of human-readable problems in a saved package (empty = valid)"""
    issues = []
    try: z = zipfile.ZipFile(io.BytesIO(b))
    except Exception as e: return ['not a zip package: %s' % e]
    names = z.namelist()
    roots = {}
    for n in names:
        if n.endswith('.xml') or n.endswith('.rels'):
            try: roots[n] = etree.fromstring(z.read(n))
            except Exception as e: issues.append('part %s is not well-formed XML: %s' % (n, e))
    if len(set(names)) != len(names): issues.append('duplicate zip members: %s' % sorted(n for n in set(names) if names.count(n) > 1))
    q = A.q
    stories = [n for n in roots if re.match(r'word/(document|header\d*|footer\d*)\.xml$', n)]
    for n in stories:
        r = roots[n]
        ids = [e.get(q('id')) for e in r.iter(q('ins'), q('del'))]
        for e in r.iter(q('ins'), q('del')):
            p = e.getparent()
            while p is not None:
                if p.tag in (q('ins'), q('del')):
                    issues.append('%s: w:%s id=%s is nested inside w:%s id=%s' % (n, etree.QName(e).localname, e.get(q('id')), etree.QName(p).localname, p.get(q('id')))); break
                p = p.getparent()
        for dt in r.iter(q('delText')):
            if not any(a.tag == q('del') for a in dt.iterancestors()): issues.append('%s: w:delText %r occurs outside any w:del' % (n, dt.text))
        for t in r.iter(q('t')):
            if any(a.tag == q('del') for a in t.iterancestors()): issues.append('%s: w:t %r occurs inside a w:del' % (n, t.text))
        # comment ranges
        st = [e.get(q('id')) for e in r.iter(q('commentRangeStart'))]; en = [e.get(q('id')) for e in r.iter(q('commentRangeEnd'))]
        rf = [e.get(q('id')) for e in r.iter(q('commentReference'))]
        for cid in set(st) | set(en) | set(rf):
            if st.count(cid) != 1 or en.count(cid) != 1 or rf.count(cid) != 1:
                issues.append('%s: comment %s has %d range start(s), %d end(s), %d reference(s)' % (n, cid, st.count(cid), en.count(cid), rf.count(cid)))
    return issues

def rev_ids_by_part(b):
    z = zipfile.ZipFile(io.BytesIO(b)); out = {}
    for n in z.namelist():
        if re.match(r'word/(document|header\d*|footer\d*)\.xml$', n):
            r = etree.fromstring(z.read(n))
            out[n] = [(etree.QName(e).localname, e.get(A.q('id')), e.get(A.q('author')), e.get(A.q('date'))) for e in r.iter(A.q('ins'), A.q('del'))]
    return out

# ----------------------------------------------------------------------------- independent reference semantics on tapes
def ref_accept(at, i):
    out = []
    for a in at:
        if a[0] in ('crs', 'cre'): out.append(a); continue
        st = a[3]
        if any(k == 'd' and m[0] == i for k, m in st): continue
        out.append(a[:3] + (tuple((k, m) for k, m in st if not (k == 'i' and m[0] == i)),))
    return out
def ref_reject(at, i):
    out = []
    for a in at:
        if a[0] in ('crs', 'cre'): out.append(a); continue
        st = a[3]
        if any(k == 'i' and m[0] == i for k, m in st): continue
        out.append(a[:3] + (tuple((k, m) for k, m in st if not (k == 'd' and m[0] == i)),))
    return out
def tape_ids(tp):
    ids = set()
    def go(bl):
        for b in bl:
            if b[0] == 'p':
                for a in b[3]:
                    if a[0] not in ('crs', 'cre'):
                        for k, m in a[3]: ids.add(m[0])
            else:
                for r in b[1]:
                    for c in r: go(c[2])
    for k, bl in tp: go(bl)
    return ids
def tape_map(tp, f):
    def go(bl):
        out = []
        for b in bl:
            if b[0] == 'p': out.append(('p', b[1], b[2], f(b[3])))
            else: out.append(('tbl', [[(c[0], c[1], go(c[2])) for c in r] for r in b[1]]))
        return out
    return [(k, go(bl)) for k, bl in tp]

# ----------------------------------------------------------------------------- edit batches on the engine, with oracle recording
def _real_find(m, t):
    """first occurrence of t in the projection that touches a span with a run and no deleted span (the model's find_on), computed here
    independently of the implementation's own helper"""
    i = m.full_text.find(t)
    while i != -1:
        cov = [s for s in m.spans if s.run is not None and s.end > i and s.start < i + len(t)]
        if cov and not any(s.del_id for s in cov): return i
        i = m.full_text.find(t, i + 1)
    return -1

_QN = {0x201c: '"', 0x201d: '"', 0x2018: "'", 0x2019: "'"}
def _real_find_q(m, t):
    """the model's find_quote: the same search on the text and target with typographic quotes made plain (one character for one)"""
    ft, tt = m.full_text.translate(_QN), t.translate(_QN)
    i = ft.find(tt)
    while i != -1:
        cov = [s for s in m.spans if s.run is not None and s.end > i and s.start < i + len(tt)]
        if cov and not any(s.del_id for s in cov): return i
        i = ft.find(tt, i + 1)
    return -1

def _loose(x):
    """what every approximate matcher stage preserves: the text with Markdown markers and heading prefixes dropped, typographic quotes
    made plain, [___] placeholders of any length equal and whitespace runs collapsed (coarser than each stage, so never a false alarm)"""
    x = re.sub(r'(?m)^#+\s*', '', x)
    x = x.replace('\u201c', '"').replace('\u201d', '"').replace('\u2018', "'").replace('\u2019', "'")
    x = re.sub(r'[*_]', '', x)
    return re.sub(r'\s+', ' ', x).strip()

def engine_edits(b, edits, author='Tester'):
    """edits: [(target, new, comment|None, index|None)] -> dict(ap, sk, out, oracle, ts, err)"""
    from adeu.redline.engine import RedlineEngine
    from adeu.redline.mapper import DocumentMapper
    from adeu.models import DocumentEdit
    rec = []; qh = [0]
    orig = DocumentMapper.find_match_index
    def wrapped(self, target_text):
        r = orig(self, target_text)
        # the exact and the smart-quote stage are inside the model; only the answers of the later stages are recorded
        ex = _real_find(self, target_text)
        if ex == -1 and _real_find_q(self, target_text) != -1: qh[0] += 1
        elif ex == -1:
            rec.append(None if r[0] == -1 else [r[0], r[1]])
            if r[0] != -1 and not (0 <= r[0] and r[0] + r[1] <= len(self.full_text)): rec.append('CONTRACT')
            # an approximate answer still denotes the target: the same text up to markers, quote style and whitespace
            elif r[0] != -1 and _loose(self.full_text[r[0]:r[0] + r[1]]) != _loose(target_text): rec.append('CONTRACT2')
        return r
    DocumentMapper.find_match_index = wrapped
    try:
        e = RedlineEngine(io.BytesIO(b), author=author)
        des = []
        for t, n, c, i in edits:
            de = DocumentEdit(target_text=t, new_text=n, comment=c)
            if i is not None: de._match_start_index = i
            des.append(de)
        ap, sk = e.apply_edits(des)
        return {'ap': ap, 'sk': sk, 'out': e.save_to_stream().getvalue(), 'oracle': rec, 'ts': e.timestamp, 'err': None, 'qhits': qh[0]}
    except Exception as ex:
        import traceback
        return {'err': '%s: %s' % (type(ex).__name__, ex), 'tb': traceback.format_exc()[-1500:], 'oracle': rec}
    finally:
        DocumentMapper.find_match_index = orig

def canon_session(doc, din, ts=None):
    """the dates of revision marks and comments created by the run (their ids do not occur in the loaded document) become SESSION"""
    old_marks = mark_ids(din); old_c = {c['id'] for c in din['comments']}
    def fix(nodes):
        for n in nodes:
            if n[0] in ('ins', 'del'):
                if n[2][0] not in old_marks: n[2][2] = 'SESSION'
                fix(n[3])
    for p in A.paras(doc): fix(p['nodes'])
    for c in doc['comments']:
        if c['id'] not in old_c: c['date'] = 'SESSION'
    return doc

def sx_edits_line(din, author, edits, oracle):
    eds = ' '.join('(%s %s %s %s)' % (A.sx_str(t), A.sx_str(n), A.sx_str(c or ''), '()' if i is None else '(1 %d)' % i) for t, n, c, i in edits)
    orc = ' '.join('()' if o is None else '(%d %d)' % (o[0], o[1]) for o in oracle if o not in ('CONTRACT', 'CONTRACT2'))
    return '(%s %s %s (%s) (%s))' % (A.sx_doc(din), A.sx_str(author), A.sx_str('SESSION'), eds, orc)

def mark_ids(doc):
    """ids of every w:ins / w:del element of the document (also those without text)"""
    out = set()
    def go(nodes):
        for n in nodes:
            if n[0] in ('ins', 'del'): out.add(n[2][0]); go(n[3])
    for p in A.paras(doc): go(p['nodes'])
    return out
