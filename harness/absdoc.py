"""Abstract documents: the shared vocabulary of generators, the independent OOXML reader, the model syntax and the tapes.

doc   = {'stories': [{'kind': 0|1|2, 'blocks': [block]}], 'comments': [{'id','author','date','text','parent'}], 'next_uid': n, 'rpr_table': [str]}
block = {'t': 'p', 'pid': n, 'ppr': tok, 'style': ['N', bold] | ['H', n] | ['T'] | ['O'], 'nodes': [node]}
      | {'t': 'tbl', 'tok': n, 'rows': [[{'tok': n, 'span': k, 'vm': None|'restart'|'continue', 'blocks': [block]}]]}
node  = ['run', uid, rpr, kids] | ['ins'|'del', uid, [id, author, date], [node]] | ['crs', id] | ['cre', id] | ['other', tok]
rpr   = None | [[tag, val], ...]      tag 1 = w:b, 2 = w:i (val 0 = w:val off, 1 = no w:val attribute, 2 = w:val="1", 3 = "true", 4 = "on"); tag >= 100: index into rpr_table + 100, val 0
kid   = ['t', s] | ['dt', s] | ['tab'] | ['br'] | ['cr'] | ['ref', id] | ['other', tok]
The reader (bytes -> doc) uses lxml + zipfile only: no python-docx, no adeu code.  It is the abstraction function the
correspondence and every oracle rest on (trusted; exercised by build -> read round trips on every generated case)."""
import io, re, zipfile, copy
from harness import core
from lxml import etree

W = 'http://schemas.openxmlformats.org/wordprocessingml/2006/main'
R = 'http://schemas.openxmlformats.org/officeDocument/2006/relationships'
W14 = 'http://schemas.microsoft.com/office/word/2010/wordml'
W15 = 'http://schemas.microsoft.com/office/word/2012/wordml'
PR = 'http://schemas.openxmlformats.org/package/2006/relationships'
def q(t): return '{%s}%s' % (W, t)
NS = 'xmlns:w="%s" xmlns:r="%s" xmlns:w14="%s"' % (W, R, W14)

OTHER_TOKS = {1: 'proofErr', 2: 'bookmarkStart', 3: 'bookmarkEnd', 4: 'hyperlink', 5: 'drawing', 6: 'noBreakHyphen', 7: 'smartTag', 8: 'lastRenderedPageBreak'}
TOK_OF = {v: k for k, v in OTHER_TOKS.items()}

def esc(s): return s.replace('&', '&amp;').replace('<', '&lt;').replace('>', '&gt;').replace('"', '&quot;')

# ----------------------------------------------------------------------------- builder: doc -> DOCX bytes
RPR_XML = {}   # filled by table entries: canonical child strings
def rpr_xml(rpr, table):
    if rpr is None: return ''
    out = []
    for tag, val in rpr:
        if tag in (1, 2):
            nm = 'b' if tag == 1 else 'i'
            out.append('<w:%s/>' % nm if val == 1 else '<w:%s w:val="%s"/>' % (nm, {0: '0', 2: '1', 3: 'true', 4: 'on'}[val]))
        else: out.append(table[tag - 100])
    return '<w:rPr>%s</w:rPr>' % ''.join(out)
def t_xml(tag, s):
    sp = ' xml:space="preserve"' if s.strip() != s else ''
    return '<w:%s%s>%s</w:%s>' % (tag, sp, esc(s), tag)
def kid_xml(k):
    if k[0] == 't': return t_xml('t', k[1])
    if k[0] == 'dt': return t_xml('delText', k[1])
    if k[0] == 'tab': return '<w:tab/>'
    if k[0] == 'br': return '<w:br/>'
    if k[0] == 'cr': return '<w:cr/>'
    if k[0] == 'ref': return '<w:commentReference w:id="%s"/>' % esc(k[1])
    name = OTHER_TOKS.get(k[1], 'noBreakHyphen')
    if name == 'drawing': return '<w:drawing><w:placeholder w:val="pic"/></w:drawing>'
    return '<w:%s/>' % (name if name in ('noBreakHyphen', 'lastRenderedPageBreak') else 'noBreakHyphen')
def node_xml(n, table):
    if n[0] == 'run': return '<w:r>%s%s</w:r>' % (rpr_xml(n[2], table), ''.join(kid_xml(k) for k in n[3]))
    if n[0] in ('ins', 'del'):
        i, a, d = n[2]
        return '<w:%s w:id="%s" w:author="%s" w:date="%s">%s</w:%s>' % (n[0], esc(i), esc(a), esc(d), ''.join(node_xml(c, table) for c in n[3]), n[0])
    if n[0] == 'crs': return '<w:commentRangeStart w:id="%s"/>' % esc(n[1])
    if n[0] == 'cre': return '<w:commentRangeEnd w:id="%s"/>' % esc(n[1])
    name = OTHER_TOKS.get(n[1], 'bookmarkStart')
    if name == 'proofErr': return '<w:proofErr w:type="spellStart"/>'
    if name == 'bookmarkStart': return '<w:bookmarkStart w:id="900" w:name="bm"/>'
    if name == 'bookmarkEnd': return '<w:bookmarkEnd w:id="900"/>'
    if name == 'hyperlink': return '<w:hyperlink w:anchor="bm"><w:r><w:t>link</w:t></w:r></w:hyperlink>'
    if name == 'smartTag': return '<w:smartTag w:element="x"/>'
    return '<w:bookmarkEnd w:id="901"/>'
PPR = {0: '', 1: '<w:jc w:val="center"/>', 2: '<w:numPr><w:ilvl w:val="0"/><w:numId w:val="1"/></w:numPr>', 3: '<w:spacing w:after="120"/>', 4: '<w:keepNext/>',
       5: '<w:sectPr><w:pgSz w:w="15840" w:h="12240" w:orient="landscape"/></w:sectPr>'}      # 5: the paragraph ends a section (Word keeps the break in its pPr)
def _canon_frag(x):
    if not x: return ''
    root = etree.fromstring('<w:pPr xmlns:w="%s">%s</w:pPr>' % (W, x))
    return re.sub(r' xmlns:\w+="[^"]*"', '', ''.join(etree.tostring(c, method='c14n', exclusive=True).decode() for c in root))
PPR_CANON = {k: _canon_frag(v) for k, v in PPR.items()}
HEADING_IDS = {'en': 'Heading%d', 'de': 'berschrift%d'}      # style ids of the built-in headings as English / German Word writes them
DOC_KEYS = ('stories', 'comments', 'next_uid', 'rpr_table', 'style_ids')
def doc_core(d): return {k: d[k] for k in DOC_KEYS if k in d}
_LOC = ['en']      # style-id locale of the document being built (set by build)
def style_id(st, loc='en'):
    return {'N': None, 'H': HEADING_IDS[loc] % (st[1] if len(st) > 1 else 1), 'T': 'Title', 'O': 'Quote'}[st[0]]
def para_xml(p, table):
    sid = style_id(p['style'], _LOC[0])
    if p['style'][0] == 'N' and p['style'][1]: sid = 'BoldNormal'      # never used: Normal-with-bold is a document-level switch
    inner = ('<w:pStyle w:val="%s"/>' % sid if sid else '') + PPR.get(p['ppr'], '')
    ppr = '<w:pPr>%s</w:pPr>' % inner if inner else ''
    return '<w:p>%s%s</w:p>' % (ppr, ''.join(node_xml(n, table) for n in p['nodes']))
def block_xml(b, table):
    if b['t'] == 'p': return para_xml(b, table)
    rows = []
    for r in b['rows']:
        cells = []
        for c in r:
            tcpr = ''
            if c.get('span', 1) > 1: tcpr += '<w:gridSpan w:val="%d"/>' % c['span']
            if c.get('vm') == 'restart': tcpr += '<w:vMerge w:val="restart"/>'
            elif c.get('vm') == 'continue': tcpr += '<w:vMerge/>'
            inner = ''.join(block_xml(x, table) for x in c['blocks'])
            if not c['blocks'] or c['blocks'][-1]['t'] != 'p': inner += ''     # (Word wants a final paragraph; adeu does not care)
            cells.append('<w:tc><w:tcPr><w:tcW w:w="2000" w:type="dxa"/>%s</w:tcPr>%s</w:tc>' % (tcpr, inner))
        rows.append('<w:tr>%s</w:tr>' % ''.join(cells))
    ncols = max((sum(c.get('span', 1) for c in r) for r in b['rows']), default=1)
    grid = '<w:tblGrid>%s</w:tblGrid>' % ('<w:gridCol w:w="2000"/>' * ncols)
    return '<w:tbl><w:tblPr><w:tblW w:w="0" w:type="auto"/></w:tblPr>%s%s</w:tbl>' % (grid, ''.join(rows))

def styles_xml(normal_rpr, loc):
    """built-in headings carry the internal names Word writes ('heading N'); their ids depend on the language of the Word that
    created the file"""
    heads = ''.join('<w:style w:type="paragraph" w:styleId="%s"><w:name w:val="heading %d"/><w:basedOn w:val="Normal"/></w:style>' % (HEADING_IDS[loc] % i, i) for i in range(1, 10))
    return ('<?xml version="1.0" encoding="UTF-8" standalone="yes"?><w:styles %s>'
            '<w:style w:type="paragraph" w:default="1" w:styleId="Normal"><w:name w:val="Normal"/>%s</w:style>'
            '%s'
            '<w:style w:type="paragraph" w:styleId="Title"><w:name w:val="Title"/><w:basedOn w:val="Normal"/></w:style>'
            '<w:style w:type="paragraph" w:styleId="Quote"><w:name w:val="Quote"/><w:basedOn w:val="Normal"/></w:style>'
            '<w:style w:type="paragraph" w:styleId="CommentText"><w:name w:val="annotation text"/><w:basedOn w:val="Normal"/></w:style>'
            '<w:style w:type="character" w:default="1" w:styleId="DefaultParagraphFont"><w:name w:val="Default Paragraph Font"/></w:style>'
            '<w:style w:type="character" w:styleId="CommentReference"><w:name w:val="annotation reference"/></w:style>'
            '</w:styles>') % (NS, normal_rpr, heads)
CT_HEAD = ('<?xml version="1.0" encoding="UTF-8" standalone="yes"?><Types xmlns="http://schemas.openxmlformats.org/package/2006/content-types">'
           '<Default Extension="xml" ContentType="application/xml"/><Default Extension="rels" ContentType="application/vnd.openxmlformats-package.relationships+xml"/>'
           '<Default Extension="png" ContentType="image/png"/>'
           '<Override PartName="/word/document.xml" ContentType="application/vnd.openxmlformats-officedocument.wordprocessingml.document.main+xml"/>'
           '<Override PartName="/word/styles.xml" ContentType="application/vnd.openxmlformats-officedocument.wordprocessingml.styles+xml"/>'
           '<Override PartName="/word/settings.xml" ContentType="application/vnd.openxmlformats-officedocument.wordprocessingml.settings+xml"/>')
WML = 'application/vnd.openxmlformats-officedocument.wordprocessingml.'
RT = 'http://schemas.openxmlformats.org/officeDocument/2006/relationships/'

def build(doc, extras=None):
    """doc -> DOCX bytes. extras: optional {'parts': [(name, content_type, bytes, reltype)], 'comments_name': str, 'normal_bold': bool}"""
    extras = extras or {}
    _LOC[0] = doc.get('style_ids', 'en')
    table = doc.get('rpr_table', [])
    stories = doc['stories']
    body = [s for s in stories if s['kind'] == 1][0]
    headers = [s for s in stories if s['kind'] == 0]; footers = [s for s in stories if s['kind'] == 2]
    rels = [('rId1', RT + 'styles', 'styles.xml'), ('rId2', RT + 'settings', 'settings.xml')]
    ct = [CT_HEAD]; files = {}
    sect = ''
    n_hf = 0
    for kind, lst, tag, rt, ctype, root in ((0, headers, 'headerReference', 'header', 'header+xml', 'hdr'), (2, footers, 'footerReference', 'footer', 'footer+xml', 'ftr')):
        for s in lst[:2]:
            n_hf += 1; rid = 'rId%d' % (9 + n_hf); fn = '%s%d.xml' % (rt, n_hf)
            rels.append((rid, RT + rt, fn)); sect += '<w:%s w:type="%s" r:id="%s"/>' % (tag, s.get('hf', 'default'), rid)
            files['word/' + fn] = '<?xml version="1.0" encoding="UTF-8" standalone="yes"?><w:%s %s>%s</w:%s>' % (root, NS, ''.join(block_xml(b, table) for b in s['blocks']), root)
            ct.append('<Override PartName="/word/%s" ContentType="%s%s"/>' % (fn, WML, ctype))
    if doc.get('titlePg') or any(s.get('hf') == 'first' for s in stories if not s.get('no_titlepg')): sect += '<w:titlePg/>'
    files['word/document.xml'] = ('<?xml version="1.0" encoding="UTF-8" standalone="yes"?><w:document %s><w:body>%s<w:sectPr>%s<w:pgSz w:w="12240" w:h="15840"/></w:sectPr></w:body></w:document>'
                                  % (NS, ''.join(block_xml(b, table) for b in body['blocks']), sect))
    if doc.get('comments') or extras.get('force_comments_part'):
        cname = extras.get('comments_name', 'comments.xml')
        cs = []; ex = []
        pid_of = {c['id']: '%08X' % (0x10000000 + k) for k, c in enumerate(doc['comments'])}
        for c in doc['comments']:
            cs.append('<w:comment w:id="%s" w:author="%s"%s w:initials="X"><w:p w14:paraId="%s"><w:r><w:t>%s</w:t></w:r></w:p></w:comment>'
                      % (esc(c['id']), esc(c['author']), (' w:date="%s"' % esc(c['date'])) if c.get('date') else '', pid_of[c['id']], esc(c['text'])))
            par = c.get('parent')
            ex.append('<w15:commentEx w15:paraId="%s"%s w15:done="0"/>' % (pid_of[c['id']], (' w15:paraIdParent="%s"' % pid_of[par]) if par in pid_of else ''))
        files['word/' + cname] = '<?xml version="1.0" encoding="UTF-8" standalone="yes"?><w:comments %s xmlns:w15="%s">%s</w:comments>' % (NS, W15, ''.join(cs))
        rels.append(('rId20', RT + 'comments', cname)); ct.append('<Override PartName="/word/%s" ContentType="%scomments+xml"/>' % (cname, WML))
        if extras.get('extended', True):
            files['word/commentsExtended.xml'] = '<?xml version="1.0" encoding="UTF-8" standalone="yes"?><w15:commentsEx xmlns:w15="%s" %s>%s</w15:commentsEx>' % (W15, NS, ''.join(ex))
            rels.append(('rId21', 'http://schemas.microsoft.com/office/2011/relationships/commentsExtended', 'commentsExtended.xml'))
            ct.append('<Override PartName="/word/commentsExtended.xml" ContentType="%scommentsExtended+xml"/>' % WML)
    for k, (name, ctype, data, reltype) in enumerate(extras.get('parts', [])):
        files[name] = data; rels.append(('rId%d' % (40 + k), reltype, name[len('word/'):] if name.startswith('word/') else '../' + name))
        if not name.endswith('.png'): ct.append('<Override PartName="/%s" ContentType="%s"/>' % (name, ctype))
    files['word/styles.xml'] = styles_xml('<w:rPr><w:b/></w:rPr>' if extras.get('normal_bold') else '', _LOC[0])
    files['word/settings.xml'] = '<?xml version="1.0" encoding="UTF-8" standalone="yes"?><w:settings %s><w:zoom w:percent="100"/>%s</w:settings>' % (NS, '<w:evenAndOddHeaders/>' if extras.get('even_odd') else '')
    files['[Content_Types].xml'] = ''.join(ct) + '</Types>'
    files['_rels/.rels'] = ('<?xml version="1.0" encoding="UTF-8" standalone="yes"?><Relationships xmlns="%s"><Relationship Id="rId1" Type="%sofficeDocument" Target="word/document.xml"/></Relationships>' % (PR, RT))
    files['word/_rels/document.xml.rels'] = ('<?xml version="1.0" encoding="UTF-8" standalone="yes"?><Relationships xmlns="%s">%s</Relationships>'
                                            % (PR, ''.join('<Relationship Id="%s" Type="%s" Target="%s"/>' % r for r in rels)))
    bio = io.BytesIO()
    with zipfile.ZipFile(bio, 'w', zipfile.ZIP_DEFLATED) as z:
        for n in ['[Content_Types].xml', '_rels/.rels'] + sorted(k for k in files if k not in ('[Content_Types].xml', '_rels/.rels')):
            v = files[n]; z.writestr(n, v if isinstance(v, bytes) else v.encode('utf-8'))
    return bio.getvalue()

# ----------------------------------------------------------------------------- reader: DOCX bytes -> doc
def canon(el): return etree.tostring(el, method='c14n', exclusive=True).decode()
class Reader:
    def __init__(self, table=None):
        self.table = table if table is not None else []
        self.uid = 0; self.pid = 0
        self.pprs = {}; self.style_names = {}
    def fresh(self): self.uid += 1; return self.uid
    def rpr(self, r):
        rp = r.find(q('rPr'))
        if rp is None: return None
        out = []
        for c in rp:
            loc = etree.QName(c).localname
            if loc in ('b', 'i') and set(c.attrib) <= {q('val')}:
                v = c.get(q('val'))
                out.append([1 if loc == 'b' else 2, 0 if v in ('0', 'false', 'off') else {None: 1, '1': 2, 'true': 3, 'on': 4}.get(v, 1)])
            else:
                s = etree.tostring(c, method='c14n', exclusive=True).decode()
                s = re.sub(r' xmlns:\w+="[^"]*"', '', s)
                if s not in self.table: self.table.append(s)
                out.append([100 + self.table.index(s), 0])
        return out
    def run(self, r):
        kids = []
        for c in r:
            loc = etree.QName(c).localname
            if loc == 'rPr': continue
            if loc == 't': kids.append(['t', c.text or ''])
            elif loc == 'delText': kids.append(['dt', c.text or ''])
            elif loc in ('tab', 'br', 'cr'): kids.append([loc])
            elif loc == 'commentReference': kids.append(['ref', c.get(q('id')) or ''])
            else: kids.append(['other', TOK_OF.get(loc, 6)])
        return ['run', self.fresh(), self.rpr(r), kids]
    def node(self, c):
        loc = etree.QName(c).localname
        if loc == 'r': return self.run(c)
        if loc in ('ins', 'del'):
            return [loc, self.fresh(), [c.get(q('id')) or '', c.get(q('author')) or '', c.get(q('date')) or ''], [self.node(x) for x in c]]
        if loc == 'commentRangeStart': return ['crs', c.get(q('id')) or '']
        if loc == 'commentRangeEnd': return ['cre', c.get(q('id')) or '']
        return ['other', TOK_OF.get(loc, 2)]
    def para(self, p):
        ppr = p.find(q('pPr')); style = ['N', False]; tok = 0
        if ppr is not None:
            ps = ppr.find(q('pStyle'))
            if ps is not None:
                v = ps.get(q('val')) or ''
                # the style's NAME decides, as in Word (ids are language dependent); an id the document does not define is no style at all
                v = self.style_names.get(v, 'Normal' if self.style_names else v)
                m = re.match(r'[Hh]eading ?(\d+)$', v)
                style = ['H', int(m.group(1))] if m else ['T'] if v == 'Title' else ['N', False] if v == 'Normal' else ['O']
            rest = ''.join(canon(c) for c in ppr if c.tag != q('pStyle'))
            rest = re.sub(r' xmlns:\w+="[^"]*"', '', rest)
            for k, v in PPR_CANON.items():
                if v and v == rest: tok = k
            if rest and tok == 0:
                tok = self.pprs.setdefault(rest, 50 + len(self.pprs))
        self.pid += 1
        return {'t': 'p', 'pid': self.pid, 'ppr': tok, 'style': style, 'nodes': [self.node(c) for c in p if c.tag != q('pPr')]}
    def blocks(self, container):
        out = []
        for c in container:
            if c.tag == q('p'): out.append(self.para(c))
            elif c.tag == q('tbl'):
                rows = []
                for tr in c.findall(q('tr')):
                    cells = []
                    for tc in tr.findall(q('tc')):
                        pr = tc.find(q('tcPr')); span = 1; vm = None
                        if pr is not None:
                            g = pr.find(q('gridSpan'))
                            if g is not None: span = int(g.get(q('val')) or 1)
                            v = pr.find(q('vMerge'))
                            if v is not None: vm = 'restart' if v.get(q('val')) == 'restart' else 'continue'
                        cells.append({'tok': 0, 'span': span, 'vm': vm, 'blocks': self.blocks(tc)})
                    rows.append(cells)
                out.append({'t': 'tbl', 'tok': 0, 'rows': rows})
        return out

def _paras_of(blocks):
    for b in blocks:
        if b['t'] == 'p': yield b
        else:
            for r in b['rows']:
                for c in r: yield from _paras_of(c['blocks'])
def read(b, table=None):
    z = zipfile.ZipFile(io.BytesIO(b))
    rd = Reader(table)
    if 'word/styles.xml' in z.namelist():
        for st in etree.fromstring(z.read('word/styles.xml')).findall(q('style')):
            nm = st.find(q('name'))
            if nm is not None and st.get(q('styleId')): rd.style_names[st.get(q('styleId'))] = nm.get(q('val')) or ''
    root = etree.fromstring(z.read('word/document.xml'))
    body = root.find(q('body'))
    rels = {}
    if 'word/_rels/document.xml.rels' in z.namelist():
        for r in etree.fromstring(z.read('word/_rels/document.xml.rels')):
            rels[r.get('Id')] = (r.get('Type'), r.get('Target'))
    heads = []; foots = []
    for sect in body.iter(q('sectPr')):
        title = sect.find(q('titlePg')) is not None
        refs = {}
        for ref in sect:
            loc = etree.QName(ref).localname
            if loc in ('headerReference', 'footerReference'):
                tgt = rels.get(ref.get('{%s}id' % R))
                if tgt: refs[(loc, ref.get(q('type')))] = 'word/' + tgt[1]
        for loc, lst in (('headerReference', heads), ('footerReference', foots)):
            if (loc, 'default') in refs: lst.append((refs[(loc, 'default')], 'default'))
            if title and (loc, 'first') in refs: lst.append((refs[(loc, 'first')], 'first'))
    stories = []
    for h, t in heads: stories.append({'kind': 0, 'blocks': rd.blocks(etree.fromstring(z.read(h))), 'part': h, 'hf': t})
    stories.append({'kind': 1, 'blocks': rd.blocks(body), 'part': 'word/document.xml'})
    for f, t in foots: stories.append({'kind': 2, 'blocks': rd.blocks(etree.fromstring(z.read(f))), 'part': f, 'hf': t})
    comments = read_comments(z)
    # hypotheses of the engine theorems, established here by construction and asserted: paragraph identities lie below the next free
    # identity (wf_ids); node identities are pairwise different (C10_range_around)
    _pids = [p['pid'] for s in stories for p in _paras_of(s['blocks'])]
    assert all(x < rd.uid + 1000 for x in _pids) and len(set(_pids)) == len(_pids), 'reader: paragraph identities'
    loc = 'de' if any(k.startswith('berschrift') for k in rd.style_names) else 'en'
    return {'stories': stories, 'comments': comments, 'next_uid': rd.uid + 1000, 'rpr_table': rd.table, 'style_ids': loc}

def comment_part_names(z):
    names = []
    try:
        ct = etree.fromstring(z.read('[Content_Types].xml'))
        for o in ct:
            if o.get('ContentType') == WML + 'comments+xml': names.append(o.get('PartName').lstrip('/'))
    except Exception: pass
    return names
def read_comments(z):
    out = []
    names = comment_part_names(z)
    ext = None
    for n in z.namelist():
        if n.startswith('word/commentsExtended') and n.endswith('.xml'): ext = etree.fromstring(z.read(n))
    for name in names[:1]:
        root = etree.fromstring(z.read(name)); para_to_cid = {}
        for c in root.findall(q('comment')):
            cid = c.get(q('id'))
            for p in c.findall(q('p')):
                pid = p.get('{%s}paraId' % W14)
                if pid: para_to_cid[pid] = cid
            parts = []
            for p in c.findall(q('p')):
                for r in p.findall(q('r')):
                    for t in r.findall(q('t')):
                        if t.text: parts.append(t.text)
                parts.append('\n')
            out.append({'id': cid, 'author': c.get(q('author')) or 'Unknown', 'date': c.get(q('date')) or '', 'text': ''.join(parts).strip(),
                        'parent': c.get('{%s}p' % W15), 'initials': c.get(q('initials')),
                        'para_ids': [p.get('{%s}paraId' % W14) for p in c.findall(q('p'))]})
        if ext is not None:
            by = {c['id']: c for c in out}
            for e in ext:
                pi = e.get('{%s}paraId' % W15); pp = e.get('{%s}paraIdParent' % W15)
                if pi and pp and pi in para_to_cid and pp in para_to_cid: by[para_to_cid[pi]]['parent'] = para_to_cid[pp]
    return out

# ----------------------------------------------------------------------------- tapes (atoms) and views
def rpr_key(rpr, empty_is_none=True):
    if rpr is None: return None
    if not rpr and empty_is_none: return None
    return tuple(sorted((t, v) for t, v in rpr))
def atoms(nodes, st=()):
    out = []
    for n in nodes:
        if n[0] == 'run':
            f = rpr_key(n[2])
            for k in n[3]:
                if k[0] in ('t', 'dt'): out += [('ch', c, f, st) for c in k[1]]
                elif k[0] == 'tab': out.append(('ch', '\t', f, st))
                elif k[0] in ('br', 'cr'): out.append(('ch', '\n', f, st))
                elif k[0] == 'ref': out.append(('ref', k[1], f, st))
                else: out.append(('sp', k[1], f, st))
        elif n[0] in ('ins', 'del'): out += atoms(n[3], ((n[0][0], tuple(n[2])),) + st)
        elif n[0] == 'crs': out.append(('crs', n[1]))
        elif n[0] == 'cre': out.append(('cre', n[1]))
        else: out.append(('sp', n[1], None, st))
    return out
def map_paras(blocks, f):
    out = []
    for b in blocks:
        if b['t'] == 'p': out.append(f(b))
        else: out.append(('tbl', [[(c.get('span', 1), c.get('vm'), map_paras(c['blocks'], f)) for c in r] for r in b['rows']]))
    return out
def tape(doc, drop_prooferr=True):
    def pf(p):
        at = atoms(p['nodes'])
        if drop_prooferr: at = [a for a in at if not (a[0] == 'sp' and a[1] == 1 and a[2] is None)]
        return ('p', p['ppr'], tuple(p['style']), at)
    return [(s['kind'], map_paras(s['blocks'], pf)) for s in doc['stories']]
def paras(doc):
    def go(bl):
        for b in bl:
            if b['t'] == 'p': yield b
            else:
                for r in b['rows']:
                    for c in r: yield from go(c['blocks'])
    for s in doc['stories']: yield from go(s['blocks'])
def acc_atoms(at):
    out = []
    for a in at:
        if a[0] in ('crs', 'cre', 'ref'): continue
        if any(k == 'd' for k, _ in a[3]): continue
        out.append((a[0], a[1], a[2]))
    return out
def text_of(at): return ''.join(a[1] for a in at if a[0] == 'ch')

# ----------------------------------------------------------------------------- model syntax (s-expressions of integers)
def sx_str(s): core.USED.update(s); return '(' + ' '.join(str(ord(c)) for c in s) + ')'
def sx_kid(k):
    t = k[0]
    if t == 't': return '(0 %s)' % sx_str(k[1])
    if t == 'dt': return '(1 %s)' % sx_str(k[1])
    if t == 'tab': return '(2)'
    if t == 'br': return '(3)'
    if t == 'cr': return '(4)'
    if t == 'ref': return '(5 %s)' % sx_str(k[1])
    return '(6 %d)' % k[1]
def sx_rpr(r): return '()' if r is None else '(1 (%s))' % ' '.join('(%d %d)' % (t, v) for t, v in r)
def sx_mark(m): return '(%s %s %s)' % (sx_str(m[0]), sx_str(m[1]), sx_str(m[2]))
def sx_node(n):
    if n[0] == 'run': return '(0 %d %s (%s))' % (n[1], sx_rpr(n[2]), ' '.join(sx_kid(k) for k in n[3]))
    if n[0] == 'ins': return '(1 %d %s (%s))' % (n[1], sx_mark(n[2]), ' '.join(sx_node(c) for c in n[3]))
    if n[0] == 'del': return '(2 %d %s (%s))' % (n[1], sx_mark(n[2]), ' '.join(sx_node(c) for c in n[3]))
    if n[0] == 'crs': return '(3 %s)' % sx_str(n[1])
    if n[0] == 'cre': return '(4 %s)' % sx_str(n[1])
    return '(5 %d)' % n[1]
def sx_style(st, normal_bold=False):
    if st[0] == 'N': return '(0 %d)' % (1 if normal_bold else 0)
    if st[0] == 'H': return '(1 %d)' % st[1]
    if st[0] == 'T': return '(2)'
    return '(3)'
def sx_block(b, nb=False):
    if b['t'] == 'p': return '(0 %d %d %s (%s))' % (b['pid'], b['ppr'], sx_style(b['style'], nb), ' '.join(sx_node(n) for n in b['nodes']))
    return '(1 %d (%s))' % (b.get('tok', 0), ' '.join('(%s)' % ' '.join('(%d (%s))' % (c.get('span', 1) * 10 + {None: 0, 'restart': 1, 'continue': 2}[c.get('vm')], ' '.join(sx_block(x, nb) for x in c['blocks'])) for c in r) for r in b['rows']))
def sx_doc(d, normal_bold=False):
    return '((%s) (%s) %d)' % (' '.join('(%d (%s))' % (s['kind'], ' '.join(sx_block(b, normal_bold) for b in s['blocks'])) for s in d['stories']),
                               ' '.join('(%s %s %s %s %s)' % (sx_str(c['id']), sx_str(c['author']), sx_str(c.get('date') or ''), sx_str(c['text']), ('(1 %s)' % sx_str(c['parent'])) if c.get('parent') else '()') for c in d['comments']),
                               d['next_uid'])
def sx_parse(s):
    toks = re.findall(r'\(|\)|-?\d+', s); pos = [0]
    def go():
        t = toks[pos[0]]; pos[0] += 1
        if t == '(':
            l = []
            while toks[pos[0]] != ')': l.append(go())
            pos[0] += 1; return l
        return int(t)
    return go()
def un_str(x): return ''.join(chr(c) for c in x)
def un_kid(x):
    t = x[0]
    return [['t', None], ['dt', None], ['tab'], ['br'], ['cr'], ['ref', None], ['other', None]][t][:1] + ([un_str(x[1])] if t in (0, 1, 5) else [x[1]] if t == 6 else [])
def un_rpr(x): return None if not x else [[a, b] for a, b in x[1]]
def un_node(x):
    t = x[0]
    if t == 0: return ['run', x[1], un_rpr(x[2]), [un_kid(k) for k in x[3]]]
    if t in (1, 2): return ['ins' if t == 1 else 'del', x[1], [un_str(y) for y in x[2]], [un_node(c) for c in x[3]]]
    if t == 3: return ['crs', un_str(x[1])]
    if t == 4: return ['cre', un_str(x[1])]
    return ['other', x[1]]
def un_block(x):
    if x[0] == 0:
        st = x[3]; style = ['N', bool(st[1])] if st[0] == 0 else ['H', st[1]] if st[0] == 1 else ['T'] if st[0] == 2 else ['O']
        return {'t': 'p', 'pid': x[1], 'ppr': x[2], 'style': style, 'nodes': [un_node(n) for n in x[4]]}
    return {'t': 'tbl', 'tok': x[1], 'rows': [[{'tok': 0, 'span': max(1, c[0] // 10), 'vm': [None, 'restart', 'continue'][c[0] % 10], 'blocks': [un_block(b) for b in c[1]]} for c in r] for r in x[2]]}
def un_doc(x):
    return {'stories': [{'kind': s[0], 'blocks': [un_block(b) for b in s[1]]} for s in x[0]],
            'comments': [{'id': un_str(c[0]), 'author': un_str(c[1]), 'date': un_str(c[2]), 'text': un_str(c[3]), 'parent': un_str(c[4][1]) if c[4] else None} for c in x[1]],
            'next_uid': x[2]}
def norm_style_tape(t):
    """the model does not carry the Normal-bold flag per paragraph in its output; compare styles modulo that flag"""
    return t
