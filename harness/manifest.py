"""Regenerates MANIFEST.json from the table below (kept valid at all times)."""
import json, os
V = os.path.dirname(os.path.dirname(os.path.abspath(__file__)))
CLAIMED = {
 'C13': dict(
   text="Proof: the post-processor that turns a diff into edits is modelled in Gallina (Diff.v) and C13_exact / C13_sorted_disjoint_targets / C13_identity / C13_lossless_tokens / C13_whole_pieces are proved for EVERY diff list satisfying the diff-match-patch contract and every text, closed under the global context. The model is tied to adeu.diff by running both on every pair of an exhaustive small scope (quick: 157k pairs over three alphabets incl. non-BMP and combining characters) plus random longer pairs, with the diff list diff-match-patch really produced inside each call; the contract assumed by the theorems is checked on each of those lists; the statement itself is also evaluated on the implementation's output with plain string operations.",
   note="Trusted: Coq kernel, ExtrOcamlBasic extraction + driver.ml (cross-checked against vm_compute on a sample each run), the harness oracle; diff-match-patch and Python re are not modelled (contract checked at run time).",
   technique="Coq theorem over a hand-written Gallina model + exhaustive model/implementation correspondence", ref="5 C13"),
}
CLAIMED['C17'] = dict(
   text="Proof: an effect-skeleton language with an oracle-driven semantics (which effect raises, which branch runs) and a static checker are defined in Gallina (Effects.v); safe_sound / safe_cli_sound prove that an accepted skeleton never raises out of a tool, never writes to stdout and leaves the designated output untouched whenever it reports an error, for EVERY fault/branch oracle. On every run harness/skel.py regenerates the skeleton of every MCP tool and CLI handler from server.py / cli.py (fail-closed Python-ast translator) and Props/C17.v re-proves that the checker accepts them (vm_compute). The dynamic half runs every tool/command in child interpreters with the real server wiring on valid/missing/non-DOCX/corrupt inputs and path configurations with a fault at the k-th internal call for every k, checks return values, bytes on fd 1, exit codes, directory snapshots, default output names and equality with the library result, and validates the translator by embedding each observed call order in the skeleton.",
   note="Trusted: Coq kernel; the translator's classification tables and abstractions (listed in skel.py); FM1 (a write of computed bytes does not fail; its negation is finding D22); OS file semantics; the mcp stub. Path derivation, exit codes and stdout silence of library code are checked dynamically only.",
   technique="Coq-proved sound checker over effect skeletons regenerated from source + exhaustive k-th-call fault injection", ref="5 C17")
CLAIMED['C18'] = dict(
   text="Proof: crash/raise semantics of `adeu init` over an abstract world (config/backup contents Orig|New|Junk) where every effect can complete, raise half-way, or the process can die before or in the middle of it; crash_safe_sound proves for ANY initial world and ANY oracle that a skeleton accepted by the checker keeps the complete previous configuration in the file or in the backup. The skeleton of handle_init is regenerated from cli.py on every run and Props/C18.v re-proves its acceptance. Dynamically the real handle_init runs in forked children for every prior state (absent, empty, valid, invalid JSON, non-object, unexpected shapes, random objects) x both modes with a crash-before / crash-in-the-middle / OSError injected at every file-system call; the directory is inspected afterwards; the success half (valid JSON, only the adeu entry changes, idempotent) is checked on every fault-free run.",
   note="Trusted: Coq kernel; translator skel.py (validated by effect traces each run); abstraction of file contents; OS semantics of open/copy2/write; Python json is not modelled (success half is dynamic only).",
   technique="Coq-proved sound crash-safety checker over the skeleton regenerated from source + crash injection at every file-system call", ref="5 C18")
CLAIMED['C14'] = dict(
   text="Proof (partial): markup.py's matcher stages (exact, smart quotes), boundary refinement/repair, overlap filter, descending application and block construction are modelled in Gallina (Markup.v). Proved for every text/edit list and every fuzzy-oracle answer: the marked edits have non-empty, pairwise non-overlapping ranges that are the matcher's answers, displayed indexes are positions of the submitted list (C14_selected), and marker hoisting is lossless (C14_hoisting_lossless). The reject-view / accept-view / balance clauses are not yet theorems: they are decided by the exhaustive correspondence (quick: all texts <=3 x all targets <=2 over a 9-letter alphabet + 20k multi-edit lists, both modes) together with an independent CriticMarkup reader evaluating the statement on every implementation output.",
   note="Trusted: Coq kernel, extraction + driver (vm_compute cross-check each run), Python re for the fuzzy stage (oracle input), ASCII char tables, the independent reader. Known limitation: accept-view equality is only checked where neither text nor targets contain * or _ (marker hoisting keeps the markers of the matched text by design).",
   technique="Coq theorems over a hand-written Gallina model + exhaustive model/implementation correspondence + independent CriticMarkup reader", ref="5 C14")
PENDING = {}
def main():
    props = [json.loads(l) for l in open(os.path.join(V, 'properties.jsonl'))]
    checks = []; na = []
    for p in props:
        pid = p['id']
        if pid in CLAIMED:
            c = CLAIMED[pid]
            checks.append({'property_id': pid, 'quick_cmd': './check %s --tier quick' % pid, 'thorough_cmd': './check %s --tier thorough' % pid,
                           'evidence_file': 'evidence/%s.json' % pid, 'replay_cmd_template': './check %s --replay {path}' % pid, 'engine': 'coq-model',
                           'level_claimed': {'category': 'proof', 'text': c['text'], 'design_ref': c['ref']}, 'level_note': c['note'], 'technique': c['technique']})
        else:
            na.append({'property_id': pid, 'reason': PENDING.get(pid, 'not claimed yet: the check for this property is still being built in this round (the technique applies; see DESIGN.md section 5)')})
    m = {'version': 1,
         'setup_cmd': 'cd /verif && ./setup.sh',
         'hooks': {'guard': 'ADEU_VERIF', 'enable': 'no source hooks: observations and fault injection are done by wrapping callables from the harness; ADEU_VERIF=1 is exported by the checks but nothing in /repo reads it',
                   'baseline_off_cmd': 'cd /repo && /venv/bin/python -m pytest -ra -q -p no:cacheprovider --timeout=900 --continue-on-collection-errors', 'source_commits': [], 'add_only': True},
         'engines': [{'name': 'coq-model', 'path': 'coq/', 'serves_properties': sorted(CLAIMED), 'kind_free_text': 'Coq 8.16.1 project: hand-written Gallina model, proofs, Props/Cxx.v theorem files; extracted to OCaml (Extract/) and run against the implementation'},
                     {'name': 'harness', 'path': 'harness/', 'serves_properties': sorted(CLAIMED), 'kind_free_text': 'Python: generators, implementation runner (imports /repo/src), independent oracles, evidence'}],
         'checks': checks, 'not_applicable': na,
         'notes': 'Genuine defects repaired in /repo as fix: commits are listed in known_findings.json (fixed) with the replay that used to fail.'}
    json.dump(m, open(os.path.join(V, 'MANIFEST.json'), 'w'), indent=1)
if __name__ == '__main__': main()
