"""Random abstract documents (harness/absdoc.py vocabulary) with every feature the properties quantify over.
All choices come from the random.Random passed in. Every generated document records its features (for region
predicates and for the input-distribution tables in the evidence)."""
import random

WORDS = ['alpha', 'beta', 'gamma', 'delta', 'lorem', 'ipsum', 'Party', 'shall', 'pay', 'the', 'fee', 'within', 'thirty', 'days', 'Buyer',
         'Seller', 'notice', 'term', 'of', 'and', 'or', 'any', 'such', 'clause', 'x', 'Z9', 'café', 'naïve']
AUTHORS = ['Alice', 'Bob Smith', 'Carol']
DATES = ['2024-01-01T10:00:00Z', '2024-02-03T09:30:00Z', '2023-12-31T23:59:59Z', '']
RPR_EXTRA = ['<w:color w:val="FF0000"></w:color>', '<w:sz w:val="28"></w:sz>', '<w:rFonts w:ascii="Arial" w:hAnsi="Arial"></w:rFonts>', '<w:u w:val="single"></w:u>']

class Gen:
    def __init__(self, rng, profile='full'):
        self.r = rng; self.uid = 0; self.pid = 0; self.rev = 0; self.cid = 0; self.wn = 0
        self.comments = []; self.features = set(); self.profile = profile
    def fresh(self): self.uid += 1; return self.uid
    def word(self):
        self.wn += 1
        if self.r.random() < .03:        # the same quoted term in straight and in typographic spelling (both occur once there are two)
            self.qn = getattr(self, 'qn', 0) + 1; self.features.add('quotes')
            return ['"term"', '\u201cterm\u201d', "Buyer's", 'Buyer\u2019s'][(self.qn - 1) % 4]
        return self.r.choice(WORDS) + (str(self.wn) if self.r.random() < .6 else '')
    def text(self, n=None):
        n = n or self.r.randint(1, 4)
        ws = [self.word() for _ in range(n)]
        if self.r.random() < .08:          # a repeated word ("very very good"): removing one copy makes common prefix and suffix overlap
            i = self.r.randrange(len(ws)); ws.insert(i, ws[i]); self.features.add('repeated_word')
        return ' '.join(ws)
    def rpr(self):
        x = self.r.random()
        if x < .5: return None
        out = []
        if x < .55: self.features.add('empty_rpr'); return []
        if self.r.random() < .4: out.append([1, 1]); self.features.add('bold')
        if self.r.random() < .3: out.append([2, 1]); self.features.add('italic')
        if not out and self.r.random() < .15: out.append([self.r.choice([1, 2]), 0]); self.features.add('toggle_off')
        if self.r.random() < .4: out.append([100 + self.r.randrange(len(RPR_EXTRA)), 0])
        return out or None
    def run(self, rpr='rand', text=None, special=False):
        f = self.rpr() if rpr == 'rand' else rpr
        t = self.text() if text is None else text
        kids = []
        x = self.r.random()
        if special:
            kids = [['t', t], ['other', 5]]; self.features.add('drawing')
        elif x < .12 and self.profile != 'plain':
            a, b = t[:len(t) // 2], t[len(t) // 2:]
            kids = [['t', a], ['tab'], ['t', b]]; self.features.add('tab')
        elif x < .22 and self.profile != 'plain':
            a, b = t[:len(t) // 2], t[len(t) // 2:]
            brk = [self.r.choice(['br', 'br', 'cr'])]; y = self.r.random()
            kids = [['t', a], brk, ['t', b]] if y < .6 else [['t', t], brk] if y < .8 else [brk, ['t', t]] if y < .93 else [brk]      # in the middle / at the end / at the start / alone
            self.features.add('break')
        elif x < .26 and self.profile != 'plain':
            kids = []; self.features.add('empty_run')
        else: kids = [['t', t]]
        return ['run', self.fresh(), f, kids]
    def mark(self, author=None):
        self.rev += 1
        return [str(self.rev), author or self.r.choice(AUTHORS), self.r.choice(DATES[:3])]
    def add_comment(self, parent=None):
        self.cid += 1
        c = {'id': str(self.cid), 'author': self.r.choice(AUTHORS), 'date': self.r.choice(DATES), 'text': self.text(2), 'parent': parent}
        self.comments.append(c); return c['id']
    def ref_run(self, cid): return ['run', self.fresh(), [[100 + len(RPR_EXTRA), 0]], [['ref', cid]]]
    def nodes(self):
        if self.profile == 'c12': return self.nodes_c12()
        out = []; sp = lambda: out.append(['run', self.fresh(), None, [['t', ' ']]])
        for _ in range(self.r.randint(1, 5)):
            x = self.r.random()
            if out and self.r.random() < .8: sp()
            if self.profile == 'plain' or x < .45: out.append(self.run())
            elif x < .55:
                out.append(['ins', self.fresh(), self.mark(), [self.run() for _ in range(self.r.randint(1, 2))]]); self.features.add('ins')
            elif x < .65:
                rs = []
                for _ in range(self.r.randint(1, 2)):
                    r = self.run(); r[3] = [['dt', k[1]] if k[0] == 't' else k for k in r[3]]; rs.append(r)
                out.append(['del', self.fresh(), self.mark(), rs]); self.features.add('del')
            elif x < .72:      # substitution: del followed by ins
                r = self.run(); r[3] = [['dt', k[1]] if k[0] == 't' else k for k in r[3]]
                a = self.r.choice(AUTHORS)
                out.append(['del', self.fresh(), self.mark(a), [r]]); out.append(['ins', self.fresh(), self.mark(a), [self.run()]]); self.features.add('subst')
            elif x < .82:      # commented range
                cid = self.add_comment(); self.features.add('comment')
                inner = [self.run() for _ in range(self.r.randint(1, 2))]
                out.append(['crs', cid]); out += inner; out.append(['cre', cid]); out.append(self.ref_run(cid))
                if self.r.random() < .3:     # a reply, anchored like Word does (same range) ...
                    rid = self.add_comment(parent=cid); self.features.add('thread')
                    y = self.r.random()
                    if y < .7:
                        i = out.index(['crs', cid]); out.insert(i + 1, ['crs', rid]); out.append(['cre', rid]); out.append(self.ref_run(rid))
                    elif y < .85:            # ... or over a wider range than its parent's (starts one node earlier)
                        i = out.index(['crs', cid]); out.insert(max(0, i - 1), ['crs', rid]); out.append(['cre', rid]); out.append(self.ref_run(rid)); self.features.add('reply_wider')
                    else:                    # ... or on text of its own, away from the parent's range
                        out.append(['crs', rid]); out.append(self.run()); out.append(['cre', rid]); out.append(self.ref_run(rid)); self.features.add('reply_apart')
            elif x < .86: out.append(['other', self.r.choice([2, 3])]); self.features.add('bookmark')
            elif x < .89: out.append(['other', 1]); self.features.add('prooferr')
            elif x < .92: out.append(['other', 4]); self.features.add('hyperlink')
            elif x < .95: out.append(self.run(special=True))
            else:              # equal-format neighbours (coalescing candidates), possibly with something in between
                f = self.rpr(); out.append(self.run(rpr=f)); self.features.add('adjacent_equal')
                if self.r.random() < .4: out.append(['other', self.r.choice([1, 2])])
                out.append(self.run(rpr=f))
        return out
    def nodes_c12(self):
        out = []
        for i in range(self.r.randint(1, 4)):
            if out: out.append(['run', self.fresh(), None, [['t', ' ']]])
            f = [[1, 1]] if self.r.random() < .25 else None
            out.append(['run', self.fresh(), f, [['t', self.text(self.r.randint(1, 4))]]])
        return out
    def para(self, nodes=None):
        self.pid += 1
        x = self.r.random()
        style = ['N', False]
        if self.profile not in ('plain',):
            if x < .08: style = ['H', self.r.randint(1, 3)]; self.features.add('heading')
            elif x < .1: style = ['T']; self.features.add('heading')
            elif x < .13: style = ['O']
        p = {'t': 'p', 'pid': self.pid, 'ppr': self.r.choice([0, 0, 0, 1, 2, 3]) if self.profile != 'plain' else 0, 'style': style,
             'nodes': self.nodes() if nodes is None else nodes}
        if self.profile != 'plain' and self.r.random() < .04:
            p['nodes'] = [['run', self.fresh(), [[1, 1]], [['t', 'IMPORTANT NOTICE %d' % self.pid]]]]; p['style'] = ['N', False]; self.features.add('caps_heading')
        if self.profile != 'plain' and self.r.random() < .05: p['nodes'] = []; self.features.add('empty_para')
        return p
    def table(self, depth=0):
        self.features.add('table')
        nr, nc = self.r.randint(1, 3), self.r.randint(1, 3); rows = []
        for i in range(nr):
            row = []; c = 0
            while c < nc:
                span = 2 if (c + 1 < nc and self.r.random() < .15) else 1
                if span > 1: self.features.add('gridspan')
                bl = [self.para() for _ in range(self.r.randint(0 if self.r.random() < .15 else 1, 2))]
                if not bl: self.features.add('empty_cell')
                if depth == 0 and self.r.random() < .08: bl.append(self.table(1)); self.features.add('nested_table')
                row.append({'tok': 0, 'span': span, 'vm': None, 'blocks': bl}); c += span
            rows.append(row)
        return {'t': 'tbl', 'tok': 0, 'rows': rows}
    def blocks(self, n):
        out = []
        for _ in range(n):
            if self.profile in ('full', 'c12') and self.r.random() < .04:      # a 1x1 table without text (rendered as nothing: its separator is taken back)
                out.append({'t': 'tbl', 'tok': 0, 'rows': [[{'tok': 0, 'span': 1, 'vm': None, 'blocks': []}]]}); self.features.add('textless_table')
            elif self.profile in ('full', 'c12') and self.r.random() < .15: out.append(self.table())
            else: out.append(self.para())
        return out
    def doc(self, nparas=None):
        stories = []
        if (self.profile == 'full' and self.r.random() < .25) or (self.profile == 'c12' and self.r.random() < .15):
            x = self.r.random()
            if x < .7: stories.append({'kind': 0, 'blocks': self.blocks(self.r.randint(0, 2))}); self.features.add('header')
            # (a defined but empty first-page header after a running header with text: an empty story BETWEEN two non-empty ones)
            if x > .5: stories.append({'kind': 0, 'hf': 'first', 'blocks': self.blocks(self.r.choice([0, 1, 1, 2]))}); self.features.add('first_header')
        stories.append({'kind': 1, 'blocks': self.blocks(nparas or self.r.randint(1, 5))})
        if self.profile == 'full' and self.r.random() < .12:       # a second section: the break sits in the pPr of the paragraph that ends the first one
            cands = [b for b in stories[-1]['blocks'][:-1] if b['t'] == 'p']
            if cands: self.r.choice(cands)['ppr'] = 5; self.features.add('section_break')
        if self.profile == 'full' and self.r.random() < .25:
            x = self.r.random()
            if x < .7: stories.append({'kind': 2, 'blocks': self.blocks(self.r.randint(1, 2))}); self.features.add('footer')
            if x > .5: stories.append({'kind': 2, 'hf': 'first', 'blocks': self.blocks(self.r.randint(1, 2))}); self.features.add('first_footer')
        if len(self.comments) > 1 and self.r.random() < .4: self.comments = self.comments[1:] + self.comments[:1]; self.features.add('comments_unsorted')
        loc = 'de' if self.r.random() < .2 else 'en'          # the language of the Word that wrote the file decides the heading style ids
        if loc != 'en': self.features.add('localised_style_ids')
        return {'stories': stories, 'comments': self.comments, 'next_uid': self.uid + 1000, 'rpr_table': self.table_list(), 'style_ids': loc, 'features': sorted(self.features)}
    def table_list(self): return list(RPR_EXTRA) + ['<w:rStyle w:val="CommentReference"></w:rStyle>']

def gen_doc(rng, profile='full', nparas=None):
    return Gen(rng, profile).doc(nparas)
