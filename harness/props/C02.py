"""C02 - accepting the changes yields exactly the requested text.
(a) context trimming: Trim.trim (extracted) vs engine._trim_common_context on EVERY pair over a small alphabet up to a length
    bound + random longer pairs; the algebraic contract is also evaluated on the implementation's answers;
(b) edit batches with exact, unique, non-overlapping targets: model correspondence + the C02 oracle (harness/editrun.py)."""
import itertools, random
from multiprocessing import Pool
from harness import core
from harness.props import _edits, _judges as J
PID = 'C02'
ALPHA = ['a', 'b', ' ', '\n', '*', '_', '#']

def _init():
    core.use_repo()
def _work(pairs):
    from adeu.redline.engine import _trim_common_context
    out = []
    for t, n in pairs:
        try: out.append(_trim_common_context(t, n))
        except Exception as e: out.append(('ERR', '%s: %s' % (type(e).__name__, e)))
    return out

def trim_sweep(ck, tier, rng):
    L = 3 if tier == 'quick' else 4
    strs = [''.join(t) for n in range(L + 1) for t in itertools.product(ALPHA, repeat=n)]
    pairs = [(t, n) for t in strs for n in strs]
    words = ['alpha', 'beta ', '**bold**', '_it_', '# Head\n', 'x', ' ', 'the ', 'end.', 'é', '\t', 'a_b']
    for _ in range(20000 if tier == 'quick' else 300000):
        a = ''.join(rng.choice(words) for _ in range(rng.randint(0, 6)))
        b = a
        for _ in range(rng.randint(0, 3)):
            k = rng.randint(0, len(b)); b = b[:k] + rng.choice(words + ['']) + b[k + rng.randint(0, 3):]
        pairs.append((a, b))
    chunk = 20000
    with Pool(core.NPROC, initializer=_init) as pool:
        res = []
        for r in pool.imap(_work, [pairs[i:i + chunk] for i in range(0, len(pairs), chunk)]): res += r
    mo = core.run_driver('trim', [core.enc(t) + '|' + core.enc(n) for t, n in pairs])
    nontriv = 0
    for (t, n), r, m in zip(pairs, res, mo):
        ck.count()
        if r[0] == 'ERR': ck.violation('oracle', {'target': t, 'new': n}, '_trim_common_context raised ' + r[1]); continue
        p, s = r
        if p or s: nontriv += 1
        if not (p >= 0 and s >= 0 and p + s <= min(len(t), len(n)) and t[:p] == n[:p] and (s == 0 or t[-s:] == n[-s:])):
            ck.violation('oracle', {'target': t, 'new': n, 'prefix': p, 'suffix': s}, 'trimming breaks its contract: prefix/suffix are not common to both texts or overlap (p=%d s=%d)' % (p, s))
        if m != '%d %d' % (p, s):
            ck.corr_broken.append(('Trim.trim vs _trim_common_context', {'target': t, 'new': n, 'impl': [p, s], 'model': m}))
    ck.cov['trim_pairs'] = len(pairs); ck.cov['trim_exhaustive_len'] = L
    return nontriv

def run(tier, seed):
    ck = core.Check(PID, tier, seed)
    ck.proof_gate(['Props/C02.v'], extra_trusted=_edits.TRUSTED)
    rng = random.Random(seed)
    nt = trim_sweep(ck, tier, rng)
    extra = []
    for fid, case in core.finding_cases(PID):
        if case and 'edits' in case:
            d = dict(case['doc']); d.setdefault('features', ['finding:%s' % fid]); extra.append((d, [tuple(e) for e in case['edits']]))
    distinct = _edits.explore(ck, tier, seed, ('exact', 'exact', 'mixed'), J.judge_C02, n_quick=260, n_thorough=6000, extra_cases=extra)
    return ck.finish(rule='(a) every (target,new) pair over %r up to length %d plus random longer pairs through the trimming step; non-trivial = non-zero prefix or suffix. '
                     '(b) random documents x batches of 1-3 edits whose targets are exact substrings of one paragraph (arbitrary and word-aligned offsets; across runs, tabs, breaks, '
                     'next to tracked changes, in cells/headers) with replacement / deletion / extension / prefix / infix / shared prefix-suffix / Markdown new text; the C02 clause is judged '
                     'when the batch is exact, unique (also whitespace-collapsed) and non-overlapping; non-trivial = at least one edit applied.' % (ALPHA, ck.cov['trim_exhaustive_len']),
                     distinct=len(distinct) + nt, extra={'exhaustive': True})
def replay(path):
    import json
    r = json.load(open(path)); c = r['case']
    if 'target' in c:
        _init(); (res,) = _work([(c['target'], c['new'])]); print(res)
        p, s = res; t, n = c['target'], c['new']
        ok = p + s <= min(len(t), len(n)) and t[:p] == n[:p] and (s == 0 or t[-s:] == n[-s:])
        if not ok: print('VIOLATION property=C02 replay=%s' % path); return 1
        print('property holds on this input'); return 0
    return _edits.replay_case(path, J.judge_C02, PID)
