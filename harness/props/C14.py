"""C14 - the CriticMarkup preview is faithful to the text and to the edits.
Theorems: Props/C14.v.  Correspondence: Markup.render (extracted) vs adeu.markup.apply_edits_to_markdown on an exhaustive
small scope (all texts x all single targets) plus random multi-edit lists, both modes, with/without indexes; the raw fuzzy
regex span is an oracle input of the model (recorded from the implementation's own pattern).  Oracle: an independent
CriticMarkup reader evaluates the statement on the implementation's output."""
import itertools, json, os, random, re, sys
from multiprocessing import Pool
from harness import core

ALPHA = ['a', 'b', ' ', '\n', '*', '_', '-', '"', '[']
NEWS = ['', 'X', 'a*', '**b**', '_a_', 'b b']

# ---------------------------------------------------------------- independent CriticMarkup reader
BLOCK = re.compile(r'\{--(.*?)--\}|\{\+\+(.*?)\+\+\}|\{==(.*?)==\}|\{>>(.*?)<<\}', re.S)
def has_braces(*ss): return any(('{' in s or '}' in s) for s in ss)
def read_view(preview, mode):
    """mode 'reject': deletions/highlights keep their text, insertions and comments vanish; 'accept': the reverse for del/ins.
    returns (text, blocks, wellformed)"""
    out = []; pos = 0; blocks = []
    for m in BLOCK.finditer(preview):
        out.append(preview[pos:m.start()]); pos = m.end()
        d, i, h, c = m.groups()
        kind = 'del' if d is not None else 'ins' if i is not None else 'hl' if h is not None else 'cm'
        body = d if d is not None else i if i is not None else h if h is not None else c
        blocks.append((kind, body))
        if kind == 'del': out.append(body if mode == 'reject' else '')
        elif kind == 'ins': out.append('' if mode == 'reject' else body)
        elif kind == 'hl': out.append(body)
    out.append(preview[pos:])
    text = ''.join(out)
    # well-formedness: no delimiter left outside/inside blocks (balanced, not nested, not cut through)
    wf = not re.search(r'\{--|--\}|\{\+\+|\+\+\}|\{==|==\}|\{>>|<<\}', text) and all(
        not re.search(r'\{--|--\}|\{\+\+|\+\+\}|\{==|==\}|\{>>|<<\}', b) for _, b in blocks)
    return text, blocks, wf

def exact_unique_disjoint(text, edits):
    """targets are exact, occur once, pairwise non-overlapping, and no marker ambiguity at their borders"""
    spans = []
    for tg, nw, cm in edits:
        if not tg or text.count(tg) != 1: return None
        i = text.find(tg)
        if any(text.find(tg, j) != -1 for j in range(i + 1, len(text))): return None
        spans.append((i, i + len(tg)))
    ss = sorted(spans)
    if any(ss[k][1] > ss[k + 1][0] for k in range(len(ss) - 1)): return None
    return spans

def oracle(text, edits, wi, hl, out):
    """the C14 statement on the implementation's output. returns failure text or None"""
    if has_braces(text, *[x or '' for e in edits for x in e]): return None      # CriticMarkup reading is ambiguous
    rej, blocks, wf = read_view(out, 'reject')
    if not wf: return 'suggestion blocks are unbalanced, nested or cut through one another: %r' % out
    if rej != text: return 'reading the preview with every suggestion rejected gives %r, not the input' % rej
    if hl and any(k in ('del', 'ins') for k, _ in blocks): return 'highlight-only mode produced a deletion/insertion block'
    for k, b in blocks:
        if k == 'cm':
            for m in re.finditer(r'\[Edit:(\d+)\]', b):
                if not wi: return 'an edit index is displayed although indexes were not requested'
                if int(m.group(1)) >= len(edits): return 'displayed edit index %s is not a position of the submitted list' % m.group(1)
    # the index displayed with a suggestion is the position of THAT edit in the submitted list
    for j, (k, b) in enumerate(blocks):
        if k != 'cm': continue
        for m in re.finditer(r'\[Edit:(\d+)\]', b):
            n_ = int(m.group(1)); tg = edits[n_][0] if n_ < len(edits) else None
            if n_ < len(edits) and not edits[n_][0]: return 'index %d is displayed, but edit %d of the submitted list has an empty target (it matches nothing and leaves no trace)' % (n_, n_)
            prev = next((bb for kk, bb in reversed(blocks[:j]) if kk in ('del', 'hl')), None)
            if tg and prev is not None and text.count(tg) == 1 and not any(c in tg for c in '*_') and not any(c in prev for c in '*_') and prev != tg and sum(1 for e in edits if e[0] == prev) == 1:
                return 'the suggestion on %r displays [Edit:%d], but edit %d of the submitted list targets %r' % (prev, n_, n_, tg)
    nsugg = sum(1 for k, _ in blocks if k in ('del', 'hl')) + sum(1 for j, (k, _) in enumerate(blocks) if k == 'ins' and (j == 0 or blocks[j - 1][0] != 'del'))
    if all((not tg) or (text.find(tg) == -1 and not fz) for (tg, nw, cm), fz in zip(edits, [None] * len(edits))):
        pass
    spans = exact_unique_disjoint(text, edits)
    if spans is not None and not hl and not any(c in t for t, _, _ in edits for c in '*_') and not any(c in text for c in '*_'):
        # marker-free region: one suggestion per effective edit, accept view = splice
        eff = [(s, e, nw) for (s, e), (tg, nw, cm) in zip(spans, edits)]
        exp = text
        for s, e, nw in sorted(eff, reverse=True): exp = exp[:s] + nw + exp[e:]
        acc, _, _ = read_view(out, 'accept')
        if acc != exp: return 'reading the preview with every suggestion accepted gives %r, expected %r' % (acc, exp)
        n_exp = sum(1 for (s, e, nw), (tg, _, _) in zip(eff, edits) if tg != nw or True)
        n_blocks = sum(1 for k, _ in blocks if k == 'del') + sum(1 for j, (k, _) in enumerate(blocks) if k == 'ins' and (j == 0 or blocks[j - 1][0] != 'del'))
        n_nonnoop = sum(1 for tg, nw, _ in edits if tg)
        if n_blocks != n_nonnoop: return 'expected one suggestion per edit (%d), found %d' % (n_nonnoop, n_blocks)
    return None

# ---------------------------------------------------------------- worker
_M = {}
def _init():
    core.use_repo()
    import adeu.markup as M
    from adeu.models import DocumentEdit
    _M['M'] = M; _M['E'] = DocumentEdit

def fuzzy(text, target):
    M = _M['M']
    if not target: return '-'
    try:
        m = re.search(M._make_fuzzy_regex(target), text)
        assert m is None or 0 <= m.start() <= m.end() <= len(text)      # the hypothesis fuzzy_ok of C14_weave: a regex match is a span of the text
        return '%d/%d' % (m.start(), m.end()) if m else '-'
    except re.error: return '-'

def work(cases):
    M = _M['M']; E = _M['E']; res = []
    for text, edits, wi, hl in cases:
        try:
            out = M.apply_edits_to_markdown(text, [E(target_text=g, new_text=n, comment=c) for g, n, c in edits], include_index=wi, highlight_only=hl)
            err = None
        except Exception as ex:
            out = ''; err = 'raised %s: %s' % (type(ex).__name__, ex)
        line = ('1' if wi else '0') + ('1' if hl else '0') + ';' + core.enc(text) + ';' + ';'.join(
            '%s:%s:%s:%s' % (core.enc(g), core.enc(n), '-' if c is None else core.enc(c), fuzzy(text, g)) for g, n, c in edits)
        res.append((out, err, line, oracle(text, edits, wi, hl, out) if not err else None))
    return res

def chunks(l, n):
    for i in range(0, len(l), n): yield l[i:i + n]

def gen(tier, rng):
    lt, lg, nrand = (3, 2, 20000) if tier == 'quick' else (4, 3, 400000)
    texts = [''.join(t) for n in range(lt + 1) for t in itertools.product(ALPHA, repeat=n)]
    targets = [''.join(t) for n in range(lg + 1) for t in itertools.product(ALPHA, repeat=n)]
    cases = []
    for t in texts:
        for g in targets:
            cases.append((t, [(g, rng.choice(NEWS), rng.choice([None, 'c', '']))], rng.random() < .3, rng.random() < .2))
    nex = len(cases)
    words = ['alpha', 'beta', 'The', 'fox', '**bold**', '_it_', '[___]', '“q”', '"q"', "it's", 'it’s', '- item', '1. one', 'a_b', 'x', '***x***', '**a *b***', '___a b___', '**_y_**']
    for _ in range(nrand):
        if rng.random() < .5:
            t = rng.choice(texts) + rng.choice(texts)
            es = [(rng.choice(targets), rng.choice(NEWS), rng.choice([None, 'c'])) for _ in range(rng.randint(2, 3))]
        else:
            ws = [rng.choice(words) for _ in range(rng.randint(2, 8))]
            t = ''.join(w + rng.choice([' ', ' ', '\n', '\n\n', '  ']) for w in ws)
            es = []
            for _ in range(rng.randint(1, 3)):
                a = rng.randint(0, len(ws) - 1); b = min(len(ws), a + rng.randint(1, 2))
                tg = ' '.join(ws[a:b]) if rng.random() < .7 else rng.choice(ws).strip('*_')
                es.append((tg, rng.choice(NEWS + ['new text', '**' + tg + '**']), rng.choice([None, 'why'])))
        cases.append((t, es, rng.random() < .5, rng.random() < .2))
    return cases, nex, (lt, lg)

def run(tier, seed):
    ck = core.Check('C14', tier, seed)
    ck.proof_gate(['Props/C14.v'], extra_trusted=[
        'Python re: the fuzzy stage of the text-side matcher is NOT modelled; its raw span is an input of the model (recorded per case from the implementation\'s own pattern); exact and smart-quote stages, boundary refinement/repair, overlap filter, descending application and block construction are modelled',
        'str.isalpha / \\w tables: ASCII instantiation, compared with Python on the generator alphabet',
        'hand-written: independent CriticMarkup reader and generators in harness/props/C14.py'])
    rng = random.Random(seed)
    cases, nex, (lt, lg) = gen(tier, rng)
    cp = os.path.join(core.VERIF, 'corpus', 'C14.json')
    corpus = [(c[0], [tuple(e) for e in c[1]], c[2], c[3]) for c in json.load(open(cp))] if os.path.exists(cp) else []
    cases = corpus + cases
    with Pool(core.NPROC, initializer=_init) as pool:
        results = []
        for r in pool.imap(work, list(chunks(cases, 500))): results += r
    mout = core.run_driver('markup', [r[2] for r in results])
    distinct = set(); matched = 0
    for (text, edits, wi, hl), (out, err, line, orc), mo in zip(cases, results, mout):
        ck.count()
        case = {'text': text, 'edits': edits, 'include_index': wi, 'highlight_only': hl}
        if err: ck.violation('oracle', case, 'apply_edits_to_markdown ' + err); continue
        if out != text:
            matched += 1; distinct.add(line)
        if orc: ck.violation('oracle', dict(case, preview=out), orc)
        if core.enc(out) != mo:
            ck.corr_broken.append(('Markup.render vs apply_edits_to_markdown', dict(case, impl=out, model=core.dec(mo) if not mo.startswith(('E', 'X')) else mo)))
    for c, r in list(zip(cases, results))[nex // 2: nex // 2 + 2] + list(zip(cases, results))[-2:]:
        ck.sample({'text': c[0], 'edits': c[1], 'include_index': c[2], 'highlight_only': c[3], 'preview': r[0]})
    # vm_compute cross-check of the extraction on a sample
    try:
        smp = [(c, r) for c, r in zip(cases, results) if not r[1]][-120:]
        def med(g, n, c, fz):
            f = 'None' if fz == '-' else 'Some (%s, %s)' % tuple(fz.split('/'))
            return '{| me_target := %s; me_new := %s; me_comment := %s; me_fuzzy := %s |}' % (core.coq_str(g), core.coq_str(n), 'None' if c is None else 'Some ' + core.coq_str(c), f)
        exprs = []
        for (text, edits, wi, hl), (out, err, line, orc) in smp:
            fzs = [x.split(':')[3] for x in line.split(';')[2:]]
            exprs.append('render_ascii %s [%s] %s %s' % (core.coq_str(text), ';'.join(med(g, n, c, fz) for (g, n, c), fz in zip(edits, fzs)), 'true' if wi else 'false', 'true' if hl else 'false'))
        vm = core.vm_compute_lines('From Coq Require Import List NArith. Import ListNotations. From Adeu Require Import Str Markup MarkupX.', exprs, tag='c14')
        for ((text, edits, wi, hl), (out, err, line, orc)), v in zip(smp, vm):
            if core.coq_N_list_to_py(v) != out:
                ck.corr_broken.append(('vm_compute vs implementation (extraction cross-check)', {'text': text, 'edits': edits, 'vm': v[:300], 'impl': out}))
        ck.cov['vm_compute_cross_checked'] = len(vm)
    except RuntimeError as ex:
        ck.corr_broken.append(('vm_compute cross-check did not run', {'log': str(ex)[-1500:]}))
    ck.cov['traces_validated_against_impl'] = ck.cov['evaluations']
    return ck.finish(
        rule='exhaustive: all texts over %r up to length %d x all single targets up to length %d (new text, comment, flags drawn); random: 2-3-edit lists over short texts and word texts; '
             'non-trivial = the preview differs from the input (at least one edit matched); distinct = distinct model input lines among those' % (ALPHA, lt, lg),
        distinct=len(distinct), extra={'input_distribution': {'corpus': len(corpus), 'exhaustive_single_edit': nex, 'random_multi_edit': len(cases) - nex - len(corpus), 'cases_with_a_match': matched}, 'exhaustive': True})

def replay(path):
    r = json.load(open(path)); c = r['case']
    _init()
    edits = [tuple(e) for e in c['edits']]
    (out, err, line, orc), = work([(c['text'], edits, c['include_index'], c['highlight_only'])])
    print(repr(out))
    if err or orc:
        print('VIOLATION property=C14 replay=%s' % path); print(err or orc); return 1
    print('property holds on this input'); return 0
