"""C03 - reader offsets and writer offsets denote the same characters.
Theorems: Props/C03.v.  Correspondence: Project spans (extracted) vs ingest text AND DocumentMapper spans (text, real flag,
run partition, offsets) in both views; Engine.apply_edits on offset-addressed edits vs RedlineEngine.
Oracle (implementation only): extract_text_from_stream == DocumentMapper.full_text in both views; an edit addressed by a
character range of the extracted text changes exactly those characters (deleted / replaced) and no others."""
import io, json, random
from multiprocessing import Pool
from harness import core, absdoc as A, docgen, docrun, editrun as E
from harness.props import _judges as J

REAL = {}      # (doc, offset, range text) -> the real characters of a range that crosses virtual markers
def spans_work(b):
    """implementation side: reader text + writer map, both views"""
    from docx import Document
    from adeu.utils.docx import normalize_docx
    from adeu.redline.mapper import DocumentMapper
    out = {}
    try:
        for clean in (False, True):
            t = docrun.extract(b, clean)
            doc = Document(io.BytesIO(b)); normalize_docx(doc)
            m = DocumentMapper(doc, clean_view=clean)
            runs = {}; sp = []
            for s in m.spans:
                rid = None
                if s.run is not None: rid = runs.setdefault(id(s.run._element), len(runs))
                sp.append((s.start, s.end, s.text, rid))
            out[clean] = (t, m.full_text, sp)
        return out, None
    except Exception as e:
        return None, '%s: %s' % (type(e).__name__, e)

def pick_ranges(rng, mspans, k):
    """ranges [a,b) made only of real characters of one paragraph (consecutive real spans of one pid)"""
    out = []; off = 0; groups = []; cur = None
    for txt, real, uid, pid in mspans:
        if real and pid != -1:
            if cur and cur[2] == pid and cur[1] == off: cur[1] = off + len(txt); cur[3] += txt
            else:
                cur = [off, off + len(txt), pid, txt]; groups.append(cur)
        else: cur = None
        off += len(txt)
    groups = [g for g in groups if g[1] - g[0] >= 1 and '\n' not in g[3]]
    for _ in range(k):
        if not groups: break
        g = rng.choice(groups); a = rng.randrange(g[0], g[1]); b = rng.randint(a + 1, min(g[1], a + 12))
        out.append((a, b, g[3][a - g[0]:b - g[0]]))
    return out

def pick_marked_ranges(rng, mspans, k):
    """ranges of ONE paragraph that start and end on real characters but may cross virtual markers (bold / italic markers
    around the lines of a formatted run with line breaks) and real line breaks: (a, b, text of the range, its real characters)"""
    out = []; off = 0; paras = {}
    for txt, real, uid, pid in mspans:
        if pid != -1: paras.setdefault(pid, []).append((off, txt, real))
        off += len(txt)
    cands = [v for v in paras.values() if sum(1 for o, t, r in v if r) >= 2 and any(not r and t for o, t, r in v)]
    for _ in range(k):
        if not cands: break
        v = rng.choice(cands)
        if any(v[i][0] + len(v[i][1]) != v[i + 1][0] for i in range(len(v) - 1)): continue      # not contiguous
        chars = [(o + j, ch, r) for o, t, r in v for j, ch in enumerate(t)]
        reals = [i for i, (o, ch, r) in enumerate(chars) if r]
        if len(reals) < 2: continue
        # the range ends on a real character; it starts on a real character or on a virtual marker in front of one
        i = rng.choice(reals[:-1]) if rng.random() < .6 else rng.randrange(0, reals[-1]); j = rng.choice([x for x in reals if x > i][:14])
        seg = chars[i:j + 1]
        if not any(not r for o, ch, r in seg): continue                                           # must cross a marker
        if any(ch in '{}<>' for o, ch, r in seg if not r): continue                               # CriticMarkup wrappers / metadata: not here
        out.append((seg[0][0], seg[-1][0] + 1, ''.join(ch for o, ch, r in seg), ''.join(ch for o, ch, r in seg if r)))
    return out

def run(tier, seed):
    ck = core.Check('C03', tier, seed)
    ck.proof_gate(['Props/C03.v'], extra_trusted=[
        'harness/absdoc.py reader (lxml+zipfile), python-docx; character tables of the heading heuristic',
        'offset-addressed edits are exercised in raw-view coordinates (the only coordinates the indexed path of the engine accepts); accepted-view ranges are exercised through heuristic targets in C02/C07',
        'vMerge cell repetition, PAGE-field hiding and hyperlink text are outside the projection model'])
    rng = random.Random(seed)
    n = 250 if tier == 'quick' else 5000
    from harness.props import C04
    docs = C04.targeted(rng) + [docgen.gen_doc(rng, ('full', 'plain', 'full')[k % 3]) for k in range(n)]
    blobs = [A.build(d) for d in docs]
    with Pool(core.NPROC, initializer=docrun.impl_init) as pool:
        imp = pool.map(spans_work, blobs, chunksize=8)
    dins = [A.read(b, table=list(d['rpr_table'])) for b, d in zip(blobs, docs)]
    lines = []
    for din in dins:
        sx = A.sx_doc(din); lines += ['(0 %s)' % sx, '(1 %s)' % sx]
    mo = core.run_driver('nspans', lines)
    cases = []; nspan_ok = 0
    for k, (d, b, din, (res, err)) in enumerate(zip(docs, blobs, dins, imp)):
        ck.count()
        case = {'doc': A.doc_core(d)}
        if err: ck.violation('oracle', case, 'projection raised ' + err); continue
        for view, clean in ((0, False), (1, True)):
            t, ft, sp = res[clean]
            if t != ft: ck.violation('oracle', dict(case, view='accepted' if clean else 'raw', diff=docrun.first_diff(t, ft)), 'the text the reader returns differs from the text the writer indexes'); continue
            ms = [x.split(':') for x in mo[2 * k + view].split(';') if x]
            ms = [(core.dec(x[0]), x[1] == '1', int(x[2]), int(x[3])) for x in ms]
            # compare span by span: text, real flag, run partition
            mp = {}; mi = []
            off = 0
            for txt, real, uid, pid in ms:
                mi.append((off, off + len(txt), txt, mp.setdefault(uid, len(mp)) if real else None)); off += len(txt)
            if mi != [tuple(x) for x in sp]:
                ck.corr_broken.append(('Project.doc_spans vs DocumentMapper.spans (%s view)' % ('accepted' if clean else 'raw'), dict(case, diff=docrun.first_diff([tuple(x) for x in sp], mi))))
            else: nspan_ok += 1
            if not clean:
                for a, b2, txt in pick_ranges(rng, ms, 2 if tier == 'quick' else 6):
                    cases.append((d, [(txt, rng.choice(['', 'XY', txt.upper() + '!']), None, a)]))
                for a, b2, txt, realtxt in pick_marked_ranges(rng, ms, 2 if tier == 'quick' else 6):
                    cases.append((d, [(txt, rng.choice(['', 'XY']), None, a)])); REAL[(id(d), a, txt)] = realtxt
    # offset-addressed edits: implementation + model + oracles
    res = E.run_cases(cases)
    distinct = set(); inside = 0
    for c in res:
        ck.count()
        st = E.correspondence(ck, c)
        inside += st == 'inside'
        t, new, _, a = c['edits'][0]
        case = E.case_of(c)
        r = c['r']
        if r['err']:
            f, kn = J.classify(c, 'offset-addressed edit raised ' + r['err'], placement=True)
        else:
            dout = c.get('dout') or docrun.canon_session(A.read(r['out'], table=c['din']['rpr_table']), c['din']); c['dout'] = dout
            fail = None
            if r['ap'] != 1: fail = 'an edit addressed by a character range of the extracted text was not applied (applied=%d skipped=%d)' % (r['ap'], r['sk'])
            else:
                # exactly the addressed characters are deleted by the session, and nothing else changed
                deleted = ''.join(a_[1] for p in A.paras(dout) for a_ in A.atoms(p['nodes']) if a_[0] == 'ch' and a_[3] and a_[3][0][0] == 'd' and a_[3][0][1][1] == E.AUTHOR and a_[3][0][1][2] == 'SESSION').replace('\t', ' ')
                inserted = ''.join(a_[1] for p in A.paras(dout) for a_ in A.atoms(p['nodes']) if a_[0] == 'ch' and a_[3] and a_[3][0][0] == 'i' and a_[3][0][1][1] == E.AUTHOR and a_[3][0][1][2] == 'SESSION')
                # (context trimming may shorten both sides by a common prefix/suffix)
                def trimmed(x, y):
                    p = 0
                    while p < min(len(x), len(y)) and x[p] == y[p]: p += 1
                    s = 0
                    while s < min(len(x), len(y)) - p and x[-1 - s] == y[-1 - s]: s += 1
                    return x[p:len(x) - s], y[p:len(y) - s]
                t_real = REAL.get((id(c['d']), a, t), t)
                if (deleted, inserted) != (t_real, E.literal(new)) and trimmed(deleted, inserted) != trimmed(t_real, E.literal(new)):
                    fail = 'range [%d,%d) = %r (real characters %r) was addressed, but the session deleted %r and inserted %r' % (a, a + len(t), t, t_real, deleted, inserted)
                elif E.oracle_C01(c): fail = 'characters outside the addressed range changed: ' + E.oracle_C01(c)[:300]
            f, kn = J.classify(c, fail, placement=True)
        if f and kn: ck.known(kn[0], kn[1], case)
        elif f: ck.violation('oracle', case, f)
        if not r['err'] and r['ap']: distinct.add(json.dumps(case, sort_keys=True)[:2000])
    for c in res[:3]: ck.sample({'range_edit': c['edits'], 'applied': c['r'].get('ap')})
    ck.cov['traces_validated_against_impl'] = nspan_ok + inside
    ck.cov['input_distribution'] = {'documents': len(docs), 'span_maps_compared': nspan_ok, 'range_edits': len(cases), 'range_edits_inside_model': inside}
    return ck.finish(
        rule='random documents with every feature: reader text vs writer map in both views (span by span), then offset-addressed edits (deletion, replacement) on random character ranges '
             'made of real characters of one paragraph of the raw extraction; non-trivial = the range edit was applied; distinct by (document, range, new text)',
        distinct=len(distinct))

def replay(path):
    r = json.load(open(path)); c0 = r['case']; d = c0['doc']; d.setdefault('features', [])
    docrun.impl_init(); b = A.build(d)
    res, err = spans_work(b)
    if err: print('VIOLATION property=C03 replay=%s' % path); print(err); return 1
    for clean in (False, True):
        if res[clean][0] != res[clean][1]: print('VIOLATION property=C03 replay=%s' % path); print('reader text != writer text'); return 1
    if 'edits' in c0:
        (c,) = E.run_cases([(d, [tuple(e) for e in c0['edits']])]); print(c['r'].get('ap'), c['r'].get('sk'), c['r'].get('err'))
        f = E.oracle_C01(c)
        if f and not c.get('outside'): print('VIOLATION property=C03 replay=%s' % path); print(f[:400]); return 1
    print('property holds on this input'); return 0
