"""C10 - comments requested with an edit or a reply are never lost or misattached.
(a) edit batches whose edits carry comments: model correspondence + comment oracle (harness/editrun.py);
(b) reply sessions: REPLY sequences (to roots, to replies, to comments created earlier in the same session, to missing ids)
    on documents with comment threads: Engine.review_session (extracted) vs RedlineEngine.apply_review_actions + reply oracle."""
import json, random, re
from multiprocessing import Pool
from harness import core, absdoc as A, docgen, docrun, editrun as E
from harness.props import _edits, _judges as J, C06
PID = 'C10'

def rwork(job):
    b, acts = job
    try: return docrun.engine_review(b, acts, E.AUTHOR), None
    except Exception as e: return None, '%s: %s' % (type(e).__name__, e)

def root_of(comments, cid):
    by = {c['id']: c for c in comments}; seen = set()
    while cid in by and by[cid].get('parent') and cid not in seen:
        seen.add(cid); cid = by[cid]['parent']
    return cid

def reply_oracle(din, dout, acts, ap, sk, raw_out, out_bytes):
    old = {c['id']: c for c in din['comments']}
    for c in din['comments']:
        y = next((k for k in dout['comments'] if k['id'] == c['id']), None)
        if y is None or (y['author'], y['text'].strip(), y.get('parent')) != (c['author'], c['text'].strip(), c.get('parent')):
            return 'existing comment %s changed or vanished' % c['id']
    new = [c for c in dout['comments'] if c['id'] not in old]
    known = set(old); exp_new = []; exp_ap = exp_sk = 0
    nxt = max([int(i) for i in old if i.isdigit()] + [0]) + 1
    marks = set(docrun.mark_ids(din))
    for k, t, x in acts:
        tid = t[4:] if t.startswith('Com:') else (None if t.startswith('Chg:') else t)
        if k == 'REPLY' and tid is not None and tid in known:
            exp_new.append((str(nxt), tid, x or '')); known.add(str(nxt)); nxt += 1; exp_ap += 1
        elif k in ('ACCEPT', 'REJECT') and not t.startswith('Com:') and (t[4:] if t.startswith('Chg:') else t) in marks:
            exp_ap += 1; marks.discard(t[4:] if t.startswith('Chg:') else t)
        else: exp_sk += 1
    if (ap, sk) != (exp_ap, exp_sk): return 'applied/skipped = %d/%d, expected %d/%d (a reply to a comment that does not exist must be skipped, one to an existing comment applied)' % (ap, sk, exp_ap, exp_sk)
    if len(new) != len(exp_new): return '%d replies applied but %d new comments exist' % (len(exp_new), len(new))
    allc = dout['comments']
    for (nid, tid, text) in exp_new:
        c = next((k for k in new if k['id'] == nid), None)
        if c is None: return 'no new comment with the next free id %s' % nid
        if c['author'] != E.AUTHOR or c['text'].strip() != text.strip(): return 'reply %s has author %r / text %r' % (nid, c['author'], c['text'])
        if root_of(allc, nid) != root_of(allc, tid): return 'reply %s is not threaded under the thread of comment %s (thread root %s, expected %s)' % (nid, tid, root_of(allc, nid), root_of(allc, tid))
        # shown with the thread: some metadata block lists both
        blocks = [bk for bk in re.findall(r'\{>>(.*?)<<\}', raw_out, re.S) if '[Com:%s]' % nid in bk]
        root = root_of(allc, tid)
        root_shown = '[Com:%s]' % root in raw_out        # a thread whose range covers no text is not displayed at all (D11-like); then there is nothing to be shown with
        if root_shown and not blocks and not any(k in ('ACCEPT', 'REJECT') for k, _, _ in acts): return 'reply %s is not shown in the raw view although its thread (comment %s) is' % (nid, root)
        # (a thread may be displayed at several places when earlier replies have ranges of their own: with the comment it answers, or with the root)
        if blocks and not any('[Com:%s]' % root in bk or '[Com:%s]' % tid in bk for bk in blocks): return 'reply %s is shown apart from the comment it answers and from its thread' % nid
    iss = docrun.struct_issues(out_bytes)
    if iss: return iss[0]
    return None
def _flat(nodes):
    for n in nodes:
        yield n
        if n[0] in ('ins', 'del'): yield from _flat(n[3])

def reply_exploration(ck, tier, rng):
    docrun.impl_init()
    n = 150 if tier == 'quick' else 3000
    jobs = []; docs = []
    for _ in range(n):
        d = docgen.gen_doc(rng, 'full')
        if not d['comments']: continue
        ids = [c['id'] for c in d['comments']]; mx = max(int(i) for i in ids)
        acts = []; created = 0
        for _ in range(rng.randint(1, 5)):
            x = rng.random()
            if x < .45: t = 'Com:' + rng.choice(ids)
            elif x < .75 and created: t = 'Com:' + str(mx + rng.randint(1, created))          # a comment created earlier in this session
            elif x < .85: t = 'Com:999'
            elif x < .92: t = rng.choice(ids)                                                  # bare id
            else: t = 'Chg:' + rng.choice(ids)
            acts.append(('REPLY', t, 'reply %d to %s' % (len(acts), t)))
            tid = t[4:] if t.startswith('Com:') else (None if t.startswith('Chg:') else t)
            if tid is not None and (tid in ids or (tid.isdigit() and mx < int(tid) <= mx + created)): created += 1
        if rng.random() < .3: acts.insert(rng.randrange(len(acts) + 1), ('ACCEPT', 'Chg:1', None))
        docs.append(d); jobs.append((A.build(d), acts))
    with Pool(core.NPROC, initializer=docrun.impl_init) as pool:
        res = pool.map(rwork, jobs, chunksize=8)
    dins = [A.read(b, table=list(d['rpr_table'])) for (b, _), d in zip(jobs, docs)]
    mo = core.run_driver('review', [C06.review_line(din, E.AUTHOR, acts) for din, (b, acts) in zip(dins, jobs)])
    ok = 0; distinct = set()
    for d, din, (b, acts), (r, err), m in zip(docs, dins, jobs, res, mo):
        ck.count()
        case = {'doc': A.doc_core(d), 'actions': acts}
        if err: ck.violation('oracle', case, 'review session raised ' + err); continue
        ap, sk, ob = r
        dout = docrun.canon_session(A.read(ob, table=din['rpr_table']), din)
        f = reply_oracle(din, dout, acts, ap, sk, docrun.extract(ob, False), ob)
        if f: ck.violation('oracle', dict(case, applied=ap, skipped=sk), f)
        cnt, md = m.split('|', 1); mdoc = A.un_doc(A.sx_parse(md))
        if cnt != '%d %d' % (ap, sk): ck.corr_broken.append(('Engine.review_session counts vs apply_review_actions', dict(case, model=cnt, impl=[ap, sk])))
        elif docrun.doc_shape(mdoc) != docrun.doc_shape(dout): ck.corr_broken.append(('Engine.review_session vs apply_review_actions (anchors / run structure)', dict(case, diff=docrun.first_diff(docrun.doc_shape(mdoc), docrun.doc_shape(dout)))))
        elif docrun.comments_key(mdoc) != docrun.comments_key(dout): ck.corr_broken.append(('Engine.review_session vs apply_review_actions (comment records, threading)', dict(case, model=docrun.comments_key(mdoc), impl=docrun.comments_key(dout))))
        else: ok += 1
        if ap: distinct.add(json.dumps(case, sort_keys=True)[:2000])
    ck.cov['reply_sessions'] = len(jobs); ck.cov['reply_sessions_model_agrees'] = ok
    if jobs: ck.sample({'reply_session': jobs[0][1]})
    return distinct

def run(tier, seed):
    ck = core.Check(PID, tier, seed)
    ck.proof_gate(['Props/C10.v'], extra_trusted=_edits.TRUSTED + ['random paraIds / durableIds of the auxiliary comment parts are not modelled (threading is observed through commentsExtended by the reader)'])
    rng = random.Random(seed)
    d1 = reply_exploration(ck, tier, rng)
    extra = []
    for fid, case in core.finding_cases(PID):
        if case and 'edits' in case:
            d = dict(case['doc']); d.setdefault('features', ['finding:%s' % fid]); extra.append((d, [tuple(e) for e in case['edits']]))
    d2 = _edits.explore(ck, tier, seed, ('exact', 'mixed', 'blocks'), J.judge_C10, n_quick=240, n_thorough=5000, extra_cases=extra)
    ck.cov['traces_validated_against_impl'] = ck.cov.get('traces_validated_against_impl', 0) + ck.cov['reply_sessions_model_agrees']
    return ck.finish(rule='(a) documents with comment threads x sequences of 1-5 REPLY actions (to roots, to replies, to comments created earlier in the same session, to missing / bare / Chg: ids), '
                          '(b) edit batches where edits carry comments (replacement, insertion, deletion, multi-line and heading new text). non-trivial = at least one action / edit applied; distinct by (document, sequence).',
                     distinct=len(d1) + len(d2))
def replay(path):
    r = json.load(open(path)); c = r['case']
    if 'actions' in c:
        d = c['doc']; d.setdefault('features', []); docrun.impl_init(); b = A.build(d)
        res, err = rwork((b, [tuple(a) for a in c['actions']]))
        if err: print('VIOLATION property=C10 replay=%s' % path); return 1
        ap, sk, ob = res; din = A.read(b, table=list(d['rpr_table'])); dout = docrun.canon_session(A.read(ob, table=din['rpr_table']), din)
        f = reply_oracle(din, dout, [tuple(a) for a in c['actions']], ap, sk, docrun.extract(ob, False), ob); print(ap, sk, f)
        if f: print('VIOLATION property=C10 replay=%s' % path); return 1
        print('property holds on this input'); return 0
    return _edits.replay_case(path, J.judge_C10, PID)
