"""C10 - edit-batch property: generators in harness/editrun.py, oracle + region classification in harness/props/_judges.py,
model correspondence in harness/editrun.py (Engine.apply_edits extracted from Coq), theorems in coq/Props/C10.v"""
from harness.props import _edits, _judges as J
PID = 'C10'
def run(tier, seed):
    return _edits.run_property(PID, tier, seed, ['Props/C10.v'], ('exact','mixed'), J.judge_C10, 'batches where most edits carry a comment (replacement, insertion, deletion)')
def replay(path):
    return _edits.replay_case(path, J.judge_C10, PID)
