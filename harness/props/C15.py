"""C15 - preview and commit agree on what will change.
Differential between the two IMPLEMENTATION paths on the same document and edits (exact, unique, non-overlapping targets):
apply_edits_to_markdown(extract(accepted)) vs RedlineEngine.apply_edits -> accept all -> extract(accepted); each path is also
compared with its Gallina model (Markup.render / Engine.apply_edits)."""
import io, json, random, re
from multiprocessing import Pool
from harness import core, absdoc as A, docgen, docrun, editrun as E
from harness.props import _judges as J, C14

def strip_markers(s): return re.sub(r'\*\*|_', '', s)
def work(job):
    b, edits = job
    from adeu.markup import apply_edits_to_markdown
    from adeu.models import DocumentEdit
    from adeu.redline.engine import RedlineEngine
    try:
        clean = docrun.extract(b, True)
        prev = apply_edits_to_markdown(clean, [DocumentEdit(target_text=t, new_text=n, comment=c) for t, n, c, _ in edits], include_index=True)
        r = docrun.engine_edits(b, edits, E.AUTHOR)
        if r['err']: return {'err': r['err']}
        e2 = RedlineEngine(io.BytesIO(r['out'])); e2.accept_all_revisions()
        final = docrun.extract(e2.save_to_stream().getvalue(), True)
        return {'err': None, 'clean': clean, 'preview': prev, 'r': r, 'final': final}
    except Exception as ex:
        return {'err': '%s: %s' % (type(ex).__name__, ex)}

def judge_case(d, edits, r, c):
    """-> (failure text or None, known finding (id, what) or None) for one previewed + committed batch"""
    if r['err']: return J.classify(c, 'preview/commit raised ' + r['err'], block_region=True, placement=True)
    fail = None
    marked = sorted(int(x) for x in re.findall(r'\[Edit:(\d+)\]', r['preview']))
    applied_n = r['r']['ap']
    # the commit does not say which edits it applied: compare counts and, edit by edit, the effect on the accepted text
    if len(marked) != applied_n: fail = 'the preview marks %d edits %s, the commit applied %d (skipped %d)' % (len(marked), marked, applied_n, r['r']['sk'])
    else:
        acc_prev, _, wf = C14.read_view(r['preview'], 'accept')
        if strip_markers(acc_prev) != strip_markers(r['final']):
            fail = 'preview read with all suggestions accepted differs from the accepted view of the committed document: ' + json.dumps(docrun.first_diff(strip_markers(r['final']), strip_markers(acc_prev)))
    f, kn = J.classify(c, fail, meta_region=True, block_region=True, placement=True)
    if f and not kn and J.in_virtual(c, c.get('raw_in') or docrun.extract(c['b'], False)): kn = ('D40', J.WHAT['D40'])
    if f and not kn and 'differs' in f and J.emptied_story(c) and J.norm_sep(strip_markers(C14.read_view(r['preview'], 'accept')[0])) == J.norm_sep(strip_markers(r['final'])):
        kn = ('D56', J.WHAT['D56'])
    if f and not kn and J.bold_led_para(d) and J.unhead(strip_markers(C14.read_view(r['preview'], 'accept')[0])) == J.unhead(strip_markers(r['final'])):
        kn = ('D42', 'the heuristic heading prefix of an all-caps bold paragraph changes with its text')
    return f, kn

def run(tier, seed):
    ck = core.Check('C15', tier, seed)
    ck.proof_gate(['Props/C15.v'], extra_trusted=[
        'the two matchers (markup.py text side, mapper.py document side) have their exact and smart-quote stages in the models; the Markdown-stripped / fuzzy stages are oracle inputs on both sides',
        'harness/absdoc.py reader, python-docx; the agreement itself is decided differentially, not by a theorem'])
    rng = random.Random(seed)
    n = 1000 if tier == 'quick' else 20000
    docrun.impl_init()
    cases = []
    for k in range(n):
        d = docgen.gen_doc(rng, ('full', 'plain', 'c12')[k % 3]); b = A.build(d); din = A.read(b, table=list(d['rpr_table']))
        raw, clean = docrun.extract(b, False), docrun.extract(b, True)
        edits = E.gen_batch(rng, din, raw, clean, 'exact')
        edits = [e for e in edits if '\n' not in e[1] and not e[1].startswith('#')]
        for q in ('"term"', '\u201cterm\u201d', "Buyer's", 'Buyer\u2019s'):      # the same term in both quote spellings: each is an exact, unique target
            if clean.count(q) == 1 and raw.count(q) == 1 and rng.random() < .7: edits.append((q, 'defined ' + q[1:-1], None, None))
        if not edits: continue
        c = {'din': din, 'edits': edits}
        if E.exact_unique(c, raw, clean) is None: continue
        # the preview works on the accepted view: the targets must be unique there too, and marker-free (formatting markers aside)
        if any(clean.count(e[0]) != 1 or any(ch in e[0] + e[1] for ch in '*_{}') for e in edits): continue
        cases.append((d, b, edits))
    for d, edits in E.quote_cases(random.Random(seed + 77), 12 if tier == 'quick' else 48):      # one term in both quote spellings, the named occurrence split by a tracked change
        b = A.build(d); raw, clean = docrun.extract(b, False), docrun.extract(b, True)
        if E.exact_unique({'din': A.read(b, table=list(d['rpr_table'])), 'edits': edits}, raw, clean) is not None and clean.count(edits[0][0]) == 1: cases.append((d, b, edits))
    corpus = []
    for fid, case in core.finding_cases('C15'):       # recorded inputs (known findings and repaired defects) run first
        if case and 'doc' in case and 'edits' in case:
            d = dict(case['doc']); d.setdefault('features', []); b = A.build(d); edits = [tuple(e) for e in case['edits']]
            raw, clean = docrun.extract(b, False), docrun.extract(b, True)
            # the property speaks about exact, unique, non-overlapping targets: recorded inputs outside that domain are not C15 inputs
            if E.exact_unique({'din': A.read(b, table=list(d['rpr_table'])), 'edits': edits}, raw, clean) is None and not any(J.block_text(e[1]) for e in edits): continue
            corpus.append((d, b, edits))
    cases = corpus + cases
    with Pool(core.NPROC, initializer=docrun.impl_init) as pool:
        res = pool.map(work, [(b, e) for d, b, e in cases], chunksize=8)
    mres = E.run_cases([(d, e) for d, b, e in cases])
    inside = 0; distinct = set()
    for (d, b, edits), r, c in zip(cases, res, mres):
        ck.count()
        st = E.correspondence(ck, c); inside += st == 'inside'
        case = E.case_of(c)
        f, kn = judge_case(d, edits, r, c)
        if f and kn: ck.known(kn[0], kn[1], case)
        elif f: ck.violation('oracle', dict(case, preview=r.get('preview'), committed=r.get('final')), f)
        if not r['err'] and r['r']['ap']: distinct.add(json.dumps(case, sort_keys=True)[:2000])
    for (d, b, edits), r in list(zip(cases, res))[:3]: ck.sample({'edits': edits, 'preview': r.get('preview'), 'committed': r.get('final')})
    ck.cov['traces_validated_against_impl'] = inside
    ck.cov['input_distribution'] = {'cases': len(cases), 'engine_model_inside': inside}
    return ck.finish(rule='generated documents x batches of 1-3 edits with exact, unique, non-overlapping, marker-free targets (unique in the raw and in the accepted view), previewed on the accepted view with indexes and committed to the DOCX; '
                          'non-trivial = the commit applied at least one edit; distinct by (document, batch)', distinct=len(distinct))

def replay(path):
    r0 = json.load(open(path)); c0 = r0['case']; d = c0['doc']; d.setdefault('features', [])
    docrun.impl_init(); b = A.build(d); edits = [tuple(e) for e in c0['edits']]
    res = work((b, edits)); (c,) = E.run_cases([(d, edits)])
    class _CK: corr_broken = []
    E.correspondence(_CK, c)
    print(res.get('preview')); print(res.get('final'))
    f, kn = judge_case(d, edits, res, c)
    if f and kn: print('KNOWN %s: %s' % (kn[0], f[:300]))
    elif f: print('FAIL: ' + f[:400]); print('VIOLATION property=C15 replay=%s' % path); return 1
    print('property holds on this input' if not f else 'recorded finding'); return 0
