"""C05 - opening and saving a document is content-neutral.
Theorems: Props/C05.v (normalisation is invisible on the atom tape, never crosses/drops a non-run node; doc level).
Correspondence: Norm.normalize_doc (extracted) vs RedlineEngine(bytes).save_to_stream() compared at RUN-STRUCTURE level
through the independent reader.  Oracle: tape(reader(output)) = tape(reader(input)) modulo proofErr, comment records equal."""
import json, os, random
from multiprocessing import Pool
from harness import core, absdoc as A, docgen, docrun

def work(b):
    try: return docrun.engine_roundtrip(b), None
    except Exception as e: return None, '%s: %s' % (type(e).__name__, e)

def targeted(rng):
    """paragraphs aimed at the merge rule: equal-format runs separated by every kind of element; prefix-related formats; 3+ streaks"""
    g = docgen.Gen(rng, 'full'); docs = []
    # 105 / 106: same element (and same w:val) as 102 / 100, other attributes differ: still different formatting
    EXTRA = ['<w:rFonts w:ascii="Times New Roman" w:hAnsi="Times New Roman"></w:rFonts>', '<w:color w:themeColor="accent1" w:val="FF0000"></w:color>', '<w:noProof></w:noProof>']
    fmts = [None, [[1, 1]], [[1, 1], [2, 1]], [[100, 0]], [[100, 0], [101, 0]], [], [[2, 1]], [[102, 0]], [[105, 0]], [[106, 0]], [[107, 0]], [[1, 1], [107, 0]]]
    seps = [None, ['other', 1], ['other', 2], ['other', 4], ['crs', '1'], 'ins', 'del', 'ref', 'special', 'empty']
    for f1 in fmts:
        for f2 in fmts:
            for sep in seps:
                if f1 != f2 and sep is not None and rng.random() < .6: continue
                ns = [['run', g.fresh(), f1, [['t', 'Alpha ']]], ['run', g.fresh(), f1, [['t', 'Beta ']]]]
                if sep is None: pass
                elif sep == 'ins': ns.append(['ins', g.fresh(), ['7', 'Bob Smith', '2024-01-01T10:00:00Z'], [['run', g.fresh(), f1, [['t', 'Gamma ']]]]])
                elif sep == 'del': ns.append(['del', g.fresh(), ['8', 'Carol', '2024-01-01T10:00:00Z'], [['run', g.fresh(), f1, [['dt', 'Gone ']]]]])
                elif sep == 'ref': ns.append(['run', g.fresh(), f1, [['ref', '1']]])
                elif sep == 'special': ns.append(['run', g.fresh(), f1, [['t', 'pic'], ['other', 5]]])
                elif sep == 'empty': ns.append(['run', g.fresh(), f1, []])
                else: ns.append(list(sep))
                ns.append(['run', g.fresh(), f2, [['t', 'Delta'], ['tab'], ['t', 'tail']]])
                ns.append(['run', g.fresh(), f2, [[rng.choice(['br', 'cr'])], ['t', 'end']]])
                if rng.random() < .3: ns.append(['run', g.fresh(), f2, [['t', 'last'], ['cr']]])
                g.pid += 1
                p = {'t': 'p', 'pid': g.pid, 'ppr': 0, 'style': ['N', False], 'nodes': ns}
                cs = [{'id': '1', 'author': 'Alice', 'date': '2024-01-01T10:00:00Z', 'text': 'note', 'parent': None}] if sep in (['crs', '1'], 'ref') or sep == 'ref' else []
                if sep == ['crs', '1']: ns += [['cre', '1'], ['run', g.fresh(), None, [['ref', '1']]]]
                tbl = {'t': 'tbl', 'tok': 0, 'rows': [[{'tok': 0, 'span': 1, 'vm': None, 'blocks': [dict(p, pid=g.pid + 5000, nodes=json.loads(json.dumps(ns)))]}]]}
                docs.append({'stories': [{'kind': 0, 'blocks': [dict(p, pid=g.pid + 9000, nodes=json.loads(json.dumps([n for n in ns if n[0] not in ('crs', 'cre') and not (n[0] == 'run' and any(k[0] == 'ref' for k in n[3]))])))]}] if rng.random() < .3 else [] ,
                             'comments': cs, 'next_uid': g.uid + 1000, 'rpr_table': g.table_list() + EXTRA, 'features': ['targeted']})
                docs[-1]['stories'] = docs[-1]['stories'] + [{'kind': 1, 'blocks': [p] + ([tbl] if rng.random() < .3 and not cs else [])}]
    return docs

def run(tier, seed):
    ck = core.Check('C05', tier, seed)
    ck.proof_gate(['Props/C05.v'], extra_trusted=[
        'harness/absdoc.py reader (lxml+zipfile): the abstraction from bytes to the document model and its tape - trusted; every generated document is checked for build->read round trip',
        'python-docx load/save and XML serialisation are not modelled (the comparison goes through the reader)',
        'rPr identity is modelled as equality of the ordered (tag, value) token list; the implementation compares pretty-printed XML'])
    rng = random.Random(seed)
    n = 600 if tier == 'quick' else 12000
    docs = targeted(rng) + [docgen.gen_doc(rng, 'full') for _ in range(n)]
    blobs = [A.build(d) for d in docs]
    with Pool(core.NPROC, initializer=docrun.impl_init) as pool:
        outs = pool.map(work, blobs, chunksize=16)
    ins = [A.read(b, table=list(d['rpr_table'])) for b, d in zip(blobs, docs)]
    mouts = core.run_driver('normalize', [A.sx_doc(d) for d in ins])
    feats = {}; nontriv = set(); rt_bad = 0
    for d, b, din, (ob, err), mo in zip(docs, blobs, ins, outs, mouts):
        ck.count()
        for f in d['features']: feats[f] = feats.get(f, 0) + 1
        if A.tape(din, False) != A.tape(d, False): rt_bad += 1
        case = {'doc': A.doc_core(d)}
        if err: ck.violation('oracle', case, 'RedlineEngine(...).save_to_stream() raised ' + err); continue
        dout = A.read(ob, table=din['rpr_table'])
        if A.tape(dout) != A.tape(din):
            ck.violation('oracle', dict(case, diff=docrun.first_diff(A.tape(din), A.tape(dout))), 'loading and saving changed the content (tape of output differs from tape of input)')
            continue
        if docrun.comments_key(dout) != docrun.comments_key(din):
            ck.violation('oracle', case, 'loading and saving changed the comment records'); continue
        md = A.un_doc(A.sx_parse(mo))
        sm, si = docrun.doc_shape(md), docrun.doc_shape(dout)
        if sm != si:
            ck.corr_broken.append(('Norm.normalize_doc vs RedlineEngine load+save (run structure)', dict(case, diff=docrun.first_diff(sm, si))))
        if docrun.doc_shape(din) != si: nontriv.add(json.dumps(case, sort_keys=True)[:4000])
    ck.cov['builder_reader_roundtrip_failures'] = rt_bad
    if rt_bad: ck.corr_broken.append(('builder/reader round trip', {'failures': rt_bad}))
    for d in docs[:1] + docs[-2:]: ck.sample({'stories': d['stories'], 'comments': d['comments']})
    ck.cov['traces_validated_against_impl'] = ck.cov['evaluations']
    return ck.finish(
        rule='targeted paragraphs (pairs of run formats x every kind of separator between equal-format runs, in body/header/table cell) + random documents with all features; '
             'non-trivial = normalisation changed the run structure of the document (some merge or proofErr removal happened); distinct by content',
        distinct=len(nontriv), extra={'input_distribution': feats})

def replay(path):
    r = json.load(open(path)); d = r['case']['doc']
    docrun.impl_init()
    b = A.build(d); ob, err = work(b)
    if err: print('VIOLATION property=C05 replay=%s' % path); print(err); return 1
    din = A.read(b, table=list(d['rpr_table'])); dout = A.read(ob, table=din['rpr_table'])
    if A.tape(dout) != A.tape(din) or docrun.comments_key(dout) != docrun.comments_key(din):
        print('VIOLATION property=C05 replay=%s' % path); print(docrun.first_diff(A.tape(din), A.tape(dout))); return 1
    print('property holds on this input'); return 0
