"""C06 - Accept and Reject act exactly on the addressed change.
Theorems: Props/C06.v.  Correspondence: Review.apply_actions / accept_all_doc (extracted) vs RedlineEngine.apply_review_actions /
accept_all_revisions (counts + run structure through the independent reader).  Oracle: an independent string/tape-level
reference of the same actions, structural validity of the output, commutation and accept-everything checks on the real engine."""
import itertools, json, os, random
from multiprocessing import Pool
from harness import core, absdoc as A, docgen, docrun

def work(job):
    b, acts = job
    try:
        if acts == 'ALL': return (None, None, docrun.engine_accept_all(b)), None
        return docrun.engine_review(b, acts), None
    except Exception as e: return None, '%s: %s' % (type(e).__name__, e)

INPUT_ISSUES = {}
def small_docs(rng):
    """documents with 1-4 tracked changes, incl. an ins and a del sharing one id, multi-run marks, marks in cells/headers,
    deleted runs with several text nodes (tab/break inside), adjacent marks"""
    docs = []
    for variant in range(17):
        g = docgen.Gen(rng, 'full'); ns = []
        def run(t, f=None, dt=False): return ['run', g.fresh(), f, [['dt' if dt else 't', t]]]
        ns.append(run('Start '))
        if variant % 2 == 0:
            ns.append(['del', g.fresh(), ['1', 'Bob Smith', '2024-01-01T10:00:00Z'], [['run', g.fresh(), [[1, 1]], [['dt', 'old'], ['tab'], ['dt', 'text'], ['br'], ['dt', 'more ']]]]])
        else:
            ns.append(['del', g.fresh(), ['1', 'Bob Smith', '2024-01-01T10:00:00Z'], [run('old ', None, True), run('text ', [[2, 1]], True)]])
        ns.append(['ins', g.fresh(), ['1' if variant % 3 == 0 else '2', 'Bob Smith', '2024-01-01T10:00:00Z'], [run('new ', [[1, 1]]), run('words ')]])
        ns.append(run('middle '))
        if variant % 4 < 2: ns.append(['ins', g.fresh(), ['3', 'Carol', '2024-02-03T09:30:00Z'], [run('added')]])
        if variant % 5 == 0:
            ns += [['crs', '1'], ['ins', g.fresh(), ['4', 'Alice', '2024-02-03T09:30:00Z'], [run('noted ')]], ['cre', '1'], ['run', g.fresh(), None, [['ref', '1']]]]
        if variant >= 14:      # another author's deletion nested inside a pending insertion (Word writes this when someone deletes part of it)
            inner = [run('kept '), ['del', g.fresh(), ['7', 'Alice', '2024-02-03T09:30:00Z'], [run('dropped ', None, True)]], run('tail ')]
            if variant == 16: inner = [run('a '), ['del', g.fresh(), ['7', 'Alice', '2024-02-03T09:30:00Z'], [run('b ', None, True), run('c ', [[1, 1]], True)]]]
            ns.append(['ins', g.fresh(), ['6', 'Carol', '2024-02-03T09:30:00Z'], inner])
        ns.append(run(' end.'))
        g.pid += 1
        p = {'t': 'p', 'pid': g.pid, 'ppr': 0, 'style': ['N', False], 'nodes': ns}
        blocks = [p]
        stories = []
        if variant % 6 == 1:
            g.pid += 1
            stories.append({'kind': 0, 'blocks': [{'t': 'p', 'pid': g.pid, 'ppr': 0, 'style': ['N', False],
                            'nodes': [run('Header '), ['ins', g.fresh(), ['9', 'Carol', '2024-02-03T09:30:00Z'], [run('draft')]], ['del', g.fresh(), ['3', 'Carol', '2024-02-03T09:30:00Z'], [run('v1', None, True)]]]}]})
        if variant % 7 == 2:
            g.pid += 1
            blocks.append({'t': 'tbl', 'tok': 0, 'rows': [[{'tok': 0, 'span': 1, 'vm': None, 'blocks': [{'t': 'p', 'pid': g.pid, 'ppr': 0, 'style': ['N', False],
                           'nodes': [run('cell '), ['del', g.fresh(), ['5', 'Alice', '2024-01-01T10:00:00Z'], [run('gone', None, True)]]]}]}]]})
        cs = [{'id': '1', 'author': 'Alice', 'date': '2024-01-01T10:00:00Z', 'text': 'note', 'parent': None}] if variant % 5 == 0 else []
        stories.append({'kind': 1, 'blocks': blocks})
        docs.append({'stories': stories, 'comments': cs, 'next_uid': g.uid + 1000, 'rpr_table': g.table_list(), 'features': ['small']})
    return docs

def review_line(doc, author, acts):
    code = {'ACCEPT': 0, 'REJECT': 1, 'REPLY': 2}
    return '(%s %s %s (%s))' % (A.sx_doc(doc), A.sx_str(author), A.sx_str('SESSION'), ' '.join('(%d %s %s)' % (code[k], A.sx_str(t), A.sx_str(x or '')) for k, t, x in acts))
def ref_apply(tp, acts):
    """independent reference: the actions on the reader's tape; returns (tape, applied, skipped)"""
    ap = sk = 0
    for kind, raw, _ in acts:
        if raw.startswith('Chg:'): tid, chg = raw[4:], True
        elif raw.startswith('Com:'): tid, chg = raw[4:], False
        else: tid, chg = raw, True
        if kind in ('ACCEPT', 'REJECT') and chg and tid in docrun.tape_ids(tp):
            f = docrun.ref_accept if kind == 'ACCEPT' else docrun.ref_reject
            tp = docrun.tape_map(tp, lambda at: f(at, tid)); ap += 1
        else: sk += 1
    return tp, ap, sk

def strip_session_reply(tp): return tp

def run(tier, seed):
    ck = core.Check('C06', tier, seed)
    ck.proof_gate(['Props/C06.v'], extra_trusted=[
        'harness/absdoc.py reader (lxml+zipfile) - the abstraction from bytes to the model document; round trip checked per case',
        'python-docx load/save not modelled; REPLY actions are outside this model (C10)',
        'hand-written: independent tape-level reference of ACCEPT/REJECT in harness/docrun.py'])
    rng = random.Random(seed)
    docs = small_docs(rng)
    jobs = []       # (doc index, acts)
    alldocs = list(docs)
    for di, d in enumerate(docs):
        ids = sorted({a for s in A.tape(d) for a in docrun.tape_ids([s])})
        targets = ['Chg:' + i for i in ids] + ids[:1] + ['Chg:999', 'Com:1', '999']
        alphabet = [(k, t, None) for k in ('ACCEPT', 'REJECT') for t in targets]
        L = 2 if tier == 'quick' else 3
        for n in range(1, L + 1):
            seqs = list(itertools.product(alphabet, repeat=n))
            if n == 3 and len(seqs) > 4000: seqs = rng.sample(seqs, 4000)
            for sq in seqs: jobs.append((di, list(sq)))
        jobs.append((di, 'ALL'))
        jobs.append((di, [('ACCEPT', 'Chg:' + i, None) for i in ids]))
        jobs.append((di, [('ACCEPT', 'Chg:' + i, None) for i in reversed(ids)]))
    nrand = 150 if tier == 'quick' else 3000
    for _ in range(nrand):
        d = docgen.gen_doc(rng, 'full'); alldocs.append(d); di = len(alldocs) - 1
        ids = sorted({a for s in A.tape(d) for a in docrun.tape_ids([s])})
        if not ids: continue
        for _ in range(3):
            acts = [(rng.choice(['ACCEPT', 'REJECT']), rng.choice(['Chg:' + rng.choice(ids), rng.choice(ids), 'Chg:777', 'Com:' + rng.choice(ids)]), None) for _ in range(rng.randint(1, 8))]
            jobs.append((di, acts))
        jobs.append((di, 'ALL')); jobs.append((di, [('ACCEPT', 'Chg:' + i, None) for i in ids]))
    blobs = [A.build(d) for d in alldocs]
    ins = [A.read(b, table=list(d['rpr_table'])) for b, d in zip(blobs, alldocs)]
    with Pool(core.NPROC, initializer=docrun.impl_init) as pool:
        outs = pool.map(work, [(blobs[di], acts) for di, acts in jobs], chunksize=32)
    # the engine normalises on load: the model and the reference start from the normalised document
    norm = [A.un_doc(A.sx_parse(x)) for x in core.run_driver('normalize', [A.sx_doc(d) for d in ins])]
    lines = []
    for di, acts in jobs:
        if acts == 'ALL': lines.append(None)
        else: lines.append(review_line(norm[di], 'Tester', acts))
    mrev = iter(core.run_driver('review', [l for l in lines if l is not None]))
    mall = iter(core.run_driver('acceptall', [A.sx_doc(norm[di]) for (di, acts) in jobs if acts == 'ALL']))
    kinds = {'exhaustive_small': 0, 'random': 0, 'accept_all': 0}; distinct = set(); acc_all_text = {}
    for (di, acts), (res, err), line in zip(jobs, outs, lines):
        ck.count()
        case = {'doc': A.doc_core(alldocs[di]), 'actions': acts}
        mo = next(mall) if acts == 'ALL' else next(mrev)
        if err: ck.violation('oracle', case, 'review raised ' + err); continue
        ap, sk, ob = res
        dout = A.read(ob, table=ins[di]['rpr_table'])
        tin = A.tape(norm[di]); tout = A.tape(dout)
        issues = [i for i in docrun.struct_issues(ob) if i not in INPUT_ISSUES.setdefault(di, set(docrun.struct_issues(blobs[di])))]      # (relative to the input: a nested mark Word wrote is not the action's doing)
        if issues: ck.violation('oracle', dict(case, issues=issues[:5]), 'output is not structurally valid: ' + issues[0]); continue
        if acts == 'ALL':
            kinds['accept_all'] += 1
            txt = [A.text_of(A.acc_atoms(p[3])) for s in tin for p in _paras(s[1])]
            got = [A.text_of(p[3]) for s in tout for p in _paras(s[1])]
            acc_all_text[di] = got
            if got != txt: ck.violation('oracle', dict(case, expected=txt, got=got), 'accept-all does not give the accepted-view text'); continue
            if docrun.tape_ids(tout): ck.violation('oracle', case, 'accept-all left revision marks behind'); continue
            md = A.un_doc(A.sx_parse(mo))
            if docrun.doc_shape(md) != docrun.doc_shape(dout): ck.corr_broken.append(('Review.accept_all_doc vs accept_all_revisions', dict(case, diff=docrun.first_diff(docrun.doc_shape(md), docrun.doc_shape(dout)))))
            continue
        kinds['exhaustive_small' if di < len(docs) else 'random'] += 1
        if ap + sk != len(acts): ck.violation('oracle', dict(case, applied=ap, skipped=sk), 'applied + skipped != number of actions'); continue
        rt, rap, rsk = ref_apply(tin, acts)
        if (ap, sk) != (rap, rsk): ck.violation('oracle', dict(case, got=[ap, sk], expected=[rap, rsk]), 'applied/skipped counts differ from the reference (an action on an unknown or resolved id must be skipped, a known one applied)'); continue
        if tout != rt: ck.violation('oracle', dict(case, diff=docrun.first_diff(rt, tout)), 'the result differs from the reference: an action changed more or less than the addressed change'); continue
        if ap: distinct.add((di, json.dumps(acts)))
        cnt, mdoc = mo.split('|', 1)
        if cnt != '%d %d' % (ap, sk): ck.corr_broken.append(('Review.apply_actions counts', dict(case, model=cnt, impl=[ap, sk])))
        md = A.un_doc(A.sx_parse(mdoc))
        if docrun.doc_shape(md) != docrun.doc_shape(dout): ck.corr_broken.append(('Review.apply_actions vs apply_review_actions (run structure)', dict(case, diff=docrun.first_diff(docrun.doc_shape(md), docrun.doc_shape(dout)))))
        # accepting every id = accept all (text), no marks remain
        if len(acts) and all(k == 'ACCEPT' for k, _, _ in acts) and {t[4:] for _, t, _ in acts if t.startswith('Chg:')} >= docrun.tape_ids(tin):
            got = [A.text_of(p[3]) for s in tout for p in _paras(s[1])]
            exp = [A.text_of(A.acc_atoms(p[3])) for s in tin for p in _paras(s[1])]
            if got != exp: ck.violation('oracle', dict(case, expected=exp, got=got), 'accepting every id does not give the accepted-view text')
            elif docrun.tape_ids(tout): ck.violation('oracle', case, 'accepting every id left revision marks behind')
    ck.sample({'doc': alldocs[0]['stories'], 'actions': jobs[5][1]}); ck.sample({'doc': alldocs[-1]['stories'], 'actions': jobs[-3][1]})
    ck.cov['traces_validated_against_impl'] = ck.cov['evaluations']
    return ck.finish(
        rule='14 small documents (1-4 tracked changes: shared ids, multi-run and multi-text-node marks, marks in header / table cell) x ALL action sequences up to length %d over {ACCEPT,REJECT} x (ids with prefix, bare id, unknown, Com:) '
             '+ accept-all + accept-every-id in both orders; random documents x random sequences up to length 8. non-trivial = at least one action applied; distinct by (document, sequence)' % (2 if tier == 'quick' else 3),
        distinct=len(distinct), extra={'input_distribution': kinds, 'exhaustive': True})

def _paras(bl):
    for b in bl:
        if b[0] == 'p': yield b
        else:
            for r in b[1]:
                for c in r: yield from _paras(c[2])

def replay(path):
    r = json.load(open(path)); c = r['case']; d = c['doc']
    docrun.impl_init()
    b = A.build(d); acts = c['actions'] if c['actions'] == 'ALL' else [tuple(a) for a in c['actions']]
    res, err = work((b, acts))
    if err: print('VIOLATION property=C06 replay=%s' % path); print(err); return 1
    ap, sk, ob = res
    din = A.read(b, table=list(d['rpr_table']))
    nd = A.un_doc(A.sx_parse(core.run_driver('normalize', [A.sx_doc(din)])[0]))
    dout = A.read(ob, table=din['rpr_table'])
    issues = [i for i in docrun.struct_issues(ob) if i not in set(docrun.struct_issues(b))]
    bad = bool(issues)
    if acts != 'ALL':
        rt, rap, rsk = ref_apply(A.tape(nd), acts)
        bad = bad or (ap, sk) != (rap, rsk) or A.tape(dout) != rt
        print('counts', (ap, sk), 'reference', (rap, rsk), 'issues', issues[:3])
    if bad: print('VIOLATION property=C06 replay=%s' % path); return 1
    print('property holds on this input'); return 0
