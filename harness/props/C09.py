"""C09 - saved output is structurally valid revision and comment markup. Edit batches: generators in harness/editrun.py, oracle +
region classification in harness/props/_judges.py, model correspondence (Engine.apply_edits extracted from Coq), theorems in
coq/Props/C09.v. Review rounds (ACCEPT / REJECT / REPLY by id on documents with pending changes, multi-run deletions with
several w:delText) are validated structurally as well: "every saved output"."""
import json, random
from multiprocessing import Pool
from harness import core, absdoc as A, docgen, docrun
from harness.props import _edits, _judges as J
PID = 'C09'

def review_work(job):
    b, acts = job
    try:
        ap, sk, out = docrun.engine_review(b, acts, 'Reviewer Z')
        return {'err': None, 'ap': ap, 'sk': sk, 'new': [i for i in docrun.struct_issues(out) if i not in set(docrun.struct_issues(b))]}
    except Exception as ex:
        return {'err': '%s: %s' % (type(ex).__name__, ex)}
def gen_actions(rng, b, d):
    ids = sorted({i for part, l in docrun.rev_ids_by_part(b).items() for k, i, a, dt in l if i})
    acts = []
    for _ in range(rng.randint(1, 3)):
        x = rng.random()
        if x < .8 and ids: acts.append((rng.choice(['ACCEPT', 'REJECT', 'REJECT']), rng.choice(['Chg:', '']) + rng.choice(ids), None))
        elif d['comments']: acts.append(('REPLY', 'Com:' + rng.choice(d['comments'])['id'], 'noted'))
    return acts
def review_rounds(ck, rng, tier):
    docs = [docgen.gen_doc(rng, 'full') for _ in range(150 if tier == 'quick' else 3000)]
    jobs = []
    for d in docs:
        b = A.build(d); acts = gen_actions(rng, b, d)
        if acts: jobs.append((d, b, acts))
    with Pool(core.NPROC, initializer=docrun.impl_init) as pool:
        res = pool.map(review_work, [(b, a) for d, b, a in jobs], chunksize=8)
    n = 0
    for (d, b, acts), r in zip(jobs, res):
        ck.count(); n += 1
        case = {'doc': A.doc_core(d), 'actions': [list(a) for a in acts]}
        if r['err']: ck.violation('oracle', case, 'review round raised ' + r['err'])
        elif r['new']: ck.violation('oracle', case, 'the output of a review round is not structurally valid: ' + r['new'][0])
    ck.cov.setdefault('input_distribution', {})['review_rounds_validated'] = n
def run(tier, seed):
    return _edits.run_property(PID, tier, seed, ['Props/C09.v'], ('exact','mixed','blocks'), J.judge_C09, 'every saved output of the explored batches and of review rounds (ACCEPT / REJECT / REPLY by id) is validated structurally (well-formed parts, unique ids per part, no nesting, delText only in w:del, comment range/reference/entry consistency, relationship targets and content types)', after=review_rounds)
def replay(path):
    c0 = json.load(open(path))['case']
    if 'actions' in c0:
        d = c0['doc']; d.setdefault('features', []); docrun.impl_init()
        r = review_work((A.build(d), [tuple(a) for a in c0['actions']]))
        print(r)
        if r['err'] or r['new']: print('VIOLATION property=%s replay=%s' % (PID, path)); return 1
        print('property holds on this input'); return 0
    return _edits.replay_case(path, J.judge_C09, PID)
