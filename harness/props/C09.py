"""C09 - edit-batch property: generators in harness/editrun.py, oracle + region classification in harness/props/_judges.py,
model correspondence in harness/editrun.py (Engine.apply_edits extracted from Coq), theorems in coq/Props/C09.v"""
from harness.props import _edits, _judges as J
PID = 'C09'
def run(tier, seed):
    return _edits.run_property(PID, tier, seed, ['Props/C09.v'], ('exact','mixed','blocks'), J.judge_C09, 'every saved output of the explored batches is validated structurally (well-formed parts, unique ids per part, no nesting, delText only in w:del, comment range/reference/entry consistency, relationship targets and content types)')
def replay(path):
    return _edits.replay_case(path, J.judge_C09, PID)
