"""Shared exploration for the edit-batch properties (C01, C02, C08, C09, C10, C16)."""
import json, random
from harness import core, absdoc as A, docgen, docrun, editrun as E

def explore(ck, tier, seed, kinds, judge, n_quick=300, n_thorough=6000, profiles=('full', 'plain', 'full'), extra_cases=()):
    """judge(c, raw_in, clean_in, raw_out) -> list of (failure text, known finding (id, what) or None). Returns the set of distinct non-trivial cases."""
    rng = random.Random(seed)
    n = n_quick if tier == 'quick' else n_thorough
    cases = list(extra_cases) + (E.quote_cases(random.Random(seed + 77), 12 if tier == 'quick' else 48) if 'mixed' in kinds or 'exact' in kinds else [])
    docrun.impl_init()
    for k in range(n):
        d = docgen.gen_doc(rng, profiles[k % len(profiles)])
        b = A.build(d); din = A.read(b, table=list(d['rpr_table']))
        raw, clean = docrun.extract(b, False), docrun.extract(b, True)
        edits = E.gen_batch(rng, din, raw, clean, kinds[(k // len(profiles)) % len(kinds)])      # every (profile, kind) combination (k % len(kinds) would alias kinds with profiles)
        if edits: cases.append((d, edits))
    res = E.run_cases(cases)
    stats = {'inside_model': 0, 'outside_model': 0, 'impl_error': 0, 'broken': 0, 'applied': 0, 'skipped': 0, 'cross_paragraph_batches': 0, 'nested_insertion_batches': 0}
    feats = {}; distinct = set()
    for c in res:
        ck.count()
        for f in c['d'].get('features', []): feats[f] = feats.get(f, 0) + 1
        st = E.correspondence(ck, c)
        stats[{'inside': 'inside_model', 'outside': 'outside_model'}.get(st, st)] += 1
        if c.get('xp'): stats['cross_paragraph_batches'] += 1
        if c.get('nn'): stats['nested_insertion_batches'] += 1
        if not c['r']['err']:
            stats['applied'] += c['r']['ap']; stats['skipped'] += c['r']['sk']
            if c['r']['ap']: distinct.add(json.dumps(E.case_of(c), sort_keys=True)[:3000])
        raw_in = docrun.extract(c['b'], False); clean_in = docrun.extract(c['b'], True)
        raw_out = docrun.extract(c['r']['out'], False) if not c['r']['err'] else ''
        c['raw_in'] = raw_in
        for fail, known in judge(c, raw_in, clean_in, raw_out):
            if not fail: continue
            if known: ck.known(known[0], known[1], E.case_of(c))
            else: ck.violation('oracle', dict(E.case_of(c), applied=c['r'].get('ap'), skipped=c['r'].get('sk')), fail)
    for c in res[:1] + res[-2:]: ck.sample({'edits': c['edits'], 'stories': c['d']['stories'], 'applied': c['r'].get('ap'), 'skipped': c['r'].get('sk')})
    ck.cov['traces_validated_against_impl'] = stats['inside_model']
    ck.cov['input_distribution'] = dict(stats, features=feats, batch_kinds=list(kinds))
    return distinct

def replay_case(path, judge, pid):
    r = json.load(open(path)); c0 = r['case']; d = c0['doc']; d.setdefault('features', [])
    docrun.impl_init()
    (c,) = E.run_cases([(d, [tuple(e) for e in c0['edits']])])
    ck = core.Check(pid, 'replay', 0)
    st = E.correspondence(ck, c)      # also records the model's verdict on the input (the region of a recorded finding)
    print('model/implementation correspondence on this input:', st, '| model verdict (0 = inside the model):', c.get('outside', 0), '| nested-insertion edits:', c.get('nn', 0), '| cross-paragraph edits:', c.get('xp', 0))
    raw_in = docrun.extract(c['b'], False); clean_in = docrun.extract(c['b'], True)
    raw_out = docrun.extract(c['r']['out'], False) if not c['r']['err'] else ''
    fails = [(f, k) for f, k in judge(c, raw_in, clean_in, raw_out) if f]
    print('applied/skipped', c['r'].get('ap'), c['r'].get('sk'), 'error', c['r'].get('err'))
    bad = [f for f, k in fails if not k]
    for f, k in fails: print(('KNOWN %s: ' % k[0] if k else 'FAIL: ') + f[:400])
    if bad: print('VIOLATION property=%s replay=%s' % (pid, path)); return 1
    if st == 'broken': print('VIOLATION property=%s replay=%s no-failing-input-found' % (pid, path)); print('the model and the implementation disagree on this input: ' + str(ck.corr_broken[0][0] if ck.corr_broken else '')[:300]); return 1
    print('property holds on this input' + (' (outside recorded regions)' if not fails else ' apart from the recorded finding(s) above')); return 0

TRUSTED = [
    'harness/absdoc.py reader (lxml+zipfile): abstraction from bytes to the model document and its tape - trusted; build->read round trip is part of every case',
    'python-docx load/save, lxml serialisation: not modelled (observations go through the reader)',
    'matcher stages after the smart-quote stage (Markdown-stripped target, fuzzy regex): answers recorded from the running implementation and fed to the model; their contract (in-range result that denotes the target) is checked on every call; the exact and the smart-quote stage are inside the model',
    'character tables (isspace, \\w) of the inline-Markdown and trimming models: instantiated tables compared with Python on the generator alphabet',
    'anchors inside marks and target runs inside another author\'s mark are OUTSIDE the engine model: there only the oracles decide (findings D30, D34); block insertions (line breaks / heading lines in the new text), the nested-insertion shortcut and cross-paragraph deletions / modifications are inside the model (the last two counted; placement oracles excused there: D26, D30)']

def run_property(pid, tier, seed, props_files, kinds, judge, rule, n_quick=300, n_thorough=6000, extra_trusted=(), targeted=None, after=None):
    ck = core.Check(pid, tier, seed)
    ck.proof_gate(props_files, extra_trusted=TRUSTED + list(extra_trusted))
    extra = []
    for fid, case in core.finding_cases(pid):
        if case and 'edits' in case:
            d = dict(case['doc']); d.setdefault('features', ['finding:%s' % fid]); extra.append((d, [tuple(e) for e in case['edits']]))
    if targeted: extra += targeted(random.Random(seed + 7919), tier)
    distinct = explore(ck, tier, seed, kinds, judge, n_quick=n_quick, n_thorough=n_thorough, extra_cases=extra)
    if after: after(ck, random.Random(seed + 104729), tier)
    return ck.finish(rule=rule + ' Replays of the recorded findings and of the repaired defects for this property run first. '
                     'non-trivial = at least one edit applied; distinct by (document, batch).', distinct=len(distinct))
