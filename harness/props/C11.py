"""C11 - everything outside the edited story is preserved at package level.
Generated packages with varying optional parts (numbering, theme, fontTable, custom XML, media, headers/footers incl. first-page,
zero to four pre-existing comment-family parts, comments under a non-default name) x sessions (edit batch, review, accept-all).
Oracle: zip member list, content types, relationships and canonical XML of every member before/after. Correspondence:
Package.ensure_comment_parts (extracted) predicts the part list / main-document relationships of the output."""
import io, json, random, re, zipfile
from multiprocessing import Pool
from lxml import etree
from harness import core, absdoc as A, docgen, docrun, editrun as E
from harness.props import _judges as J

WML = A.WML; RT = A.RT
CT_CODE = {WML + 'comments+xml': 1, WML + 'commentsExtended+xml': 2, WML + 'commentsIds+xml': 3, WML + 'commentsExtensible+xml': 4}
RT_CODE = {RT + 'comments': 1, 'http://schemas.microsoft.com/office/2011/relationships/commentsExtended': 2,
           'http://schemas.microsoft.com/office/2016/09/relationships/commentsIds': 3, 'http://schemas.microsoft.com/office/2018/08/relationships/commentsExtensible': 4}
PNG = bytes.fromhex('89504e470d0a1a0a0000000d4948445200000001000000010806000000' '1f15c4890000000d49444154789c6360000002000001' 'e221bc330000000049454e44ae426082')

def gen_extras(rng):
    ex = {'parts': []}
    opt = [('word/numbering.xml', WML + 'numbering+xml', '<w:numbering %s><w:abstractNum w:abstractNumId="0"><w:lvl w:ilvl="0"><w:start w:val="1"/></w:lvl></w:abstractNum><w:num w:numId="1"><w:abstractNumId w:val="0"/></w:num></w:numbering>' % A.NS, RT + 'numbering'),
           ('word/theme/theme1.xml', 'application/vnd.openxmlformats-officedocument.theme+xml', '<a:theme xmlns:a="http://schemas.openxmlformats.org/drawingml/2006/main" name="T"><a:themeElements/></a:theme>', RT + 'theme'),
           ('word/fontTable.xml', WML + 'fontTable+xml', '<w:fonts %s><w:font w:name="Arial"/></w:fonts>' % A.NS, RT + 'fontTable'),
           ('word/webSettings.xml', WML + 'webSettings+xml', '<w:webSettings %s/>' % A.NS, RT + 'webSettings'),
           ('customXml/item1.xml', 'application/xml', '<root xmlns="urn:x"><v>1</v></root>', RT + 'customXml'),
           ('word/media/image1.png', 'image/png', PNG, RT + 'image'),
           ('word/footnotes.xml', WML + 'footnotes+xml', '<w:footnotes %s><w:footnote w:id="0"><w:p><w:r><w:t>fn</w:t></w:r></w:p></w:footnote></w:footnotes>' % A.NS, RT + 'footnotes')]
    for name, ct, data, rt in opt:
        if rng.random() < .5:
            ex['parts'].append((name, ct, data if isinstance(data, bytes) else ('<?xml version="1.0" encoding="UTF-8" standalone="yes"?>' + data).encode(), rt))
    # pre-existing comment-family parts other than comments / commentsExtended (those come with doc['comments'])
    if rng.random() < .3:
        ex['parts'].append(('word/commentsIds.xml', WML + 'commentsIds+xml', b'<?xml version="1.0" encoding="UTF-8" standalone="yes"?><w16cid:commentsIds xmlns:w16cid="http://schemas.microsoft.com/office/word/2016/wordml/cid"/>', 'http://schemas.microsoft.com/office/2016/09/relationships/commentsIds'))
    if rng.random() < .2:
        ex['parts'].append(('word/commentsExtensible.xml', WML + 'commentsExtensible+xml', b'<?xml version="1.0" encoding="UTF-8" standalone="yes"?><w16cex:commentsExtensible xmlns:w16cex="http://schemas.microsoft.com/office/word/2018/wordml/cex"/>', 'http://schemas.microsoft.com/office/2018/08/relationships/commentsExtensible'))
    if rng.random() < .3: ex['comments_name'] = rng.choice(['myComments.xml', 'comments1.xml', 'comments7.xml'])
    if rng.random() < .3: ex['extended'] = False
    if rng.random() < .2: ex['force_comments_part'] = True
    if rng.random() < .3: ex['even_odd'] = True
    return ex

def snapshot(b):
    z = zipfile.ZipFile(io.BytesIO(b)); out = {}
    for n in z.namelist(): out[n] = z.read(n)
    return out
def c14n(data):
    try: return etree.tostring(etree.fromstring(data), method='c14n', exclusive=True)
    except Exception: return None
def content_types(snap):
    ct = etree.fromstring(snap['[Content_Types].xml']); ov = {}; df = {}
    for o in ct:
        if o.get('PartName'): ov[o.get('PartName').lstrip('/')] = o.get('ContentType')
        else: df[o.get('Extension')] = o.get('ContentType')
    return ov, df
def ctype_of(name, ov, df): return ov.get(name) or df.get(name.rsplit('.', 1)[-1])
def doc_rels(snap):
    r = etree.fromstring(snap['word/_rels/document.xml.rels'])
    return [(x.get('Id'), x.get('Type'), x.get('Target')) for x in r]
STORY = re.compile(r'word/(document|header\d*|footer\d*)\.xml$')

def oracle(b_in, b_out):
    si, so = snapshot(b_in), snapshot(b_out)
    ovi, dfi = content_types(si); ovo, dfo = content_types(so)
    fam = set(CT_CODE)
    for n, data in si.items():
        if n in ('[Content_Types].xml',) or n.endswith('.rels'): continue
        ct = ctype_of(n, ovi, dfi)
        if STORY.match(n) or ct in fam: continue
        if n not in so: return 'part %s (%s) was lost' % (n, ct)
        if so[n] != data and (c14n(data) is None or c14n(so[n]) != c14n(data)): return 'part %s changed (neither byte-identical nor canonically equal)' % n
        if ctype_of(n, ovo, dfo) != ct: return 'content type of %s changed' % n
    ri, ro = doc_rels(si), doc_rels(so)
    for x in ri:
        if x not in ro: return 'main-document relationship %s (%s -> %s) was lost or changed' % x
    ids = [x[0] for x in ro]
    if len(set(ids)) != len(ids): return 'duplicate relationship ids in document.xml.rels'
    for ct in fam:
        cnt_o = sum(1 for n in so if ctype_of(n, ovo, dfo) == ct); cnt_i = sum(1 for n in si if ctype_of(n, ovi, dfi) == ct)
        if cnt_o > max(1, cnt_i): return 'a second part with content type %s was created' % ct.rsplit('.', 1)[-1]
        if cnt_i and not any(n in so for n in si if ctype_of(n, ovi, dfi) == ct): return 'the existing %s part was replaced' % ct.rsplit('.', 1)[-1]
    # section, table and paragraph properties of the pre-existing content
    qn = A.q
    for n in si:
        if not STORY.match(n) or n not in so: continue
        a, b2 = etree.fromstring(si[n]), etree.fromstring(so[n])
        for tag in ('sectPr', 'tblPr', 'tblGrid', 'trPr', 'tcPr'):
            xa = [etree.tostring(e, method='c14n', exclusive=True) for e in a.iter(qn(tag))]
            xb = [etree.tostring(e, method='c14n', exclusive=True) for e in b2.iter(qn(tag))]
            if xa != xb: return '%s: %s elements changed (%d before, %d after)' % (n, tag, len(xa), len(xb))
    for n in so:
        if STORY.match(n) and n not in si: return 'a text story %s appeared that the input does not have' % n
    return None

def pkg_line(b):
    s = snapshot(b); ov, df = content_types(s)
    rel = doc_rels(s)
    # parts reachable from the main document, in relationship order (what python-docx iterates), main part first
    names = ['word/document.xml']
    for _, t, tgt in rel:
        full = 'word/' + tgt if not tgt.startswith('../') else tgt[3:]
        if full in s and full not in names: names.append(full)
    parts = ' '.join('(%s %d)' % (A.sx_str('/' + n), CT_CODE.get(ctype_of(n, ov, df), 9)) for n in names)
    rels = ' '.join('(%d %s)' % (RT_CODE.get(t, 9), A.sx_str('/' + ('word/' + tgt if not tgt.startswith('../') else tgt[3:]))) for _, t, tgt in rel)
    return '((%s) (%s))' % (parts, rels)

def work(job):
    b, kind, arg = job
    try:
        if kind == 'edits':
            r = docrun.engine_edits(b, arg, E.AUTHOR)
            return (r['out'] if not r['err'] else None), r['err'], r
        if kind == 'review':
            ap, sk, ob = docrun.engine_review(b, arg, E.AUTHOR); return ob, None, None
        if kind == 'accept_all': return docrun.engine_accept_all(b), None, None
        return docrun.engine_roundtrip(b), None, None
    except Exception as ex:
        return None, '%s: %s' % (type(ex).__name__, ex), None

def judge_session(b, ob, d, kind, arg, r):
    """-> [(failure, known finding or None)] for one session: package-level oracle, then (edit batches) the stories no edit targets and
    the paragraph properties / styles of the pre-existing paragraphs; every failure is classified by the model's verdict on the input"""
    out = []
    f = oracle(b, ob)
    verdict = None
    def classify(msg):
        nonlocal verdict
        if verdict is None:
            verdict = {'outside': 0, 'nn': 0, 'xp': 0}
            if kind == 'edits' and r is not None:
                din0 = A.read(b, table=list(d['rpr_table']))
                (ml,) = core.run_driver('edits', [docrun.sx_edits_line(din0, E.AUTHOR, arg, r['oracle'])])
                if '|' in ml:
                    cnt = ml.split('|')[0].split(); verdict = {'outside': int(cnt[2]), 'nn': int(cnt[3]), 'xp': int(cnt[4])}
        return J.classify(dict(verdict), msg)
    if f: return [classify(f)]
    if kind == 'edits':
        # paragraph properties / styles of the pre-existing paragraphs (aligned by rejecting the session)
        din = A.read(b, table=list(d['rpr_table'])); dout = docrun.canon_session(A.read(ob, table=din['rpr_table']), din)
        back = E.session_reject(dout, din)
        # stories whose text was not targeted keep exactly their content (tape level: loading coalesces runs in every story); a story
        # counts as targeted when a target occurs in it up to what the approximate matcher stages ignore (markers, quote style, whitespace)
        strip = lambda t: re.sub(r'\*\*|__|_|\{[-+=]{2}|[-+=]{2}\}|\{>>.*?<<\}', '', t)
        stext = lambda st, view: '\n'.join(E.para_texts({'stories': [st]}, view))
        hits = lambda t, st: any(t in stext(st, v) or (docrun._loose(t) and docrun._loose(t) in docrun._loose(stext(st, v))) for v in ('raw', 'acc'))
        tg = [strip(e[0]) for e in arg if e[0]]
        if all(any(hits(t, st) for st in din['stories']) for t in tg) and not any(e[3] is not None for e in arg):
            for st_in, st_out in zip(din['stories'], dout['stories']):
                if any(hits(t, st_in) for t in tg): continue
                if E.tape_nopid({'stories': [st_in]}) != E.tape_nopid({'stories': [st_out]}):
                    msg = 'the story %s, whose text no edit of the batch targets, changed' % st_in.get('part', '?')
                    # (no D40 attribution here: since fixes D54 / D57 an occurrence lying in generated text is passed over and a range
                    # over two stories is refused, so a story can only change through text of its own that an edit names)
                    out.append(classify(msg)); break
        pa = [(p['ppr'], tuple(p['style'])) for p in A.paras(din)]; pb = [(p['ppr'], tuple(p['style'])) for p in A.paras(back)]
        if len(pa) == len(pb) and pa != pb:
            k = next(i for i in range(len(pa)) if pa[i] != pb[i])
            out.append(classify('paragraph %d lost or changed its paragraph properties / style: %s -> %s' % (k, pa[k], pb[k])))
    return out

def run(tier, seed):
    ck = core.Check('C11', tier, seed)
    ck.proof_gate(['Props/C11.v'], extra_trusted=[
        'python-docx package load/save and XML serialisation are NOT modelled: save is the identity on parts in the model; their behaviour is observed on real packages (byte or exclusive-C14N equality per member)',
        'relationship ids and the bytes of the comment-family parts are not modelled; parts no relationship reaches are dropped by python-docx on load (the generator links every optional part)',
        'harness/absdoc.py builder/reader'])
    rng = random.Random(seed)
    n = 260 if tier == 'quick' else 5000
    docrun.impl_init()
    jobs = []; meta = []
    for i in range(n):
        d = docgen.gen_doc(rng, ('full', 'plain', 'c12')[i % 3]); ex = gen_extras(rng)
        if ex.get('comments_name') and not (d['comments'] or ex.get('force_comments_part')): ex.pop('comments_name')
        b = A.build(d, ex)
        kind = rng.choice(['edits', 'edits', 'edits', 'review', 'accept_all', 'open_save'])
        arg = None
        if kind == 'edits':
            din = A.read(b, table=list(d['rpr_table'])); raw, clean = docrun.extract(b, False), docrun.extract(b, True)
            arg = E.gen_batch(rng, din, raw, clean, rng.choice(['exact', 'mixed', 'blocks', 'blocks']))
            if not arg: kind = 'open_save'
        if kind == 'review':
            ids = sorted(docrun.mark_ids(d)); cids = [c['id'] for c in d['comments']]
            arg = [(rng.choice(['ACCEPT', 'REJECT']), 'Chg:' + rng.choice(ids), None)] if ids else []
            if cids: arg.append(('REPLY', 'Com:' + rng.choice(cids), 'a reply'))
            if not arg: kind = 'open_save'
        jobs.append((b, kind, arg)); meta.append((d, ex))
    # targeted: an inline insertion at the very start of a story that follows a non-empty story, quoted with the markers of its bold
    # first run (the insertion point lies on virtual text): it must not slip into the story before
    for i in range(8 if tier == 'quick' else 80):
        d = docgen.gen_doc(rng, 'full'); ex = gen_extras(rng)
        if ex.get('comments_name') and not (d['comments'] or ex.get('force_comments_part')): ex.pop('comments_name')
        g = docgen.Gen(rng, 'plain'); g.uid = d['next_uid'] + 10
        mk = lambda txt, f=None: {'t': 'p', 'pid': g.fresh(), 'ppr': 0, 'style': ['N', False], 'nodes': [['run', g.fresh(), f, [['t', txt]]], ['run', g.fresh(), None, [['t', ' and more text %d' % i]]]]}
        if not any(st['kind'] == 0 for st in d['stories']): d['stories'].insert(0, {'kind': 0, 'blocks': [mk('Header text %d' % i)]})
        body = [st for st in d['stories'] if st['kind'] == 1][0]; word = 'Opening%d' % i
        body['blocks'].insert(0, mk(word, [[1, 1]])); d['next_uid'] = g.uid + 1000
        b = A.build(d, ex)
        new = ('In short, **%s**' if i % 2 == 0 else 'Intro line\n**%s**') % word      # inline / with a line break (fix D53)
        jobs.append((b, 'edits', [('**%s**' % word, new, None, None)])); meta.append((d, ex))
    # targeted: (a) two stories of the SAME kind in a row (running header + first-page header, likewise footers), block text inserted at
    # the very start of the second one: it belongs to that story, not to its namesake before it; (b) a section-ending paragraph with
    # text, replaced / extended by every kind of block text: the new paragraphs do not repeat the section break
    for i in range(12 if tier == 'quick' else 120):
        d = docgen.gen_doc(rng, 'plain'); ex = gen_extras(rng)
        if ex.get('comments_name') and not (d['comments'] or ex.get('force_comments_part')): ex.pop('comments_name')
        g = docgen.Gen(rng, 'plain'); g.uid = d['next_uid'] + 10
        mk = lambda txt, f=None, ppr=0: {'t': 'p', 'pid': g.fresh(), 'ppr': ppr, 'style': ['N', False], 'nodes': [['run', g.fresh(), f, [['t', txt]]], ['run', g.fresh(), None, [['t', ' and more text %d' % i]]]]}
        body = [st for st in d['stories'] if st['kind'] == 1][0]
        if i % 2 == 0:
            kind = rng.choice([0, 2]); word = 'Second%d' % i
            d['stories'] = [st for st in d['stories'] if st['kind'] != kind]
            pair = [{'kind': kind, 'blocks': [mk('Running text %d' % i)]}, {'kind': kind, 'hf': 'first', 'blocks': [mk(word, rng.choice([None, [[1, 1]]]))]}]
            d['stories'] = (pair + d['stories']) if kind == 0 else (d['stories'] + pair)
            new = rng.choice(['Intro line\n%s', '# Cover\n%s', 'DRAFT\nNot for circulation\n%s']) % word
            edits = [(word, new, rng.choice([None, 'c']), None)]
        else:
            word = 'Closing%d' % i
            body['blocks'].insert(rng.randint(0, len(body['blocks'])), mk(word, None, 5))
            body['blocks'].append(mk('Last paragraph %d' % i))
            new = rng.choice(E.BLOCK_NEWS + ['# Heading\nplain one\nplain two', '## H2 {t}\nbody']).replace('{t}', word)
            edits = [(word, new, rng.choice([None, 'c']), None)]
        d['next_uid'] = g.uid + 1000
        b = A.build(d, ex)
        jobs.append((b, 'edits', edits)); meta.append((d, ex))
    with Pool(core.NPROC, initializer=docrun.impl_init) as pool:
        res = pool.map(work, jobs, chunksize=8)
    mo = core.run_driver('package', [pkg_line(b) for b, _, _ in jobs])
    kinds = {}; distinct = set(); agree = 0; optc = {}
    for (b, kind, arg), (d, ex), (ob, err, r), m in zip(jobs, meta, res, mo):
        ck.count(); kinds[kind] = kinds.get(kind, 0) + 1
        for p in ex['parts']: optc[p[0]] = optc.get(p[0], 0) + 1
        case = {'doc': A.doc_core(d), 'extras': {k: (v if k != 'parts' else [[p[0], p[1], p[3]] for p in v]) for k, v in ex.items()}, 'session': [kind, arg]}
        if err:
            # an engine failure is judged by C08; here only note it unless it is the package layer that fails
            if 'edits' != kind or 'XmlPart' in err or 'part' in err.lower(): ck.violation('oracle', case, 'session raised ' + err)
            continue
        for f, kn in judge_session(b, ob, d, kind, arg, r):
            if kn: ck.known(kn[0], kn[1], case)
            else: ck.violation('oracle', case, f)
        # correspondence: predicted part list and main-document relationships
        so = snapshot(ob); ovo, dfo = content_types(so)
        exp_parts, exp_rels = m.split('|')
        exp_fam = sorted((core.dec(x.split(':')[0]).lstrip('/'), int(x.split(':')[1])) for x in exp_parts.split(';') if x and int(x.split(':')[1]) in (1, 2, 3, 4))
        got_fam = sorted((nm, CT_CODE[ctype_of(nm, ovo, dfo)]) for nm in so if ctype_of(nm, ovo, dfo) in CT_CODE)
        exp_r = sorted((int(x.split(':')[0]), core.dec(x.split(':')[1]).lstrip('/')) for x in exp_rels.split(';') if x and int(x.split(':')[0]) in (1, 2, 3, 4))
        got_r = sorted((RT_CODE[t], ('word/' + tgt if not tgt.startswith('../') else tgt[3:]).lstrip('/')) for _, t, tgt in doc_rels(so) if t in RT_CODE)
        if exp_fam != got_fam or exp_r != got_r:
            ck.corr_broken.append(('Package.ensure_comment_parts vs the saved package (comment-family parts and relationships)', dict(case, model_parts=exp_fam, impl_parts=got_fam, model_rels=exp_r, impl_rels=got_r)))
        else: agree += 1
        distinct.add(pkg_line(b) + kind)
    for (b, kind, arg), (d, ex) in list(zip(jobs, meta))[:3]: ck.sample({'optional_parts': [p[0] for p in ex['parts']], 'comments_name': ex.get('comments_name'), 'session': kind})
    ck.cov['traces_validated_against_impl'] = agree
    ck.cov['input_distribution'] = {'sessions': kinds, 'optional_parts': optc}
    return ck.finish(rule='generated packages (every optional part present with probability 1/2; 0-4 pre-existing comment-family parts, comments under default and non-default names) x one session '
                          '(edit batch incl. block insertions and comments, review with REPLY, accept-all, plain open+save); distinct by (package layout, session kind); all non-trivial (every session re-saves the package)',
                     distinct=len(distinct))

def replay(path):
    r = json.load(open(path)); c = r['case']; d = c['doc']; d.setdefault('features', [])
    ex = dict(c.get('extras', {})); ex['parts'] = []      # optional parts are not serialised in replays beyond their names
    docrun.impl_init(); b = A.build(d, ex)
    kind, arg = c['session']
    ob, err, rr = work((b, kind, [tuple(a) for a in arg] if arg else arg))
    if err: print('VIOLATION property=C11 replay=%s' % path); print(err); return 1
    bad = 0
    for f, kn in judge_session(b, ob, d, kind, [tuple(a) for a in arg] if arg else arg, rr):
        print(('KNOWN %s: ' % kn[0] if kn else 'FAIL: ') + f)
        if not kn: bad = 1
    if bad: print('VIOLATION property=C11 replay=%s' % path); return 1
    print('property holds on this input (or lies in a recorded region)'); return 0
