"""C16 - edit-batch property: generators in harness/editrun.py, oracle + region classification in harness/props/_judges.py,
model correspondence in harness/editrun.py (Engine.apply_edits extracted from Coq), theorems in coq/Props/C16.v"""
from harness.props import _edits, _judges as J
from harness import absdoc as A, docgen, docrun, editrun as E

def targeted(rng, tier):
    """documents whose plain runs carry explicit toggle-off / valueless toggles (<w:b w:val="0"/>, <w:i/>) x edits whose new text
    has bold / italic spans next to them"""
    out = []
    docrun.impl_init()
    for k in range(40 if tier == 'quick' else 800):
        d = docgen.gen_doc(rng, 'plain')
        def walk(blocks):
            for b in blocks:
                if b['t'] == 'p':
                    for n in b['nodes']:
                        for x in ([n] if n[0] == 'run' else [y for y in n[3] if y[0] == 'run'] if n[0] in ('ins', 'del') else []):
                            if not x[2] and rng.random() < .6: x[2] = [rng.choice([[1, 0], [2, 0], [1, 1], [2, 1], [1, 3], [2, 4]])] + ([[100, 0]] if rng.random() < .3 else [])
                else:
                    for r in b['rows']:
                        for c in r: walk(c['blocks'])
        for st in d['stories']: walk(st['blocks'])
        b = A.build(d); din = A.read(b, table=list(d['rpr_table']))
        acc = [a for a in E.para_texts(din, 'acc') if a.strip()]
        if not acc: continue
        t = E.pick_target(rng, rng.choice(acc))
        if not t: continue
        new = rng.choice(['{t} **bold**', '**b1** {t}', '{t} _it_ and **bo**', '**_both_** {t}', 'x **y** z', '_i1_ {t} _i2_']).replace('{t}', t)
        out.append((d, [(t, new, None, None)]))
    # a target running from a heading paragraph into the paragraph after it, replaced by block text that opens with a heading line of
    # that level (or another one): the line becomes a heading paragraph - the paragraph the LAST target run sits in decides about
    # keeping it inline, not the one the target starts in
    for k in range(12 if tier == 'quick' else 240):
        d = docgen.gen_doc(rng, 'plain')
        ps = [b for b in next(st for st in d['stories'] if st['kind'] == 1)['blocks'] if b['t'] == 'p']
        lvl = rng.randint(1, 3)
        for b in ps[:-1]:
            if rng.random() < .5: b['style'] = ['H', lvl]
        bts = A.build(d); din = A.read(bts, table=list(d['rpr_table'])); raw = docrun.extract(bts, False)
        tx = E.para_texts(din, 'acc'); st = [q['style'] for q in A.paras(din)]
        cands = [i for i in range(len(tx) - 1) if st[i][0] == 'H' and len(tx[i].strip()) > 3 and len(tx[i + 1].strip()) > 3]
        rng.shuffle(cands)
        for i in cands:
            t = tx[i][-rng.randint(2, 5):] + '\n\n' + tx[i + 1][:rng.randint(2, 5)]
            if raw.count(t) == 1 and not any(ch in t for ch in '{}|*_'):
                new = '#' * (st[i][1] if rng.random() < .7 else rng.randint(1, 3)) + ' New Title\n\nNew body'
                out.append((d, [(t, new, rng.choice([None, 'c']), None)])); break
    return out
PID = 'C16'
def run(tier, seed):
    return _edits.run_property(PID, tier, seed, ['Props/C16.v'], ('exact', 'exact', 'blocks'), J.judge_C16, 'single edits at every position relative to formatting boundaries with new text with none / one / several bold-italic spans and literal punctuation; multi-line and heading new text (new paragraphs: shared formatting per line, heading styles, spans); targeted: runs with explicit toggle values x new text with spans next to them', targeted=targeted)
def replay(path):
    return _edits.replay_case(path, J.judge_C16, PID)
