"""C16 - edit-batch property: generators in harness/editrun.py, oracle + region classification in harness/props/_judges.py,
model correspondence in harness/editrun.py (Engine.apply_edits extracted from Coq), theorems in coq/Props/C16.v"""
from harness.props import _edits, _judges as J
PID = 'C16'
def run(tier, seed):
    return _edits.run_property(PID, tier, seed, ['Props/C16.v'], ('exact',), J.judge_C16, 'single edits at every position relative to formatting boundaries with new text with none / one / several bold-italic spans and literal punctuation')
def replay(path):
    return _edits.replay_case(path, J.judge_C16, PID)
