"""C13 - computed diffs are exact, non-overlapping edit scripts.
Theorems: Props/C13.v (for every contract-satisfying diff list).  Correspondence: Diff.edits_of_diffs / Diff.tokens
(extracted) vs adeu.diff.generate_edits_from_text / _words_to_chars on every pair of an exhaustive small scope,
with the diff list that diff-match-patch really produced inside the call (recorded by wrapping).  Oracle: the
property statement evaluated with plain string operations on the implementation's output."""
import itertools, json, os, random, sys
from multiprocessing import Pool
from harness import core

ALPHAS = {
    'ascii': ['a', 'b', ' ', '\n', '.'],
    'unicode': ['a', '\U0001F600', '́', ' ', '\n'],   # non-BMP, combining
    'mixed': ['a', 'B', '1', ' ', ',', 'é'],
}

# ---------------------------------------------------------------- independent helpers (no adeu code)
def py_isspace(c): return c.isspace()
def py_isword(c): return c.isalnum() or c == '_'
def indep_tokens(s):
    """whitespace run | word run | single other char  (what the property calls word/whitespace/punctuation tokens)"""
    out = []; i = 0
    while i < len(s):
        j = i + 1
        if py_isspace(s[i]):
            while j < len(s) and py_isspace(s[j]): j += 1
        elif py_isword(s[i]):
            while j < len(s) and py_isword(s[j]): j += 1
        out.append(s[i:j]); i = j
    return out
def boundaries(s):
    b = {0}; k = 0
    for t in indep_tokens(s):
        k += len(t); b.add(k)
    return b

def oracle(t1, t2, edits):
    """edits: list of (idx, target, new). Returns None or a description of what fails."""
    if t1 == t2 and edits:
        return 'identical texts gave %d edits' % len(edits)
    cur = 0; out = []
    for k, (i, tg, nw) in enumerate(edits):
        if i is None or i < cur: return 'edit %d overlaps the previous one or is out of order (index %r < %d)' % (k, i, cur)
        if t1[i:i + len(tg)] != tg or i + len(tg) > len(t1): return 'edit %d: target %r is not text1[%d:%d]=%r' % (k, tg, i, i + len(tg), t1[i:i + len(tg)])
        out.append(t1[cur:i]); out.append(nw); cur = i + len(tg)
    out.append(t1[cur:])
    if ''.join(out) != t2: return 'applying the script gives %r, expected %r' % (''.join(out), t2)
    # whole tokens: the differing part of a replacement/deletion
    b1 = boundaries(t1); b2 = boundaries(t2)
    for k, (i, tg, nw) in enumerate(edits):
        is_ins = tg == '' or nw.startswith(tg) and len(nw) > len(tg) or nw.endswith(tg) and len(nw) > len(tg)
        if is_ins: continue
        if i not in b1 or i + len(tg) not in b1: return 'edit %d: target %r cuts a token of text 1' % (k, tg)
        toks2 = indep_tokens(t2)
        # new text must be a contiguous run of whole tokens of text 2
        if nw:
            ok = any(''.join(toks2[a:b]) == nw for a in range(len(toks2)) for b in range(a + 1, len(toks2) + 1))
            if not ok: return 'edit %d: new text %r is not made of whole tokens of text 2' % (k, nw)
    return None

# ---------------------------------------------------------------- worker (implementation side)
_rec = {}
def _init():
    core.use_repo()
    import adeu.diff as D
    from diff_match_patch import diff_match_patch as DMP
    class Rec(DMP):
        def diff_charsToLines(self, diffs, arr):
            DMP.diff_charsToLines(self, diffs, arr)
            _rec['diffs'] = [(o, x) for o, x in diffs]
    D.diff_match_patch = Rec
    _rec['D'] = D

def contract(diffs, t1, t2):
    if ''.join(x for o, x in diffs if o != 1) != t1: return 'Eq+Del pieces do not spell text 1'
    if ''.join(x for o, x in diffs if o != -1) != t2: return 'Eq+Ins pieces do not spell text 2'
    if any(diffs[i][0] == -1 and diffs[i + 1][0] == -1 for i in range(len(diffs) - 1)): return 'two deletions in a row'
    b1 = boundaries(t1); b2 = boundaries(t2); c1 = c2 = 0
    for o, x in diffs:
        if o != 1: c1 += len(x)
        if o != -1: c2 += len(x)
        if c1 not in b1 or c2 not in b2: return 'piece %r is not token aligned' % (x,)
    return None

def work(pairs):
    D = _rec['D']; res = []
    for t1, t2 in pairs:
        _rec['diffs'] = None
        try:
            es = D.generate_edits_from_text(t1, t2)
            edits = [(e._match_start_index, e.target_text, e.new_text or '') for e in es]
            err = None
        except Exception as ex:
            edits = []; err = 'raised %s: %s' % (type(ex).__name__, ex)
        diffs = _rec['diffs'] or []
        c1, c2, arr = D._words_to_chars(t1, t2)
        toks = [arr[ord(c)] for c in c1]
        res.append((edits, diffs, err, toks))
    return res

def chunks(l, n):
    for i in range(0, len(l), n): yield l[i:i + n]

def gen_pairs(alpha, l1, l2):
    s1 = [''.join(t) for n in range(l1 + 1) for t in itertools.product(alpha, repeat=n)]
    s2 = [''.join(t) for n in range(l2 + 1) for t in itertools.product(alpha, repeat=n)]
    return [(a, b) for a in s1 for b in s2]

def random_pairs(rng, n):
    words = ['alpha', 'beta', 'gamma', 'The', 'quick', 'fox', 'x', '42', 'café', 'naïve', '\U0001F600', 'é', 'end.', '(a)', 'foo_bar']
    seps = [' ', ' ', ' ', '  ', '\n', '\n\n', ', ', '. ', '\t', '']
    out = []
    for _ in range(n):
        toks = []
        for _ in range(rng.randint(0, 14)):
            toks.append(rng.choice(words)); toks.append(rng.choice(seps))
        t1 = ''.join(toks)
        t = indep_tokens(t1)
        for _ in range(rng.randint(0, 4)):
            k = rng.randint(0, len(t)); op = rng.random()
            if op < .35: t[k:k] = [rng.choice(words), ' ']
            elif op < .7 and t: del t[min(k, len(t) - 1)]
            elif t: t[min(k, len(t) - 1)] = rng.choice(words)
        out.append((t1, ''.join(t)))
    return out

def model_line(t1, diffs): return core.enc(t1) + ';' + ';'.join('%d:%s' % (o, core.enc(x)) for o, x in diffs)
def impl_line(edits, t2_applied): return ';'.join('%d:%s:%s' % (i, core.enc(t), core.enc(n)) for i, t, n in edits)

def evaluate(ck, pairs, label, pool):
    """runs impl + model on pairs, fills ck; returns number of nontrivial (non-identical) cases"""
    results = []
    for r in pool.imap(work, list(chunks(pairs, 400))): results += r
    lines = [model_line(t1, d) for (t1, t2), (e, d, err, tk) in zip(pairs, results)]
    mout = core.run_driver('diff', lines)
    tlines = [core.enc(t1) for (t1, t2) in pairs]
    tout = core.run_driver('tokens', tlines)
    nontrivial = 0
    for (t1, t2), (edits, diffs, err, toks), mo, to in zip(pairs, results, mout, tout):
        ck.count()
        case = {'alphabet': label, 't1': t1, 't2': t2}
        if err:
            ck.violation('oracle', case, 'generate_edits_from_text ' + err); continue
        if edits: nontrivial += 1
        o = oracle(t1, t2, edits)
        if o:
            ck.violation('oracle', dict(case, edits=edits), o); continue
        c = contract(diffs, t1, t2)
        if c:
            ck.corr_broken.append(('diff-match-patch contract (valid_diff / token alignment): ' + c, dict(case, diffs=diffs)))
        got, applied = mo.split('|') if '|' in mo else (mo, '')
        if got != impl_line(edits, None):
            ck.corr_broken.append(('Diff.edits_of_diffs vs generate_edits_from_text', dict(case, impl=edits, model=got, diffs=diffs)))
        elif not c and applied != core.enc(t2):
            ck.corr_broken.append(('model apply_script does not give text 2 although the contract holds', dict(case, model=mo)))
        if to != '|'.join(core.enc(t) for t in toks):
            ck.corr_broken.append(('Diff.tokens vs _words_to_chars tokenisation', dict(case, impl=toks, model=to)))
    return nontrivial, results

def run(tier, seed):
    ck = core.Check('C13', tier, seed)
    ck.proof_gate(['Props/C13.v'], extra_trusted=[
        'diff-match-patch (diff_main, diff_cleanupSemantic, diff_charsToLines) is NOT modelled: its output is an input of the model; '
        'the contract the theorems assume (valid_diff, token alignment) is checked on every diff list it produced in this run',
        'Python re / str.isspace / str.isalnum: the tokenizer model is generic in isspace/isword and instantiated with tables that are compared with Python on every character the generators use',
        'hand-written: harness/props/C13.py (generators, independent string oracle), Extract/driver.ml'])
    rng = random.Random(seed)
    if tier == 'quick':
        scopes = [('ascii', 4, 3), ('unicode', 3, 3), ('mixed', 3, 2)]; nrand = 3000
    else:
        scopes = [('ascii', 5, 5), ('unicode', 5, 4), ('mixed', 4, 4)]; nrand = 60000
    nontriv = 0; dist = {}
    with Pool(core.NPROC, initializer=_init) as pool:
        # corpus first
        cp = os.path.join(core.VERIF, 'corpus', 'C13.json')
        if os.path.exists(cp):
            pairs = [tuple(p) for p in json.load(open(cp))]
            n, _ = evaluate(ck, pairs, 'corpus', pool); nontriv += n; dist['corpus'] = len(pairs)
        for name, l1, l2 in scopes:
            pairs = gen_pairs(ALPHAS[name], l1, l2)
            n, res = evaluate(ck, pairs, name, pool); nontriv += n
            dist['exhaustive %s |t1|<=%d |t2|<=%d' % (name, l1, l2)] = len(pairs)
            for (t1, t2), (e, d, err, tk) in list(zip(pairs, res))[len(pairs) // 2: len(pairs) // 2 + 2]:
                ck.sample({'t1': t1, 't2': t2, 'diffs': d, 'edits': e})
        pairs = random_pairs(rng, nrand)
        n, res = evaluate(ck, pairs, 'random', pool); nontriv += n; dist['random longer pairs'] = len(pairs)
        kinds = {'deletion': 0, 'replacement': 0, 'insertion': 0}
        for (t1, t2), (e, d, err, tk) in zip(pairs, res):
            for i, tg, nw in e:
                kinds['deletion' if not nw else 'insertion' if (tg == '' or nw.startswith(tg) or nw.endswith(tg)) else 'replacement'] += 1
        ck.sample({'t1': pairs[0][0], 't2': pairs[0][1], 'edits': res[0][0]})
        # cross-check path: vm_compute inside coqc on a sample, must equal the OCaml driver
        sample = [(p, r) for p, r in zip(pairs[:150], res[:150])]
        exprs = ['edits_of_diffs %s [%s]' % (core.coq_str(t1), ';'.join('(%s,%s)' % ({0: 'OEq', -1: 'ODel', 1: 'OIns'}[o], core.coq_str(x)) for o, x in d)) for (t1, t2), (e, d, err, tk) in sample]
        try:
            vm = core.vm_compute_lines('From Coq Require Import List NArith. Import ListNotations. From Adeu Require Import Str Diff.', exprs, tag='c13')
            import re
            for ((t1, t2), (e, d, err, tk)), v in zip(sample, vm):
                got = [(int(a), core.coq_N_list_to_py(b), core.coq_N_list_to_py(c)) for a, b, c in re.findall(r'e_idx := (\d+); e_tgt := (\[[^\]]*\]); e_new := (\[[^\]]*\])', v)]
                if got != [(i, t, n) for i, t, n in e]:
                    ck.corr_broken.append(('vm_compute vs implementation (extraction cross-check)', {'t1': t1, 't2': t2, 'vm': v, 'impl': e}))
            ck.cov['vm_compute_cross_checked'] = len(vm)
        except RuntimeError as ex:
            ck.corr_broken.append(('vm_compute cross-check did not run', {'log': str(ex)[-1500:]}))
    ck.cov['traces_validated_against_impl'] = ck.cov['evaluations']
    return ck.finish(
        rule='exhaustive: every pair (t1,t2) over the listed alphabets up to the listed lengths; random: token-level rewrites of random word texts. '
             'A case is non-trivial when the implementation returns at least one edit; pairs are distinct by construction (enumeration) or counted as generated (random).',
        distinct=nontriv, extra={'input_distribution': dist, 'edit_kinds_random': kinds, 'exhaustive': True})

def replay(path):
    r = json.load(open(path)); c = r['case']
    _init()
    (edits, diffs, err, toks), = work([(c['t1'], c['t2'])])
    o = err or oracle(c['t1'], c['t2'], edits)
    print('edits', edits); print('diffs', diffs)
    if o:
        print('VIOLATION property=C13 replay=%s' % path); print(o); return 1
    print('property holds on this input'); return 0
