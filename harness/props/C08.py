"""C08 - edit-batch property: generators in harness/editrun.py, oracle + region classification in harness/props/_judges.py,
model correspondence in harness/editrun.py (Engine.apply_edits extracted from Coq), theorems in coq/Props/C08.v"""
from harness.props import _edits, _judges as J
PID = 'C08'
def run(tier, seed):
    return _edits.run_property(PID, tier, seed, ['Props/C08.v'], ('mixed','mixed','exact','blocks'), J.judge_C08, 'random documents x batches mixing locatable, unlocatable, empty-target, duplicate, mutually overlapping and raw-view (markup-bearing) targets in shuffled order')
def replay(path):
    return _edits.replay_case(path, J.judge_C08, PID)
