"""C04 - the text projection is complete, ordered and correctly annotated.
Theorems: Props/C04.v.  Correspondence: Project.extract (extracted) vs adeu.ingest.extract_text_from_stream, both views,
on generated documents with every feature.  Oracle: the returned string is parsed back (independent CriticMarkup reader)
and compared with an independent lxml reading of the DOCX (visible characters in order, annotation kinds, ids, accept(raw)
= clean, marker/newline isolation, balanced and un-nested delimiters)."""
import io, json, random, re, zipfile
from multiprocessing import Pool
from lxml import etree
from harness import core, absdoc as A, docgen, docrun

def work(b):
    try: return (docrun.extract(b, False), docrun.extract(b, True)), None
    except Exception as e: return None, '%s: %s' % (type(e).__name__, e)

# ----------------------------------------------------------------------------- independent reading of the DOCX (lxml only)
q = A.q
def story_parts(b):
    """part names in the documented order: headers (default, first if titlePg), body, footers"""
    d = A.read(b)
    return [s['part'] for s in d['stories']]
CHAR_COMS = []      # per visible character (same order as visible_chars' list): ids of the comment ranges it lies in
def visible_chars(b):
    """[(char, kind, chg_id)] in document order over all stories. kind: n / i / d / h (inside a comment range, unmarked).
    Includes text inside hyperlinks; excludes nothing."""
    z = zipfile.ZipFile(io.BytesIO(b)); out = []; text_ids = set(); com_ids = set(); CHAR_COMS.clear()
    for part in story_parts(b):
        root = etree.fromstring(z.read(part))
        for p in root.iter(q('p')):
            if any(a.tag == q('comment') for a in p.iterancestors()): continue
            active = set()
            for el in p.iter():
                if el.tag == q('commentRangeStart'): active.add(el.get(q('id')))
                elif el.tag == q('commentRangeEnd'): active.discard(el.get(q('id')))
                elif el.tag in (q('t'), q('delText'), q('tab'), q('br'), q('cr')):
                    anc = list(el.iterancestors())
                    if not any(a is p for a in anc): continue
                    pi = next((k for k, a in enumerate(anc) if a.tag == q('p')), None)
                    if anc[pi] is not p: continue            # belongs to a nested paragraph (table in a text box ...)
                    dele = next((a for a in anc[:pi] if a.tag == q('del')), None); ins = next((a for a in anc[:pi] if a.tag == q('ins')), None)
                    kind = 'd' if dele is not None else 'i' if ins is not None else 'h' if active else 'n'
                    s = (el.text or '') if el.tag in (q('t'), q('delText')) else ' ' if el.tag == q('tab') else '\n'
                    for ch in s.replace('\t', ' '): out.append((ch, kind)); CHAR_COMS.append(frozenset(active))
                    if s:
                        if dele is not None: text_ids.add('Chg:' + (dele.get(q('id')) or ''))
                        if ins is not None: text_ids.add('Chg:' + (ins.get(q('id')) or ''))
                        for c in active: com_ids.add('Com:' + c)
    return out, text_ids, com_ids

BLOCK = re.compile(r'\{--(.*?)--\}|\{\+\+(.*?)\+\+\}|\{==(.*?)==\}|\{>>(.*?)<<\}', re.S)
DELIMS = re.compile(r'\{--|--\}|\{\+\+|\+\+\}|\{==|==\}|\{>>|<<\}')
NEXT_META = []      # per character of parse_raw's list: index of the first metadata block after it (None: there is none)
def parse_raw(s):
    """-> ([(char, kind)], metas, wellformed, accept_view_string)"""
    out = []; metas = []; pos = 0; acc = []
    wf = True; NEXT_META.clear(); pending = []
    def mark(n):
        for _ in range(n): pending.append(len(NEXT_META)); NEXT_META.append(None)
    for m in BLOCK.finditer(s):
        plain = s[pos:m.start()]; pos = m.end()
        if DELIMS.search(plain): wf = False
        out += [(c, 'n') for c in plain]; acc.append(plain); mark(len(plain))
        d, i, h, c = m.groups()
        body = d if d is not None else i if i is not None else h if h is not None else c
        if c is None and DELIMS.search(body): wf = False
        if d is not None: out += [(x, 'd') for x in d]; mark(len(d))
        elif i is not None: out += [(x, 'i') for x in i]; acc.append(i); mark(len(i))
        elif h is not None: out += [(x, 'h') for x in h]; acc.append(h); mark(len(h))
        else:
            metas.append(c)
            for k in pending: NEXT_META[k] = len(metas) - 1
            pending.clear()
    tail = s[pos:]
    if DELIMS.search(tail): wf = False
    out += [(c, 'n') for c in tail]; acc.append(tail); mark(len(tail))
    return out, metas, wf, ''.join(acc)
def squash(seq):
    """drop whitespace and the virtual characters of the projection (markers, heading marks, cell bars)"""
    return [(c, k) for c, k in seq if not c.isspace() and c not in '*_#|']

def region_d36(din):
    """a story or a table whose raw text is non-empty while its accepted text is empty (everything in it is tracked-deleted)"""
    def texts(bl):
        raw = acc = ''
        for b in bl:
            if b['t'] == 'p':
                at = A.atoms(b['nodes']); raw += A.text_of(at); acc += A.text_of(A.acc_atoms(at))
            else:
                r2 = a2 = ''
                for r in b['rows']:
                    for c in r:
                        x, y = texts(c['blocks']); r2 += x; a2 += y
                if r2.strip() and not a2.strip(): raise StopIteration
                raw += r2; acc += a2
        return raw, acc
    try:
        for s in din['stories']:
            r, a = texts(s['blocks'])
            if r.strip() and not a.strip(): return True
    except StopIteration: return True
    return False

def oracle(d, b, raw, clean):
    feats = set(d.get('features', []))
    chars, text_ids, com_ids = visible_chars(b)
    got, metas, wf, acc = parse_raw(raw)
    if not wf: return 'CriticMarkup delimiters are unbalanced or nested', None
    exp = squash(chars); g = squash(got)
    if [c for c, _ in g] != [c for c, _ in exp]:
        return 'raw view does not show every visible character exactly once and in order: %s' % json.dumps(docrun.first_diff(''.join(c for c, _ in exp), ''.join(c for c, _ in g))), ('D13' if 'hyperlink' in feats else 'D12' if 'vmerge' in feats else None)
    if g != exp:
        k = next(i for i in range(len(g)) if g[i] != exp[i])
        return 'annotation mismatch at visible character %d %r: shown as %s, document says %s' % (k, g[k][0], g[k][1], exp[k][1]), None
    listed = set(re.findall(r'\[((?:Chg|Com):[^\]]*)\]', '\n'.join(metas)))
    want = text_ids | com_ids
    if listed != want:
        miss = want - listed; extra = listed - want
        known = None
        # replies listed through their parent's thread are fine; point comments are the recorded finding D11
        replies = {'Com:' + c['id'] for c in d['comments'] if c.get('parent')}
        extra -= replies
        if not miss and not extra: pass
        else: return 'identifiers listed %s, expected %s (missing %s, unexpected %s)' % (sorted(listed), sorted(want), sorted(miss), sorted(extra)), known
    # locally: every character inside a comment range is followed by a metadata block that lists that comment
    keep = lambda c: not c.isspace() and c not in '*_#|'
    doc_pos = [i for i, (c, k) in enumerate(chars) if keep(c)]; raw_pos = [i for i, (c, k) in enumerate(got) if keep(c)]
    for dp, rp in zip(doc_pos, raw_pos):
        need = CHAR_COMS[dp]
        if not need: continue
        mi = NEXT_META[rp]
        have = set(re.findall(r'\[Com:([^\]]*)\]', metas[mi])) if mi is not None else set()
        if not need <= have:
            return 'the character %r (visible position %d) lies in the range of comment(s) %s but the metadata that follows it lists %s' % (chars[dp][0], dp, sorted(need), sorted(have)), None
    cexp = squash([(c, 'n') for c, k in chars if k != 'd'])
    if DELIMS.search(clean): return 'accepted view contains annotations', None
    if squash([(c, 'n') for c in clean]) != cexp: return 'accepted view does not show exactly the non-deleted visible characters', ('D13' if 'hyperlink' in feats else None)
    if acc != clean:
        if region_d36(A.read(b)): return 'accept(raw) differs from the accepted view', 'D36'
        return 'reading the raw view with every annotation accepted differs from the accepted view: %s' % json.dumps(docrun.first_diff(clean, acc)), None
    for line in raw.split('\n'):
        ln = BLOCK.sub(lambda m: m.group(0) if m.group(4) is None else '', line)
        if ln.count('**') % 2 or ln.replace('**', '').count('_') % 2:
            return 'a bold/italic marker pair encloses a line break: %r' % line, None
    return None, None

def targeted(rng):
    """comment ranges ending between adjacent redlines, point comments, comments inside insertions"""
    docs = []
    for v in range(12):
        g = docgen.Gen(rng, 'full')
        def run(t, f=None, dt=False): return ['run', g.fresh(), f, [['dt' if dt else 't', t]]]
        c1 = g.add_comment(); ns = [run('Lead ')]
        g.rev = 4 + v          # revision ids differ from the comment's id (a reader that confuses the two must show)
        if v % 4 == 0: ns += [['crs', c1], ['del', g.fresh(), g.mark('Bob Smith'), [run('old ', None, True)]], ['cre', c1], ['ins', g.fresh(), g.mark('Bob Smith'), [run('new ')]], run(' tail'), g.ref_run(c1)]
        elif v % 4 == 1: ns += [['ins', g.fresh(), g.mark(), [['crs', c1], run('first '), ['cre', c1], run('second ')]], ['ins', g.fresh(), g.mark(), [run('third')]], run(' x'), g.ref_run(c1)]
        elif v % 4 == 2: ns += [['crs', c1], run('commented '), ['del', g.fresh(), g.mark(), [run('gone', None, True)]], ['cre', c1], g.ref_run(c1), ['ins', g.fresh(), g.mark(), [run('added')]]]
        else: ns += [['crs', c1], ['cre', c1], g.ref_run(c1), run('point comment before this')]
        if v in (5, 9):      # a comment that starts inside an insertion and ends after it / starts in plain text and ends inside one
            c2 = g.add_comment()
            if v == 5: ns += [run(' and '), ['ins', g.fresh(), g.mark(), [run('opening '), ['crs', c2], run('inside ')]], run('outside '), ['cre', c2], g.ref_run(c2), run('after')]
            else: ns += [run(' and '), ['crs', c2], run('before '), ['ins', g.fresh(), g.mark(), [run('inside '), ['cre', c2], run('rest ')]], g.ref_run(c2), run('after')]
        g.pid += 1
        d = {'stories': [{'kind': 1, 'blocks': [{'t': 'p', 'pid': g.pid, 'ppr': 0, 'style': ['N', False], 'nodes': ns}]}], 'comments': g.comments,
             'next_uid': g.uid + 1000, 'rpr_table': g.table_list(), 'features': ['targeted'] + (['point_comment'] if v % 4 == 3 else [])}
        if v >= 8: d['stories'].insert(0, {'kind': 0, 'hf': 'first', 'blocks': [{'t': 'p', 'pid': 900 + v, 'ppr': 0, 'style': ['N', False], 'nodes': [run('Cover page header %d' % v)]}]})
        docs.append(d)
    return docs

def run(tier, seed):
    ck = core.Check('C04', tier, seed)
    ck.proof_gate(['Props/C04.v'], extra_trusted=[
        'harness/absdoc.py reader and the lxml walk in this file: independent of adeu and python-docx; trusted',
        'PAGE/NUMPAGES field hiding, vMerge cell repetition and hyperlink text are outside the model (oracle only; D12/D13 are recorded findings)',
        'character classes of the heading heuristic: tables compared with Python on the generator alphabet'])
    rng = random.Random(seed)
    n = 700 if tier == 'quick' else 15000
    fdocs = []
    for fid, case in core.finding_cases('C04'):
        d = dict(case['doc']); d.setdefault('features', []); d['features'] = list(d['features']) + ['finding:' + fid] + (['hyperlink'] if fid == 'D13' else []) + (['point_comment'] if fid == 'D11' else [])
        fdocs.append(d)
    docs = fdocs + targeted(rng) + [docgen.gen_doc(rng, 'full') for _ in range(n)]
    blobs = [A.build(d) for d in docs]
    with Pool(core.NPROC, initializer=docrun.impl_init) as pool:
        outs = pool.map(work, blobs, chunksize=16)
    ins = [A.read(b, table=list(d['rpr_table'])) for b, d in zip(blobs, docs)]
    lines = []
    for din in ins:
        sx = A.sx_doc(din); lines += ['(0 %s)' % sx, '(1 %s)' % sx]
    mo = core.run_driver('nspans', lines)
    feats = {}; distinct = set()
    for k, (d, b, (res, err)) in enumerate(zip(docs, blobs, outs)):
        ck.count()
        for f in d['features']: feats[f] = feats.get(f, 0) + 1
        case = {'doc': A.doc_core(d)}
        if err: ck.violation('oracle', case, 'extract_text_from_stream raised ' + err); continue
        raw, clean = res
        fail, known = oracle(d, b, raw, clean)
        if fail and known:
            ck.known(known, {'D36': 'a story or table whose text is entirely tracked-deleted keeps its separator in the raw view but vanishes from the accepted view, so accept(raw) differs from the accepted view by that separator',
                             'D13': 'text inside w:hyperlink is not shown by the projection', 'D12': 'a vertically merged cell repeats the text of the cell above',
                             'D11': 'point comments are not rendered'}[known])
        elif fail: ck.violation('oracle', dict(case, raw=raw, clean=clean), fail)
        if 'point_comment' in d['features'] and '[Com:' not in raw: ck.known('D11', 'point comments (range start immediately followed by its end) are not rendered')
        outside_model = any(f in ('vmerge', 'finding:D12') for f in d['features'])      # vMerge cell repetition is not modelled
        for view, txt in (() if outside_model else ((0, raw), (1, clean))):
            mt = ''.join(core.dec(x.split(':')[0]) for x in mo[2 * k + view].split(';') if x)
            if mt != txt: ck.corr_broken.append(('Project.extract vs extract_text_from_stream (%s view)' % ('raw' if view == 0 else 'accepted'), dict(case, diff=docrun.first_diff(txt, mt))))
        if raw != clean: distinct.add(raw)
    for d, (res, err) in list(zip(docs, outs))[12:14]: ck.sample({'stories': d['stories'], 'comments': d['comments'], 'raw': res and res[0], 'clean': res and res[1]})
    ck.cov['traces_validated_against_impl'] = 2 * ck.cov['evaluations']
    return ck.finish(
        rule='targeted paragraphs (comment ranges ending between adjacent redlines, comments inside insertions, point comments, cover-page headers) + random documents with all features '
             '(tables incl. nested/merged/empty cells, headings, headers/footers incl. first-page, ins/del by several authors, comment threads, tabs/breaks, hyperlinks, drawings); '
             'non-trivial = raw and accepted views differ (the document carries annotations); distinct by raw text',
        distinct=len(distinct), extra={'input_distribution': feats})

def replay(path):
    r = json.load(open(path)); d = r['case']['doc']; d.setdefault('features', [])
    docrun.impl_init(); b = A.build(d); res, err = work(b)
    if err: print('VIOLATION property=C04 replay=%s' % path); print(err); return 1
    fail, known = oracle(d, b, *res); print(repr(res[0]))
    if fail and not known: print('VIOLATION property=C04 replay=%s' % path); print(fail); return 1
    print('property holds on this input' if not fail else 'known finding ' + known); return 0
