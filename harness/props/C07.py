"""C07 - multi-round negotiation keeps the document consistent.
Histories of sessions with a real save / reload through bytes between steps. Every step is judged by its single-step oracle
relative to the bytes it loaded (C01 reversibility for edit rounds, the tape-level reference for ACCEPT/REJECT, the reply
oracle, accept-all = accepted view), ids must stay unique per part across rounds and authors, and the Gallina model
(History.run_session, extracted) is run on the reader's abstraction of the loaded bytes and compared with the saved bytes."""
import io, itertools, json, random
from multiprocessing import Pool
from harness import core, absdoc as A, docgen, docrun, editrun as E
from harness.props import _judges as J, C06, C10

AUTHORS = ['Reviewer Z', 'Counsel B']

def run_history(job):
    """implementation side, sequential: returns list of per-step dicts"""
    b0, steps = job
    out = []; b = b0
    for st in steps:
        rec = {'kind': st[0], 'in': b}
        try:
            if st[0] == 'edits':
                r = docrun.engine_edits(b, st[2], st[1]); rec.update(r)
                if r['err']: out.append(rec); break
                b = r['out']
            elif st[0] == 'review':
                ap, sk, ob = docrun.engine_review(b, st[2], st[1]); rec.update(ap=ap, sk=sk, out=ob, err=None); b = ob
            else:
                ob = docrun.engine_accept_all(b); rec.update(out=ob, err=None); b = ob
        except Exception as ex:
            rec['err'] = '%s: %s' % (type(ex).__name__, ex); out.append(rec); break
        out.append(rec)
    return out

def plan(rng, d, length):
    """a history plan; targets of later rounds are chosen when they run (they depend on the document then) - so plans carry generators"""
    kinds = []
    for k in range(length):
        x = rng.random()
        kinds.append('edits' if x < .5 or k == 0 else 'review' if x < .85 else 'accept_all')
    return kinds

def build_steps(rng, b, kinds):
    """materialise a plan step by step on the implementation (each step's inputs depend on the document as it stands)"""
    steps = []; cur = b
    docrun.impl_init()
    for k, kind in enumerate(kinds):
        din = A.read(cur)
        if kind == 'edits':
            raw, clean = docrun.extract(cur, False), docrun.extract(cur, True)
            edits = [e for e in E.gen_batch(rng, din, raw, clean, rng.choice(['exact', 'exact', 'mixed'])) if '\n' not in e[1] and not e[1].startswith('#')]      # 'mixed': larger batches that go through the accepted-view fallback, duplicates, overlaps, unlocatable targets
            if not edits: kind = 'accept_all'
            else: st = ('edits', AUTHORS[k % 2], edits)
        if kind == 'review':
            ids = sorted(docrun.mark_ids(din)); cids = [c['id'] for c in din['comments']]
            acts = []
            for _ in range(rng.randint(1, 3)):
                x = rng.random()
                if x < .6 and ids: acts.append((rng.choice(['ACCEPT', 'REJECT']), 'Chg:' + rng.choice(ids), None))
                elif x < .85 and cids: acts.append(('REPLY', 'Com:' + rng.choice(cids), 'reply in round %d' % k))
                else: acts.append((rng.choice(['ACCEPT', 'REJECT', 'REPLY']), rng.choice(['Chg:9999', 'Com:9999']), 'x'))
            st = ('review', AUTHORS[(k + 1) % 2], acts)
        if kind == 'accept_all': st = ('accept_all',)
        steps.append(st)
        (rec,) = run_history((cur, [st]))[:1] or [None]
        if rec is None or rec.get('err'): break
        cur = rec['out']
    return steps

def run(tier, seed):
    ck = core.Check('C07', tier, seed)
    ck.proof_gate(['Props/C07.v'], extra_trusted=[
        'save/reload goes through real DOCX bytes (python-docx) on the implementation side and through the lxml reader on the model side',
        'per-step oracles are those of C01, C06 and C10; matcher answers of the non-exact stages are recorded per step',
        'random paraIds/durableIds and timestamps are canonicalised (a date that does not occur in the loaded document is the round\'s timestamp)'])
    rng = random.Random(seed)
    n = 70 if tier == 'quick' else 1500
    jobs = []
    docrun.impl_init()
    for i in range(n):
        d = docgen.gen_doc(rng, ('plain', 'full', 'full')[i % 3]); b = A.build(d)
        kinds = plan(rng, d, rng.randint(2, 4 if tier == 'quick' else 8))
        steps = build_steps(rng, b, kinds)
        if steps: jobs.append((b, steps, d))
    with Pool(core.NPROC, initializer=docrun.impl_init) as pool:
        res = pool.map(run_history, [(b, s) for b, s, d in jobs], chunksize=2)
    stats = {'edits': 0, 'review': 0, 'accept_all': 0, 'model_steps_agree': 0, 'model_outside': 0}; distinct = set(); lens = {}
    for (b0, steps, d), recs in zip(jobs, res):
        ck.count(); lens[len(steps)] = lens.get(len(steps), 0) + 1
        hist = {'doc': A.doc_core(d), 'steps': steps}
        table = list(d['rpr_table'])
        for k, (st, rec) in enumerate(zip(steps, recs)):
            stats[st[0]] += 1
            case = dict(hist, failing_step=k)
            if rec.get('err'):
                if st[0] == 'edits':
                    # classify by the model's verdict
                    din = A.read(rec['in'], table=table)
                    (m,) = core.run_driver('edits', [docrun.sx_edits_line(din, st[1], st[2], rec.get('oracle', []))])
                    code = int(m.split('|')[0].split()[2]) if '|' in m else 0
                    f, kn = J.classify({'outside': code, 'nn': int(m.split('|')[0].split()[3]) if '|' in m else 0, 'xp': int(m.split('|')[0].split()[4]) if '|' in m else 0}, 'step %d raised %s' % (k, rec['err']))
                    if kn: ck.known(kn[0], kn[1], case)
                    else: ck.violation('oracle', case, f)
                else: ck.violation('oracle', case, 'step %d raised %s' % (k, rec['err']))
                break
            din = A.read(rec['in'], table=table); dout = docrun.canon_session(A.read(rec['out'], table=din['rpr_table']), din)
            # ids stay unique across rounds and authors (per part; an id may be shared by the w:del/w:ins pair of the INPUT only)
            ids_in = docrun.rev_ids_by_part(rec['in']); ids_out = docrun.rev_ids_by_part(rec['out'])
            before = set(docrun.struct_issues(rec['in']))
            iss = [i for i in docrun.struct_issues(rec['out']) if i not in before]      # only what this round introduced
            fail = None; known = None
            if st[0] == 'edits':
                c = {'d': d, 'b': rec['in'], 'din': din, 'edits': st[2], 'r': rec, 'dout': dout}
                (m,) = core.run_driver('edits', [docrun.sx_edits_line(din, st[1], st[2], rec['oracle'])])
                cnt, md = m.split('|', 1); ap, sk, code, nn, xp = map(int, cnt.split())
                c['outside'] = code; c['nn'] = nn; c['xp'] = xp
                f = E.oracle_C01.__wrapped__(c, st[1]) if hasattr(E.oracle_C01, '__wrapped__') else oracle_c01_author(c, st[1])
                fail, known = J.classify(c, f, exception_ok=True)
                if not fail and iss: fail, known = J.classify(c, 'round %d output is not structurally valid: %s' % (k, iss[0]))
                if not fail:
                    for part, l in ids_out.items():
                        old = {i for _, i, _, _ in ids_in.get(part, [])}
                        new = [i for kd, i, a, dt in l if (kd, i, a, dt) not in ids_in.get(part, [])]
                        if any(i in old for i in new) or len(set(new)) != len(new):
                            fail, known = J.classify(c, 'round %d: revision ids collide in %s: new %s, existing %s' % (k, part, new, sorted(old))); break
                if code == 0:
                    mdoc = A.un_doc(A.sx_parse(md))
                    if (ap, sk) != (rec['ap'], rec['sk']) or docrun.doc_shape(mdoc) != docrun.doc_shape(dout) or docrun.comments_key(mdoc) != docrun.comments_key(dout):
                        ck.corr_broken.append(('History.run_session (edit round) vs RedlineEngine on reloaded bytes', dict(case, model=[ap, sk], impl=[rec['ap'], rec['sk']], diff=docrun.first_diff(docrun.doc_shape(mdoc), docrun.doc_shape(dout)))))
                    else: stats['model_steps_agree'] += 1
                else: stats['model_outside'] += 1
            elif st[0] == 'review':
                acts = [tuple(a) for a in st[2]]
                (m,) = core.run_driver('review', [C06.review_line(din, st[1], acts)])
                cnt, md = m.split('|', 1); mdoc = A.un_doc(A.sx_parse(md))
                if cnt != '%d %d' % (rec['ap'], rec['sk']) or docrun.doc_shape(mdoc) != docrun.doc_shape(dout) or docrun.comments_key(mdoc) != docrun.comments_key(dout):
                    ck.corr_broken.append(('History.run_session (review round) vs apply_review_actions on reloaded bytes', dict(case, model=cnt, impl=[rec['ap'], rec['sk']], diff=docrun.first_diff(docrun.doc_shape(mdoc), docrun.doc_shape(dout)))))
                else: stats['model_steps_agree'] += 1
                if rec['ap'] + rec['sk'] != len(acts): fail = 'round %d: applied + skipped != number of actions' % k
                elif iss: fail = 'round %d output is not structurally valid: %s' % (k, iss[0])
                else:
                    # pending changes of earlier rounds must be individually resolvable: the reference decides what each action does
                    (nl,) = core.run_driver('normalize', [A.sx_doc(din)]); nd = A.un_doc(A.sx_parse(nl))
                    only = [a for a in acts if a[0] != 'REPLY']
                    if len(only) == len(acts):
                        rt, rap, rsk = C06.ref_apply(A.tape(nd), acts)
                        # (ids of marks without text are invisible to the tape reference: count by elements)
                        if A.tape(dout) != rt: fail = 'round %d: an ACCEPT/REJECT changed more or less than the addressed change' % k
            else:
                (m,) = core.run_driver('acceptall', [A.sx_doc(A.un_doc(A.sx_parse(core.run_driver('normalize', [A.sx_doc(din)])[0])))])
                mdoc = A.un_doc(A.sx_parse(m))
                if docrun.doc_shape(mdoc) != docrun.doc_shape(dout): ck.corr_broken.append(('History.run_session (accept-all) vs accept_all_revisions', dict(case, diff=docrun.first_diff(docrun.doc_shape(mdoc), docrun.doc_shape(dout)))))
                else: stats['model_steps_agree'] += 1
                acc_in = [A.text_of(A.acc_atoms(A.atoms(p['nodes']))) for p in A.paras(din)]
                acc_out = [A.text_of(A.atoms(p['nodes'])) for p in A.paras(dout)]
                if acc_in != acc_out: fail = 'round %d: accept-all does not give the accepted view of the loaded document' % k
                elif docrun.mark_ids(dout): fail = 'round %d: accept-all left revision marks behind' % k
            # a round that ran into a recorded finding leaves a state the later rounds cannot be judged on (e.g. nested marks): the history ends there
            if fail and known: ck.known(known[0], known[1], case); break
            elif fail: ck.violation('oracle', case, fail); break
        if len(recs) == len(steps): distinct.add(json.dumps(steps, sort_keys=True, default=str)[:1500])
    for (b0, steps, d) in jobs[:2]: ck.sample({'history': steps})
    ck.cov['traces_validated_against_impl'] = stats['model_steps_agree']
    ck.cov['input_distribution'] = dict(stats, history_lengths=lens)
    return ck.finish(rule='histories of 2-%d sessions on generated documents: edit batch by author A/B (exact targets chosen on the document as it stands in that round), review round (ACCEPT / REJECT of pending ids, REPLY, unknown ids), accept-all; '
                          'real save and reload through bytes between rounds; distinct = distinct completed histories; non-trivial = all of them (every history has at least 2 rounds)' % (4 if tier == 'quick' else 8),
                     distinct=len(distinct))

def oracle_c01_author(c, author):
    r = c['r']
    if r.get('err'): return 'apply_edits raised ' + r['err']
    back = E.session_reject(c['dout'], c['din'], author)
    a, b = E.tape_nopid(back), E.tape_nopid(c['din'])
    if a != b: return 'rejecting the round\'s changes does not give back the document the round loaded: ' + json.dumps(docrun.first_diff(b, a))[:600]
    return None

def replay(path):
    r = json.load(open(path)); c = r['case']; d = c['doc']; d.setdefault('features', [])
    docrun.impl_init(); b = A.build(d)
    steps = [tuple(s) if s[0] == 'accept_all' else (s[0], s[1], [tuple(x) for x in s[2]]) for s in c['steps']]
    recs = run_history((b, steps))
    for k, rec in enumerate(recs): print(k, rec['kind'], rec.get('ap'), rec.get('sk'), rec.get('err'))
    k = c.get('failing_step', len(recs) - 1); rec = recs[min(k, len(recs) - 1)]
    if rec.get('err'): print('VIOLATION property=C07 replay=%s' % path); return 1
    if steps[k][0] == 'edits':
        din = A.read(rec['in']); dout = docrun.canon_session(A.read(rec['out'], table=din['rpr_table']), din)
        f = oracle_c01_author({'r': rec, 'din': din, 'dout': dout}, steps[k][1]); print(f)
        if f: print('VIOLATION property=C07 replay=%s' % path); return 1
    print('property holds on this history (as far as the replay checks)'); return 0
