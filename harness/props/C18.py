"""C18 - `adeu init` never loses the user's Claude Desktop configuration.
Proof: Init.crash_safe_sound (checker soundness, any world, any oracle incl. crashes) + crash_safe <skeleton regenerated
from cli.py> = true by vm_compute (Props/C18.v).  Translator validation + failing-input search: the real handle_init is
run in forked children with a fault (crash before / crash in the middle / OSError) injected at every file-system call,
for every prior configuration state and both modes; the directory is inspected afterwards."""
import json, os, random, shutil, sys, tempfile, itertools
from multiprocessing import Pool
from harness import core, skel

STATES = {
    'absent': None,
    'empty': b'',
    'whitespace': b'  \n',
    'valid_other_servers': json.dumps({'mcpServers': {'other': {'command': 'x', 'args': ['a']}}, 'theme': 'dark'}, indent=2).encode(),
    'valid_has_adeu': json.dumps({'mcpServers': {'adeu': {'command': 'old'}, 'z': {'command': 'q'}}, 'n': [1, 2, {'k': None}]}).encode(),
    'valid_no_servers_key': json.dumps({'globalShortcut': 'Ctrl+Space', 'nested': {'a': {'b': [1.5, True]}}}).encode(),
    'valid_unicode': json.dumps({'mcpServers': {}, 'name': 'café 中文 \U0001F600'}, ensure_ascii=False).encode('utf-8'),
    'invalid_json_trailing_comma': b'{"mcpServers": {"other": {"command": "x"}},}',
    'invalid_json_truncated': b'{"mcpServers": {"other": {"comm',
    'non_object_list': b'[1, 2, 3]',
    'non_object_string': b'"hello"',
    'servers_not_object': b'{"mcpServers": 5, "keep": 1}',
    'servers_null': b'{"mcpServers": null}',
    # a rewrite that SHRINKS the file: a long adeu entry (local mode: interpreter path, cwd), widely formatted
    'valid_long_adeu_wide': json.dumps({'mcpServers': {'adeu': {'command': '/very/long/path/to/a/virtual/environment/bin/python3.12', 'args': ['-m', 'adeu.server', '--verbose'] * 6,
                                                                'cwd': '/home/someone/projects/contracts/tools/adeu-checkout'}, 'other': {'command': 'x'}}, 'theme': 'dark'}, indent=8).encode(),
    # a second run on the same day: `adeu init` ran before (it left its backup), then the user changed / broke the file by hand
    'second_run_same_day_edited': (json.dumps({'mcpServers': {'other': {'command': 'x'}}}, indent=2).encode(),
                                   json.dumps({'mcpServers': {'other': {'command': 'x'}, 'added_by_hand': {'command': 'y'}}, 'theme': 'light'}, indent=2).encode()),
    # the configuration file is a symbolic link into a dotfiles checkout (stow / chezmoi / home-manager): the backup must hold the previous
    # BYTES, not be a second link to the file that is about to be rewritten
    'symlink_abs_valid_other': {'symlink': 'abs', 'content': json.dumps({'mcpServers': {'other': {'command': 'x'}}, 'theme': 'dark'}, indent=2).encode()},
    'symlink_rel_invalid_json': {'symlink': 'rel', 'content': b'{"mcpServers": {"other": {"command": "x"}}, "oops": }'},
    'second_run_same_day_broken': (json.dumps({'mcpServers': {'other': {'command': 'x'}}}, indent=2).encode(), b'{"mcpServers": {"other": {"command": "x"}}, "oops": }'),
}

def random_state(rng):
    def val(d):
        r = rng.random()
        if d > 2 or r < .3: return rng.choice([1, 'x', None, True, 2.5, 'é'])
        if r < .6: return [val(d + 1) for _ in range(rng.randint(0, 3))]
        return {rng.choice('abcdef') + str(i): val(d + 1) for i in range(rng.randint(0, 3))}
    top = {rng.choice(['theme', 'shortcut', 'x', 'y']) + str(i): val(0) for i in range(rng.randint(0, 3))}
    if rng.random() < .8:
        top['mcpServers'] = {rng.choice(['a', 'b', 'adeu', 'srv']) + ('' if rng.random() < .5 else str(i)): {'command': 'c%d' % i} for i in range(rng.randint(0, 3))}
    return json.dumps(top, indent=rng.choice([None, 2, 4])).encode()

class Crash(BaseException):
    pass

def child(home, local, plan, tracefile):
    """runs in a forked child: handle_init with fault `plan` = (k, kind) at the k-th file-system call (0-based), or None."""
    os.environ['HOME'] = home
    core.use_repo()
    import builtins, json as js, pathlib, shutil as sh, platform, argparse
    platform.system = lambda: 'Linux'
    import adeu.cli as cli
    trace = []; n = [0]; inside = [False]
    def log(ev):
        trace.append(ev)
        with open_real(tracefile, 'a') as f: f.write(ev + '\n')
    open_real = builtins.open
    def fault(ev, during=None):
        """returns after logging if no fault is planned here"""
        k = n[0]; n[0] += 1
        log(ev)
        if plan and plan[0] == k:
            kind = plan[1]
            if kind == 'crash_before': os._exit(137)
            if kind == 'crash_during':
                if during: during()
                os._exit(137)
            if kind == 'raise': raise OSError(13, 'injected fault at ' + ev)
    real_copy2 = sh.copy2
    def copy2(src, dst, *a, **k):
        def half():
            data = open_real(src, 'rb').read()
            with open_real(dst, 'wb') as f: f.write(data[:len(data) // 2])
        def raise_half():
            half()
        if plan and plan[0] == n[0] and plan[1] == 'raise': half()       # a copy that fails half-way leaves a partial backup
        fault('copy', half)
        inside[0] = True
        try: return real_copy2(src, dst, *a, **k)
        finally: inside[0] = False
    def open_(file, mode='r', *a, **k):
        p = str(file)
        if p.startswith(home) and not inside[0]:
            if any(c in mode for c in 'wax+'):
                def trunc():
                    open_real(file, mode, *a, **k).close()
                fault('open_w', trunc)
            else:
                fault('open_r')
        return open_real(file, mode, *a, **k)
    real_dump = js.dump
    def dump(obj, fp, *a, **k):
        s = js.dumps(obj, *a, **k)
        def half():
            fp.write(s[:len(s) // 2]); fp.flush()
        if plan and plan[0] == n[0] and plan[1] == 'raise': half()
        fault('write', half)
        return real_dump(obj, fp, *a, **k)
    real_mkdir = pathlib.Path.mkdir
    def mkdir(self, *a, **k):
        fault('mkdir')
        return real_mkdir(self, *a, **k)
    sh.copy2 = copy2; builtins.open = open_; js.dump = dump; pathlib.Path.mkdir = mkdir
    cli.shutil.copy2 = copy2
    devnull = open_real(os.devnull, 'w'); sys.stderr = devnull; sys.stdout = devnull
    ns = argparse.Namespace(local=local)
    try:
        cli.handle_init(ns)
        os._exit(0)
    except SystemExit as e:
        os._exit(3 if e.code else 0)
    except BaseException:
        os._exit(2)

def run_case(args):
    """returns dict with the outcome of one (state, mode, plan) case"""
    state_name, prev, local, plan, second_run = args
    home = tempfile.mkdtemp(prefix='c18_')
    try:
        cdir = os.path.join(home, '.config', 'Claude'); cfg = os.path.join(cdir, 'claude_desktop_config.json')
        tracefile = os.path.join(home, 'trace.txt')
        if isinstance(prev, tuple):      # history: an earlier fault-free run on prev[0], then the file is replaced by prev[1]
            os.makedirs(cdir); open(cfg, 'wb').write(prev[0])
            pid0 = os.fork()
            if pid0 == 0:
                try: child(home, local, None, tracefile + '0')
                finally: os._exit(99)
            os.waitpid(pid0, 0)
            prev = prev[1]; open(cfg, 'wb').write(prev)
        elif isinstance(prev, dict):      # the configuration file is a symbolic link to a file elsewhere
            os.makedirs(cdir); real = os.path.join(home, 'dotfiles', 'claude', 'config.json'); os.makedirs(os.path.dirname(real))
            open(real, 'wb').write(prev['content'])
            os.symlink(real if prev['symlink'] == 'abs' else os.path.relpath(real, cdir), cfg)
            prev = prev['content']
        elif prev is not None:
            os.makedirs(cdir); open(cfg, 'wb').write(prev)
        pid = os.fork()
        if pid == 0:
            try: child(home, local, plan, tracefile)
            finally: os._exit(99)
        _, status = os.waitpid(pid, 0)
        code = os.WEXITSTATUS(status) if os.WIFEXITED(status) else -1
        trace = open(tracefile).read().split() if os.path.exists(tracefile) else []
        files = {}
        if os.path.isdir(cdir):
            for f in sorted(os.listdir(cdir)): files[f] = open(os.path.join(cdir, f), 'rb').read()
        res = {'state': state_name, 'local': local, 'plan': plan, 'exit': code, 'trace': trace, 'fail': None,
               'files': {k: v.decode('utf-8', 'replace')[:300] for k, v in files.items()}}
        cur = files.get('claude_desktop_config.json')
        # (1) the complete previous content remains available
        if prev is not None and cur != prev and not any(v == prev for k, v in files.items() if k != 'claude_desktop_config.json'):
            res['fail'] = 'previous configuration is neither in the configuration file nor in a backup next to it'
            return res
        # (2) success: valid JSON = previous with only the adeu entry added/replaced; idempotent
        if code == 0 and plan is None:
            try: new = json.loads(cur.decode('utf-8'))
            except Exception as e:
                res['fail'] = 'command succeeded but the file is not valid JSON: %s' % e; return res
            try: old = json.loads(prev.decode('utf-8')) if prev and prev.strip() else {}
            except Exception: old = {}
            if isinstance(old, dict) and isinstance(old.get('mcpServers', {}), dict):
                exp = json.loads(json.dumps(old)); exp.setdefault('mcpServers', {})
                got = json.loads(json.dumps(new)); adeu = got.get('mcpServers', {}).pop('adeu', None) if isinstance(got.get('mcpServers'), dict) else None
                exp['mcpServers'].pop('adeu', None)
                if adeu is None: res['fail'] = 'no adeu server entry after a successful run'; return res
                if got != exp:
                    res['fail'] = 'configuration changed beyond the adeu entry: %r vs expected %r' % (got, exp); return res
                want_cmd = sys.executable if local else 'uvx'
                if not isinstance(adeu, dict) or (not local and adeu.get('command') != 'uvx'):
                    res['fail'] = 'unexpected adeu entry %r' % (adeu,); return res
            if second_run:
                pid = os.fork()
                if pid == 0:
                    try: child(home, local, None, tracefile + '2')
                    finally: os._exit(99)
                os.waitpid(pid, 0)
                again = open(cfg, 'rb').read()
                if again != cur: res['fail'] = 'running the command again changed the configuration file'; return res
        if code == 0 and plan is None and prev is not None:
            pass
        return res
    finally:
        shutil.rmtree(home, ignore_errors=True)

def skeleton_traces(term):
    """all sequences of file-system effects (copy/open_w/write) the Init skeleton allows, as a set of tuples (prefix-closed)."""
    import re
    toks = re.findall(r'SIfExists|SIf|STry|SEff|SExit|ECopy|EPure|EOpenW|EWrite|\[|\]|;', term)
    pos = [0]
    def plist():
        assert toks[pos[0]] == '['; pos[0] += 1; out = []
        while toks[pos[0]] != ']':
            if toks[pos[0]] == ';': pos[0] += 1; continue
            out.append(pstmt())
        pos[0] += 1; return out
    def pstmt():
        t = toks[pos[0]]; pos[0] += 1
        if t == 'SEff':
            e = toks[pos[0]]; pos[0] += 1; return ('eff', e)
        if t == 'SExit': return ('exit',)
        a = plist(); b = plist(); return (t, a, b)
    ss = plist() if toks and toks[0] == '[' else None
    def seqs(ss):
        """set of (trace, falls_through)"""
        res = {((), True)}
        for s in ss:
            nxt = set()
            for tr, ft in res:
                if not ft: nxt.add((tr, ft)); continue
                if s[0] == 'eff':
                    ev = {'ECopy': 'copy', 'EOpenW': 'open_w', 'EWrite': 'write'}.get(s[1])
                    nxt.add((tr, False))                      # raises / crashes here (before)
                    nxt.add((tr + ((ev,) if ev else ()), True)); nxt.add((tr + ((ev,) if ev else ()), False))
                elif s[0] == 'exit': nxt.add((tr, False))
                else:
                    for br in (s[1], s[2]) if s[0] != 'STry' else (s[1],):
                        for t2, f2 in seqs(br): nxt.add((tr + t2, f2))
                    if s[0] == 'STry':
                        for t2, f2 in seqs(s[1]):
                            if not f2:
                                for t3, f3 in seqs(s[2]): nxt.add((tr + t2 + t3, f3))
            res = nxt
        return res
    return {t for t, _ in seqs(ss)}

def regen():
    text, info = skel.generate(os.path.join(core.SRC, 'adeu'))
    os.makedirs(os.path.join(core.COQ, 'Gen'), exist_ok=True)
    p = os.path.join(core.COQ, 'Gen', 'SkelGen.v')
    if not os.path.exists(p) or open(p).read() != text: open(p, 'w').write(text)
    rc, out = core.sh(['coqc'] + core.coq_args() + ['Gen/SkelGen.v'], 300, cwd=core.COQ)
    return info, rc, out

def run(tier, seed):
    ck = core.Check('C18', tier, seed)
    ok_build, log = core.build_coq()
    info, rc, out = regen()
    ck.proof_gate(['Props/C18.v'], extra_trusted=[
        'translator harness/skel.py (Python ast -> Init.stmt, fail-closed); validated each run by comparing the file-system effect trace of every dynamic execution with the traces the generated skeleton allows',
        'abstraction of file contents to Orig/New/Junk and of the file system to (config, backup); operating-system semantics of open/copy2/write are modelled (open(w) truncates, a partial copy leaves junk), not verified',
        'Python json (loads/dumps round trip) is not modelled; the success half (only the adeu entry changes, idempotence) is checked dynamically on every generated prior state'])
    ck.cov['translator_failures'] = info['failed']
    ck.cov['skeleton'] = info['skeletons'].get('handle_init')
    rng = random.Random(seed)
    states = dict(STATES)
    for i in range(6 if tier == 'quick' else 60): states['random_%d' % i] = random_state(rng)
    # number of fs calls per (state, mode): discover with a fault-free run first
    base = [(n, p, loc, None, True) for n, p in states.items() for loc in (False, True)]
    allowed = skeleton_traces('[' + info['skeletons'].get('handle_init', '') + ']')
    with Pool(core.NPROC) as pool:
        base_res = pool.map(run_case, base)
        cases = []
        for (n, p, loc, _, _), r in zip(base, base_res):
            for k in range(len(r['trace'])):
                for kind in ('crash_before', 'crash_during', 'raise'):
                    cases.append((n, p, loc, (k, kind), False))
        fault_res = pool.map(run_case, cases, chunksize=8)
    allres = base_res + fault_res
    distinct = set(); ntr = 0; dist = {'fault_free': len(base_res), 'crash_before': 0, 'crash_during': 0, 'raise': 0}
    for r in allres:
        ck.count()
        distinct.add((r['state'], r['local'], tuple(r['plan']) if r['plan'] else None))
        if r['plan']: dist[r['plan'][1]] += 1
        if r['fail']:
            ck.violation('oracle', {'state': r['state'], 'previous': ((states[r['state']][1] if isinstance(states[r['state']], tuple) else states[r['state']]['content'] if isinstance(states[r['state']], dict) else states[r['state']]) or b'').decode('utf-8', 'replace') if states[r['state']] is not None else None, 'config_is_symlink': isinstance(states[r['state']], dict),
                                    'local': r['local'], 'fault': r['plan'], 'exit': r['exit'], 'trace': r['trace'], 'files_after': r['files']}, r['fail'])
        tr = tuple(e for e in r['trace'] if e in ('copy', 'open_w', 'write'))
        # a planned fault is logged before it strikes: the struck effect may or may not have happened in the model
        if allowed and tr not in allowed and tr[:-1] not in allowed:
            ck.corr_broken.append(('effect trace of handle_init is not a trace of the generated skeleton (translator validation)', {'trace': r['trace'], 'state': r['state'], 'plan': r['plan']}))
        else: ntr += 1
    for r in base_res[:2] + fault_res[:3]: ck.sample({k: r[k] for k in ('state', 'local', 'plan', 'exit', 'trace')})
    ck.cov['traces_validated_against_impl'] = ntr
    return ck.finish(
        rule='every prior state (absent, empty, valid with other servers/settings, invalid JSON, non-object JSON, unexpected shapes, random valid objects) x both modes x '
             'a fault (crash before, crash in the middle, OSError) at every file-system call of the fault-free run; distinct = distinct (state, mode, fault) triples; all are non-trivial except state=absent',
        distinct=len({d for d in distinct if d[0] != 'absent'}), extra={'input_distribution': dist, 'prior_states': sorted(states), 'exhaustive': True})

def replay(path):
    r = json.load(open(path)); c = r['case']
    prev = c['previous'].encode('utf-8') if c.get('previous') is not None else None
    res = run_case((c['state'], prev, c['local'], tuple(c['fault']) if c['fault'] else None, True))
    print(res)
    if res['fail']:
        print('VIOLATION property=C18 replay=%s' % path); return 1
    print('property holds on this input'); return 0
