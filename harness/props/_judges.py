"""Per-property judges over one executed edit batch: the property oracle + classification of a failure into the region of
a recorded finding (by the MODEL's verdict on the INPUT: Outside code) or a violation."""
import re
from harness import editrun as E

WHAT = {
 'D10': 'new text with a line break or a heading line in the middle of a paragraph is placed after the whole paragraph / as new paragraphs; when its anchor run lies inside a tracked change the block path raises AttributeError',
 'D26': 'a target that partially overlaps a pending insertion (or spans several) is handled by the nested-insertion shortcut and scrambles text / nests marks',
 'D30': 'a target spanning several paragraphs or runs that are not direct children of one paragraph scrambles the paragraphs / nests marks',
 'D34': 'an insertion point adjacent to a tracked change is anchored on the run inside that change: w:ins nested in another mark',
 'D37': 'occupied ranges are kept in coordinates of a map that is rebuilt after every applied edit: duplicate / overlapping targets after an applied edit are not recognised as conflicts',
 'D39': 'a later edit of a batch is matched against the metadata text ([Chg:n] author, wrappers) that an earlier edit of the same batch added to the raw view',
 'D40': 'a target that also occurs in virtual text of the raw view (comment metadata, author names, markers) is matched there first; the edit is applied next to that place',
 'D32': 'when trimming leaves only virtual markers as target no run is resolved and the edit is reported skipped',
}
REGION = {2: 'D10', 3: 'D34', 4: 'D30', 5: 'D26'}

def meta_like(t):
    """the target also occurs in text the engine itself generates for a tracked change of this session (wrappers, [Chg:n] author)"""
    tpl = '{++X++}{--X--}{>>[Chg:00] %s\n[Chg:00] %s<<}{==X==}' % (E.AUTHOR, E.AUTHOR)
    return re.sub(r'\d', '0', t) in tpl or re.sub(r'\d', '0', t) in tpl.replace('00', '0') or re.sub(r'\d', '0', t) in tpl.replace('00', '000')
def classify(c, fail, exception_ok=False, meta_region=False):
    """-> (fail, known) per the model's Outside code for this input"""
    if not fail: return (None, None)
    code = c.get('outside', 0)
    if code == 0:
        if meta_region and len(c.get('edits', [])) > 1 and any(meta_like(e[0]) for e in c['edits']): return (fail, ('D39', WHAT['D39']))
        return (fail, None)
    if code == 1:
        return (None, None) if exception_ok else (fail, ('D26', WHAT['D26']))
    fid = REGION.get(code)
    return (fail, (fid, WHAT[fid])) if fid else (fail, None)

def conflicting(c, raw, clean):
    spans = []
    for t, n, cm, idx in c['edits']:
        if not t: continue
        for txt in (raw, clean):
            for m in re.finditer(re.escape(t), txt): spans.append((id(txt), m.start(), m.end(), t))
    for i in range(len(spans)):
        for j in range(i + 1, len(spans)):
            a, b = spans[i], spans[j]
            if a[0] == b[0] and a[1] < b[2] and b[1] < a[2] and (a[3] is not b[3] or a[1] != b[1] or True) and spans[i] != spans[j]: return True
    ts = [e[0] for e in c['edits'] if e[0]]
    return len(set(ts)) != len(ts)

def judge_C01(c, raw, clean, raw_out): return [classify(c, E.oracle_C01(c), exception_ok=True)]
def judge_C02(c, raw, clean, raw_out):
    f, applicable = E.oracle_C02(c, raw, clean)
    if f and c.get('outside', 0) == 0 and len(c['edits']) > 1 and any(meta_like(e[0]) for e in c['edits']): return [(f, ('D39', WHAT['D39']))]
    return [classify(c, f, meta_region=True)]
def in_virtual(c, raw):
    """some target occurs in the raw view more often than in the real text of the paragraphs: it (also) matches virtual text"""
    real = '\n'.join(E.para_texts(c['din'], 'raw'))
    return any(e[0] and raw.count(e[0]) > real.count(e[0]) for e in c['edits'])
def judge_C08(c, raw, clean, raw_out):
    f = E.oracle_C08(c)
    if f and c.get('outside', 0) == 0 and 'subset' in f and in_virtual(c, raw): return [(f, ('D40', WHAT['D40']))]
    if f and c.get('outside', 0) == 0 and 'subset' in f and conflicting(c, raw, clean): print('D37CASE', c['edits'], f[:300]); return [(f, ('D37', WHAT['D37']))]
    return [classify(c, f, meta_region=True)]
def judge_C09(c, raw, clean, raw_out): return [classify(c, E.oracle_C09(c))]
def judge_C10(c, raw, clean, raw_out): return [classify(c, E.oracle_C10(c, raw_out))]
def judge_C16(c, raw, clean, raw_out): return [classify(c, E.oracle_C16(c))]

def bold_led_para(d):
    """some paragraph of the document starts with a bold text-bearing run: the only paragraphs whose "## " prefix is a
    function of their text (get_paragraph_prefix step 3); gate of finding D42"""
    def runs(nodes):
        for n in nodes:
            if n[0] == 'run': yield n
            elif n[0] in ('ins', 'del'): yield from runs(n[3])
    def walk(blocks):
        for b in blocks:
            if b['t'] == 'p':
                for r in runs(b['nodes']):
                    if ''.join(k[1] for k in r[3] if k[0] in ('t', 'dt')).strip():
                        if any(x[0] == 1 and x[1] >= 1 for x in (r[2] or [])): return True
                        break
            elif b['t'] == 'tbl':
                for row in b['rows']:
                    for cell in row:
                        if walk(cell['blocks'] if isinstance(cell, dict) else cell[-1]): return True
        return False
    return any(walk(st['blocks']) for st in d['stories'])
