"""Per-property judges over one executed edit batch: the property oracle + classification of a failure into the region of
a recorded finding (by the MODEL's verdict on the INPUT: Outside code) or a violation."""
import re
from harness import editrun as E

WHAT = {
 'D10': 'line breaks in new text are not placed where they were requested: the lines after the first become new paragraphs AFTER the whole current paragraph, and new text that consists of line breaks only is dropped (accepted text differs from the requested text)',
 'D26': 'an edit that starts inside a pending insertion is handled by the nested-insertion shortcut: the whole insertion is rejected and re-inserted as plain text of the first run (formatting, line breaks, further lines and - with a partial overlap - text are lost or scrambled)',
 'D30': 'a target spanning several paragraphs or runs that are not direct children of one paragraph scrambles the paragraphs / nests marks',
 'D34': 'an insertion point adjacent to a tracked change is anchored on the run inside that change: w:ins nested in another mark',
 'D37': 'occupied ranges are kept in coordinates of a map that is rebuilt after every applied edit: duplicate / overlapping targets after an applied edit are not recognised as conflicts',
 'D56': 'an edit that deletes the whole text of a document part (body, header, footer) leaves that part empty; the projection omits an empty part together with its separator, so the accepted view of the committed document lacks the blank block the preview shows',
 'D51': 'overlaps between heuristic edits are decided on raw-view match positions only: an edit that is located through the accepted view (its target spans a tracked change or a comment wrapper) has no planned range, so a second edit whose target overlaps it is applied as well',
 'D39': 'a later edit of a batch is matched against the metadata text ([Chg:n] author, wrappers) that an earlier edit of the same batch added to the raw view',
 'D40': 'the occurrence of a target that the matcher takes (the first one touching document text and no tracked deletion) also covers virtual text (separator, marker, comment or change metadata), or the target exists in virtual text only: the virtual part cannot be edited, the edit lands on the real part only, and the preview marks a target the commit skips',
 'D46': 'an edit whose new text differs from its target only by line breaks is reported applied but leaves nothing except an empty w:ins; the comment it carries is anchored there and never displayed',
 'D32': 'when trimming leaves only virtual markers as target no run is resolved and the edit is reported skipped',
}
REGION = {3: 'D34', 4: 'D30'}     # (code 2 = heading level above 9: never generated; nested-insertion replacements are inside the model: 'nn')

def meta_like(t):
    """the target also occurs in text the engine itself generates for a tracked change of this session (wrappers, [Chg:n] author)"""
    tpl = '{++X++}{--X--}{>>[Chg:00] %s\n[Chg:00] %s<<}{==X==}' % (E.AUTHOR, E.AUTHOR)
    return re.sub(r'\d', '0', t) in tpl or re.sub(r'\d', '0', t) in tpl.replace('00', '0') or re.sub(r'\d', '0', t) in tpl.replace('00', '000')
def block_text(n): return bool(re.search(r'[\r\n]', n)) or bool(re.match(r'#+ ', n))
def classify(c, fail, exception_ok=False, meta_region=False, block_region=False, placement=False):
    """-> (fail, known) per the model's Outside code for this input"""
    if not fail: return (None, None)
    code = c.get('outside', 0)
    if code == 0 and c.get('nn', 0) > 0:      # the batch went through the nested-insertion shortcut (modelled; C01's documented exception, finding D26 elsewhere)
        return (None, None) if exception_ok else (fail, ('D26', WHAT['D26']))
    if code == 0 and c.get('xp', 0) > 0 and placement:      # a deletion / modification whose resolved runs lie in several paragraphs (modelled; the paragraph mark between them cannot be deleted, so what the PLACEMENT oracles of C02/C03/C08/C12/C15 expect is not produced: finding D30; every other oracle applies)
        return (fail, ('D30', WHAT['D30']))
    if code == 0:
        if block_region and any(block_text(e[1]) for e in c.get('edits', [])): return (fail, ('D10', WHAT['D10']))
        return (fail, None)
    if code == 1:
        return (None, None) if exception_ok else (fail, ('D26', WHAT['D26']))
    fid = REGION.get(code)
    return (fail, (fid, WHAT[fid])) if fid else (fail, None)

def conflicting(c, raw, clean):
    spans = []
    for t, n, cm, idx in c['edits']:
        if not t: continue
        for txt in (raw, clean):
            for m in re.finditer(re.escape(t), txt): spans.append((id(txt), m.start(), m.end(), t))
    for i in range(len(spans)):
        for j in range(i + 1, len(spans)):
            a, b = spans[i], spans[j]
            if a[0] == b[0] and a[1] < b[2] and b[1] < a[2] and (a[3] is not b[3] or a[1] != b[1] or True) and spans[i] != spans[j]: return True
    ts = [e[0] for e in c['edits'] if e[0]]
    return len(set(ts)) != len(ts)

def judge_C01(c, raw, clean, raw_out): return [classify(c, E.oracle_C01(c), exception_ok=True)]
def judge_C02(c, raw, clean, raw_out):
    f, applicable = E.oracle_C02(c, raw, clean)
    if f and c.get('outside', 0) == 0 and not c.get('nn') and not c.get('xp') and in_virtual(c, raw): return [(f, ('D40', WHAT['D40']))]
    return [classify(c, f, meta_region=True, placement=True)]
def deleted_uids(din):
    out = set()
    def go(nodes, dead):
        for n in nodes:
            if n[0] == 'run' and dead: out.add(n[1])
            elif n[0] in ('ins', 'del'): go(n[3], dead or n[0] == 'del')
    from harness import absdoc as A
    for p in A.paras(din): go(p['nodes'], False)
    return out
def in_virtual(c, raw):
    """the occurrence of some target that the exact stage of the matcher takes - the first one in the raw view that touches text of
    the document itself and no tracked deletion (fixes D54, D55) - also covers virtual text (comment / change metadata, wrappers,
    formatting markers, separators), or no occurrence can be taken and one of them lies in virtual text only; according to the
    model's span map of the input"""
    from harness import core, absdoc as A
    key = id(c['din'])
    if c.get('_spans_key') != key:
        out = core.run_driver('nspans', ['(0 %s)' % A.sx_doc(c['din'])])[0]
        dead = deleted_uids(c['din'])
        sp = []; off = 0
        for x in out.split(';'):
            if not x: continue
            f = x.split(':'); txt = core.dec(f[0]); sp.append((off, off + len(txt), f[1] == '1', f[1] == '1' and int(f[2]) in dead)); off += len(txt)
        c['_spans'] = sp; c['_spans_key'] = key
    for e in c['edits']:
        t = e[0]
        if not t: continue
        occ = []; i = raw.find(t)
        while i >= 0: occ.append(i); i = raw.find(t, i + 1)
        def cov(i): return [s for s in c['_spans'] if s[0] < i + len(t) and i < s[1]]
        taken = next((i for i in occ if any(s[2] for s in cov(i)) and not any(s[3] for s in cov(i))), None)
        if taken is None:
            if any(not any(s[2] for s in cov(i)) for i in occ): return True
        elif any(not s[2] for s in cov(taken)): return True
    return False
def judge_C08(c, raw, clean, raw_out):
    f = E.oracle_C08(c)
    if f and c.get('outside', 0) == 0 and not c.get('xp') and 'subset' in f and in_virtual(c, raw): return [(f, ('D40', WHAT['D40']))]
    if f and c.get('outside', 0) == 0 and 'subset' in f and conflicting(c, raw, clean) and any(e[0] and raw.count(e[0]) == 0 for e in c['edits']): return [(f, ('D51', WHAT['D51']))]
    return [classify(c, f, meta_region=True, placement=True)]
def judge_C09(c, raw, clean, raw_out): return [classify(c, E.oracle_C09(c))]
def emptied_story(c):
    """some edit deletes the whole accepted text of a story of the input"""
    from harness import absdoc as A
    for st in c['din']['stories']:
        T = '\n\n'.join(E.para_texts({'stories': [st]}, 'acc'))
        if T.strip() and any(n == '' and t.strip() == T.strip() for t, n, cm, idx in c['edits']): return True
    return False
def norm_sep(s): return re.sub(r'(\n\n)+', '\n\n', s).strip('\n')
def only_breaks(c):
    """some commented edit adds nothing but line breaks to its target"""
    return any(cm and n != t and re.sub(r'[\r\n]+', '', n) == t for t, n, cm, idx in c['edits'])
def judge_C10(c, raw, clean, raw_out):
    f = E.oracle_C10(c, raw_out)
    if f and c.get('outside', 0) == 0 and 'not shown' in f and only_breaks(c): return [(f, ('D46', WHAT['D46']))]
    return [classify(c, f)]
def judge_C16(c, raw, clean, raw_out): return [classify(c, E.oracle_C16(c))]

def unhead(s):
    """drop the heading prefixes the projection synthesises (at the start of a line or of a table cell)"""
    return re.sub(r'(?m)(^| \| )#+ ', r'\1', s)
def bold_led_para(d):
    """some paragraph of the document starts with a bold text-bearing run: the only paragraphs whose "## " prefix is a
    function of their text (get_paragraph_prefix step 3); gate of finding D42"""
    def runs(nodes):
        for n in nodes:
            if n[0] == 'run': yield n
            elif n[0] in ('ins', 'del'): yield from runs(n[3])
    def walk(blocks):
        for b in blocks:
            if b['t'] == 'p':
                for r in runs(b['nodes']):
                    if ''.join(k[1] for k in r[3] if k[0] in ('t', 'dt')).strip():
                        if any(x[0] == 1 and x[1] >= 1 for x in (r[2] or [])): return True
                        break
            elif b['t'] == 'tbl':
                for row in b['rows']:
                    for cell in row:
                        if walk(cell['blocks'] if isinstance(cell, dict) else cell[-1]): return True
        return False
    return any(walk(st['blocks']) for st in d['stories'])
