"""C01 - edit-batch property: generators in harness/editrun.py, oracle + region classification in harness/props/_judges.py,
model correspondence in harness/editrun.py (Engine.apply_edits extracted from Coq), theorems in coq/Props/C01.v"""
from harness.props import _edits, _judges as J
PID = 'C01'
def run(tier, seed):
    return _edits.run_property(PID, tier, seed, ['Props/C01.v'], ('exact','mixed','blocks'), J.judge_C01, 'random documents with every feature x batches of 1-4 edits (exact targets at arbitrary offsets, not found, empty, duplicate, overlapping, raw-view targets with markup, multi-line and heading new text, with/without comment)')
def replay(path):
    return _edits.replay_case(path, J.judge_C01, PID)
