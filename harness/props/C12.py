"""C12 - applying the diff of a rewritten text reproduces that text.
Pipeline on the implementation: extract -> word-level rewrite -> generate_edits_from_text -> RedlineEngine.apply_edits -> accept all ->
extract; oracle: result text = rewritten text (bold/italic markers aside), every edit applied.  The same edits go through the
engine model (correspondence on the saved document), the diff stage is covered by C13's model; also the CLI text-file path."""
import io, json, os, random, re, subprocess, tempfile
from multiprocessing import Pool
from harness import core, absdoc as A, docgen, docrun, editrun as E
from harness.props import _judges as J

WORDS = ['new', 'added', 'Revised', 'x', 'twenty-one', 'obligations', 'the']
def strip_markers(s): return re.sub(r'\*\*|_', '', s)

def rewrite(rng, text):
    """1..k word-level changes inside paragraphs; separators, heading marks, cell bars and markers are left alone"""
    toks = re.split(r'(\s+|\*\*|_|\||#+ )', text)
    idx = [i for i, t in enumerate(toks) if t and not re.fullmatch(r'\s+|\*\*|_|\||#+ ', t)]
    if not idx: return None
    changes = []
    for _ in range(rng.randint(1, 3)):
        i = rng.choice(idx); op = rng.random()
        if op < .35: toks[i] = rng.choice(WORDS); changes.append('replace')
        elif op < .65: toks[i] = toks[i] + ' ' + rng.choice(WORDS); changes.append('insert_after')
        elif op < .8: toks[i] = rng.choice(WORDS) + ' ' + toks[i]; changes.append('insert_before')
        else:
            # delete the word and one neighbouring space (if it is a plain single space)
            if i + 2 < len(toks) and toks[i + 1] == ' ' and toks[i + 2] not in ('|', '') and not toks[i + 2].startswith(('*', '_')): toks[i + 1] = ''
            toks[i] = ''; changes.append('delete')
    return ''.join(toks), changes

def targeted_rewrite(rng, text):
    """an insertion at the very start of a paragraph plus a second insertion later in the same paragraph"""
    paras = text.split('\n\n'); cand = [i for i, p in enumerate(paras) if len(p.split(' ')) >= 3 and not p.startswith(('#', '*', '_')) and '|' not in p and '*' not in p]
    if not cand: return rewrite(rng, text)
    i = rng.choice(cand); ws = paras[i].split(' ')
    j = rng.randint(1, len(ws) - 1)
    ws[j] = ws[j] + ' ' + rng.choice(WORDS)
    paras[i] = rng.choice(WORDS) + ' ' + ' '.join(ws)
    return '\n\n'.join(paras), ['insert_at_paragraph_start', 'insert_after']
def work(job):
    b, tmod = job
    from adeu.diff import generate_edits_from_text
    from adeu.redline.engine import RedlineEngine
    try:
        t0 = docrun.extract(b, False)
        es = generate_edits_from_text(t0, tmod)
        edits = [(e.target_text, e.new_text or '', e.comment, e._match_start_index) for e in es]
        r = docrun.engine_edits(b, edits, E.AUTHOR)
        if r['err']: return {'err': r['err'], 'edits': edits}
        e2 = RedlineEngine(io.BytesIO(r['out'])); e2.accept_all_revisions()
        final = docrun.extract(e2.save_to_stream().getvalue(), True)
        return {'err': None, 'edits': edits, 'r': r, 'final': final}
    except Exception as ex:
        return {'err': '%s: %s' % (type(ex).__name__, ex), 'edits': []}

def virtual_ranges(din):
    (line,) = core.run_driver('nspans', ['(0 %s)' % A.sx_doc(din)])
    out = []; off = 0
    for x in line.split(';'):
        if not x: continue
        f = x.split(':'); n = len(core.dec(f[0]))
        if f[1] != '1': out.append((off, off + n))
        off += n
    return out
def region(c, edits, t0):
    vr = virtual_ranges(c['din']) if c.get('din') else []
    for t, n, _, i in edits:
        if any(a < i + len(t) and i < b for a, b in vr) or (not t and any(a < i < b for a, b in vr)):
            return ('D29', 'the edit computed by the diff reaches into virtual text (separator, marker, heading mark): ' + repr(t)[:40])
    return region0(c, edits, t0)
def region0(c, edits, t0):
    """D29: an edit of the script spans a block separator; table-cell / heading boundaries: the diff anchors cross virtual text"""
    for t, n, _, i in edits:
        if '\n\n' in t or '\n\n' in n or ' | ' in t or ' | ' in n or '\n' in t or '\n' in n: return ('D29', 'the word-level diff merges changes across a paragraph / cell separator: the edit spans virtual separator text')
        seg = t0[max(0, i - 3):i + len(t) + 3]
        if '**' in t or '**' in n or '#' in t or '|' in t: return ('D29b', 'the diff anchor includes virtual text (markers, heading marks, cell bars)')
    return None

def run(tier, seed):
    ck = core.Check('C12', tier, seed)
    ck.proof_gate(['Props/C12.v'], extra_trusted=[
        'diff-match-patch is not modelled (contract checked in C13); the composed end-to-end equation is not a theorem',
        'harness/absdoc.py reader, python-docx; the CLI path is exercised as a subprocess-free call of adeu.cli.main'])
    rng = random.Random(seed)
    n = 300 if tier == 'quick' else 6000
    jobs = []; docs = []
    docrun.impl_init()
    for k in range(n):
        g = docgen.Gen(rng, 'c12'); d = g.doc(rng.randint(1, 4))
        if k % 10 == 5 and not any(st['kind'] == 0 for st in d['stories']):
            # a running header with text, a defined but empty first-page header (cover page), then the body: an empty story between
            # two non-empty ones must cost no offset
            g.uid = d['next_uid'] + 10
            d['stories'] = [{'kind': 0, 'blocks': g.blocks(1)}, {'kind': 0, 'hf': 'first', 'blocks': []}] + d['stories']
            d['next_uid'] = g.uid + 1000; d['rpr_table'] = g.table_list()
        b = A.build(d); t0 = docrun.extract(b, False)
        rw = rewrite(rng, t0) if k % 4 else targeted_rewrite(rng, t0)
        if not rw or rw[0] == t0: continue
        docs.append((d, b, t0, rw[0], rw[1])); jobs.append((b, rw[0]))
    with Pool(core.NPROC, initializer=docrun.impl_init) as pool:
        res = pool.map(work, jobs, chunksize=8)
    # model correspondence on the same offset-addressed edits
    mcases = [(d, r['edits']) for (d, b, t0, tm, ch), r in zip(docs, res) if r['edits']]
    mres = E.run_cases(mcases) if mcases else []
    inside = 0
    for c in mres:
        st = E.correspondence(ck, c); inside += st == 'inside'
    distinct = set(); kinds = {}
    mi = iter(mres)
    for (d, b, t0, tm, ch), r in zip(docs, res):
        ck.count()
        for x in ch: kinds[x] = kinds.get(x, 0) + 1
        c = next(mi) if r['edits'] else {}
        case = {'doc': A.doc_core(d), 'text': t0, 'modified': tm, 'edits': [list(e) for e in r['edits']]}
        fail = None
        if r['err']: fail = 'pipeline raised ' + r['err']
        elif r['r']['sk'] != 0: fail = '%d of %d computed edits were skipped' % (r['r']['sk'], len(r['edits']))
        elif strip_markers(r['final']) != strip_markers(tm): fail = 'accepted result differs from the rewritten text: ' + json.dumps(docrun.first_diff(strip_markers(tm), strip_markers(r['final'])))
        if fail:
            reg = region(c, r['edits'], t0)
            if not reg and J.bold_led_para(d) and not r['err'] and J.unhead(strip_markers(r['final'])) == J.unhead(strip_markers(tm)): reg = ('D42', 'the "## " prefix of an all-caps bold paragraph is a function of its text: an edit that changes the capitals changes the prefix')
            if not reg and not r['err'] and c.get('din') and J.emptied_story({'din': c['din'], 'edits': r['edits']}) and J.norm_sep(strip_markers(r['final'])) == J.norm_sep(strip_markers(tm)):
                reg = ('D56', J.WHAT['D56'])
            f, kn = J.classify(c, fail, placement=True) if not reg else (fail, reg)
            if kn and kn[0] == 'D29b': kn = ('D29', kn[1])
            if kn: ck.known(kn[0], kn[1], case)
            else: ck.violation('oracle', case, fail)
        elif r['edits']: distinct.add(t0 + '|' + tm)
    # CLI text-file path on a few cases
    ncli = 0
    for (d, b, t0, tm, ch), r in list(zip(docs, res))[:12 if tier == 'quick' else 100]:
        if r['err'] or r['r']['sk']: continue
        with tempfile.TemporaryDirectory() as td:
            open(os.path.join(td, 'in.docx'), 'wb').write(b); open(os.path.join(td, 'mod.txt'), 'w', encoding='utf-8').write(tm)
            import adeu.cli as cli, sys
            old = sys.argv; sys.argv = ['adeu', 'apply', os.path.join(td, 'in.docx'), os.path.join(td, 'mod.txt'), '--author', E.AUTHOR]
            errf = io.StringIO(); olderr = sys.stderr; sys.stderr = errf
            try:
                try: cli.main(); code = 0
                except SystemExit as ex: code = ex.code or 0
            finally: sys.argv = old; sys.stderr = olderr
            outp = os.path.join(td, 'in_redlined.docx')
            if code != 0 or not os.path.exists(outp):
                ck.violation('oracle', {'text': t0, 'modified': tm}, 'CLI text-file path: exit %r / no output although the library applies every edit' % code); continue
            got = docrun.extract(open(outp, 'rb').read(), False); lib = docrun.extract(r['r']['out'], False)
            norm = lambda s: re.sub(r'\d{4}-\d{2}-\d{2}', 'DATE', s)
            if norm(got) != norm(lib): ck.violation('oracle', {'text': t0, 'modified': tm}, 'CLI text-file path writes a different result than the library')
            ncli += 1
    for (d, b, t0, tm, ch), r in list(zip(docs, res))[:3]: ck.sample({'text': t0, 'modified': tm, 'edits': r['edits'], 'final': r.get('final')})
    ck.cov['traces_validated_against_impl'] = inside
    ck.cov['input_distribution'] = {'documents': len(docs), 'change_kinds': kinds, 'engine_model_inside': inside, 'cli_path_cases': ncli}
    return ck.finish(
        rule='generated documents (paragraphs, tables, headings, bold runs; no pending changes) x rewritten texts with 1-3 word-level changes (replace, insert before/after, delete) at random words; '
             'non-trivial = at least one edit computed and applied; distinct by (text, rewritten text)', distinct=len(distinct))

def replay(path):
    r = json.load(open(path)); c = r['case']; d = c['doc']; d.setdefault('features', [])
    docrun.impl_init(); b = A.build(d)
    res = work((b, c['modified'])); print(res.get('edits'), res.get('err'), repr(res.get('final')))
    bad = res['err'] or res['r']['sk'] or strip_markers(res['final']) != strip_markers(c['modified'])
    din = A.read(b, table=list(d['rpr_table']))
    d56 = bad and not res['err'] and J.emptied_story({'din': din, 'edits': res['edits']}) and J.norm_sep(strip_markers(res['final'])) == J.norm_sep(strip_markers(c['modified']))
    if bad and not d56 and not region({'din': din}, res['edits'], c['text']): print('VIOLATION property=C12 replay=%s' % path); return 1
    print('property holds on this input (or lies in a recorded region)'); return 0
