"""C17 - tool front-ends are safe: errors are reported, files are never clobbered.
Proof: Effects.safe_sound / safe_cli_sound (checker soundness under every fault/branch oracle) + the checker accepts the
effect skeleton of every tool and CLI command regenerated from server.py / cli.py (Props/C17.v, vm_compute).
Dynamic half (validates the translator, finds the failing input): every tool / command x input kinds x path
configurations x a fault at the k-th internal call for every k, in child interpreters with the real server wiring;
observables: return value, bytes on fd 1, exit status, before/after snapshot of the directory."""
import io, json, os, random, shutil, subprocess, sys, tempfile, zipfile
from harness import core, skel

CHILD = r'''
import sys, os, json, io, types, traceback, shutil, builtins, zipfile
os.environ['PYTHONHASHSEED'] = '0'
spec = json.load(open(sys.argv[1]))
sys.path.insert(0, spec['src'])
# fd-level capture of stdout: the MCP protocol channel
out_path = spec['work'] + '/fd1.txt'
fd = os.open(out_path, os.O_WRONLY | os.O_CREAT | os.O_TRUNC)
os.dup2(fd, 1)
errf = open(spec['work'] + '/fd2.txt', 'w'); os.dup2(errf.fileno(), 2)
try:
    import mcp.server.fastmcp  # noqa
except Exception:
    m = types.ModuleType('mcp.server.fastmcp')
    class FastMCP:
        def __init__(self, *a, **k): pass
        def tool(self, *a, **k): return lambda f: f
        def run(self, *a, **k): pass
    m.FastMCP = FastMCP
    for n in ('mcp', 'mcp.server'):
        sys.modules.setdefault(n, types.ModuleType(n))
    sys.modules['mcp.server.fastmcp'] = m
import adeu.server as server
import adeu.cli as cli
from adeu.models import DocumentEdit, ReviewAction
import adeu.redline.engine as eng, adeu.ingest as ingest, adeu.diff as dif, adeu.markup as mk
import docx, docx.opc.pkgwriter as pw, docx.opc.phys_pkg as pp

class Injected(RuntimeError): pass
state = {'n': 0, 'k': None, 'trace': [], 'kind': 'call'}
def hit(name):
    i = state['n']; state['n'] += 1; state['trace'].append(name)
    if state['k'] is not None and i == state['k'] and state['kind'] == 'call':
        raise Injected('injected fault at call %d (%s)' % (i, name))
def wrap(obj, attr, name=None):
    f = getattr(obj, attr); name = name or attr
    def w(*a, **k):
        hit(name); return f(*a, **k)
    setattr(obj, attr, w)
E = eng.RedlineEngine
_init = E.__init__
def __init__(self, *a, **k):
    hit('RedlineEngine'); return _init(self, *a, **k)
E.__init__ = __init__
for a in ('apply_edits', 'apply_review_actions', 'accept_all_revisions', 'save_to_stream'): wrap(E, a)
for mod in (server, cli):
    for a in ('extract_text_from_stream', 'generate_edits_from_text'):
        if hasattr(mod, a): wrap(mod, a)
wrap(server, '_apply_edits_to_markdown', 'apply_edits_to_markdown'); wrap(cli, 'apply_edits_to_markdown')
wrap(pw.PackageWriter, 'write', 'pkg_write'); wrap(pp._ZipPkgWriter, 'write', 'zip_part_write')
wrap(ingest, 'Document', 'Document_ingest'); wrap(eng, 'Document', 'Document_engine')
real_open = builtins.open
class WFile:
    def __init__(s, f): s.f = f
    def write(s, data):
        i = state['n']; state['n'] += 1; state['trace'].append('write')
        if state['k'] is not None and i == state['k']:
            if state['kind'] == 'write':
                s.f.write(data[:len(data) // 2]); s.f.flush(); raise OSError(28, 'injected: disk full')
        return s.f.write(data)
    def __enter__(s): return s
    def __exit__(s, *a): s.f.close(); return False
    def __getattr__(s, n): return getattr(s.f, n)
def open_(file, mode='r', *a, **k):
    p = str(file)
    if p.startswith(spec['work'] + '/d'):
        if any(c in mode for c in 'wax+'):
            hit('open_w'); return WFile(real_open(file, mode, *a, **k))
        hit('open_r')
    return real_open(file, mode, *a, **k)
builtins.open = open_

def snapshot(d):
    out = {}
    for r, _, fs in os.walk(d):
        for f in fs:
            p = os.path.join(r, f); out[os.path.relpath(p, d)] = real_open(p, 'rb').read().hex()
    return out
results = []
for case in spec['cases']:
    d = spec['work'] + '/d'
    shutil.rmtree(d, ignore_errors=True); shutil.copytree(spec['work'] + '/template', d)
    before = snapshot(d)
    state.update(n=0, k=case.get('k'), trace=[], kind=case.get('kind', 'call'))
    size1 = os.path.getsize(out_path)
    res = {'id': case['id']}
    args = json.loads(json.dumps(case['args']).replace('@D@', d))
    try:
        if case['front'] == 'tool':
            kw = dict(args)
            if 'edits' in kw: kw['edits'] = [DocumentEdit(**e) for e in kw['edits']]
            if 'actions' in kw: kw['actions'] = [ReviewAction(**e) for e in kw['actions']]
            r = getattr(server, case['name'])(**kw)
            res['ret'] = r if isinstance(r, str) else ('NOT-A-STRING: %r' % (r,))
            res['isstr'] = isinstance(r, str)
        else:
            old = sys.argv; sys.argv = ['adeu'] + args
            so = io.StringIO(); real_stdout = sys.stdout; sys.stdout = so
            try:
                cli.main(); res['exit'] = 0
            except SystemExit as e:
                res['exit'] = e.code if isinstance(e.code, int) else (0 if e.code is None else 1)
            except BaseException as e:
                res['exit'] = 1; res['uncaught'] = '%s: %s' % (type(e).__name__, e)
            finally:
                sys.argv = old; sys.stdout = real_stdout
            res['cli_stdout'] = so.getvalue()[:200]
    except BaseException as e:
        res['raised'] = '%s: %s' % (type(e).__name__, e)
    sys.stdout.flush()
    res['fd1'] = os.path.getsize(out_path) - size1
    res['trace'] = list(state['trace']); res['ncalls'] = state['n']; state['k'] = None
    after = snapshot(d)
    res['changed'] = sorted(k for k in set(before) | set(after) if before.get(k) != after.get(k))
    res['after_sizes'] = {k: len(after[k]) // 2 for k in res['changed'] if k in after}
    # for successful tool calls keep the written bytes' text projection for the library-equality check
    if case['front'] == 'tool' and res.get('isstr') and not str(res.get('ret', '')).startswith('Error') and case.get('k') is None:
        for k in res['changed']:
            if k.endswith('.docx') and k in after:
                try:
                    res['out_text'] = ingest.extract_text_from_stream(io.BytesIO(bytes.fromhex(after[k])), filename=k)
                except BaseException as e: res['out_text'] = 'UNREADABLE ' + str(e)
            elif k.endswith('.md') and k in after: res['out_text'] = bytes.fromhex(after[k]).decode('utf-8')
    results.append(res)
json.dump(results, real_open(spec['work'] + '/results.json', 'w'))
'''

def make_docx(path, redlined=True, lead=''):
    core.use_repo()
    import docx
    from docx.oxml import parse_xml
    d = docx.Document()
    d.add_paragraph(lead + 'The quick brown fox jumps over the lazy dog.')
    p = d.add_paragraph('Second paragraph with ')
    r = p.add_run('bold'); r.bold = True
    p.add_run(' text and a tail.')
    if redlined:
        W = 'xmlns:w="http://schemas.openxmlformats.org/wordprocessingml/2006/main"'
        p2 = d.add_paragraph('Payment is due in ')
        p2._p.append(parse_xml('<w:del %s w:id="1" w:author="Bob" w:date="2024-01-01T00:00:00Z"><w:r><w:delText>thirty</w:delText></w:r></w:del>' % W))
        p2._p.append(parse_xml('<w:ins %s w:id="2" w:author="Bob" w:date="2024-01-01T00:00:00Z"><w:r><w:t>sixty</w:t></w:r></w:ins>' % W))
        p2.add_run(' days.')
    d.save(path)
    if redlined:      # an existing comment (by another author) that review rounds can REPLY to
        from adeu.redline.engine import RedlineEngine
        from adeu.models import DocumentEdit
        e = RedlineEngine(io.BytesIO(open(path, 'rb').read()), author='Carol')
        e.apply_edits([DocumentEdit(target_text='a tail', new_text='a long tail', comment='first comment')])
        open(path, 'wb').write(e.save_to_stream().getvalue())

def build_template(tdir):
    os.makedirs(tdir)
    make_docx(os.path.join(tdir, 'doc.docx'))
    shutil.copy(os.path.join(tdir, 'doc.docx'), os.path.join(tdir, 'doc_redlined.docx'))
    shutil.copy(os.path.join(tdir, 'doc.docx'), os.path.join(tdir, 'doc_reviewed.docx'))
    make_docx(os.path.join(tdir, 'other.docx'), redlined=False)
    # the same text with a clause number put in front: the diff is a pure insertion at the very start (no backward anchor), the one
    # path of the diff code that logs
    make_docx(os.path.join(tdir, 'numbered.docx'), redlined=False, lead='1. ')
    open(os.path.join(tdir, 'numbered.txt'), 'w').write('1. The quick brown fox jumps over the lazy dog.\n\nSecond paragraph with **bold** text and a tail.\n\nPayment is due in sixty days.')
    open(os.path.join(tdir, 'notdocx.docx'), 'w').write('this is plain text, not a zip')
    data = open(os.path.join(tdir, 'doc.docx'), 'rb').read()
    open(os.path.join(tdir, 'truncated.docx'), 'wb').write(data[:len(data) // 2])
    # broken document.xml inside a valid zip
    zin = zipfile.ZipFile(os.path.join(tdir, 'doc.docx'))
    with zipfile.ZipFile(os.path.join(tdir, 'badxml.docx'), 'w') as z:
        for n in zin.namelist(): z.writestr(n, b'<w:document' if n == 'word/document.xml' else zin.read(n))
    open(os.path.join(tdir, 'existing_out.docx'), 'wb').write(b'PRECIOUS EXISTING OUTPUT')
    open(os.path.join(tdir, 'existing_out.md'), 'wb').write(b'PRECIOUS EXISTING MD')
    open(os.path.join(tdir, 'modified.txt'), 'w').write('The quick red fox jumps over the lazy dog.\n\nSecond paragraph with **bold** text and a tail.\n\nPayment is due in sixty days.')
    open(os.path.join(tdir, 'text.md'), 'w').write('The quick brown fox.\n\nAnother line.')
    json.dump([{'target_text': 'quick brown', 'new_text': 'slow red', 'comment': 'c'}], open(os.path.join(tdir, 'edits.json'), 'w'))
    json.dump([{'target_text': 'quick brown', 'new_text': 'slow red'}, {'target_text': 'NOT THERE', 'new_text': 'x'}], open(os.path.join(tdir, 'edits_skip.json'), 'w'))
    # new text that cannot be encoded: a lone surrogate, which a JSON escape delivers as is ("\\ud800")
    open(os.path.join(tdir, 'edits_surrogate.json'), 'w').write('[{"target_text": "quick brown", "new_text": "slow \\ud800 red"}]')
    open(os.path.join(tdir, 'edits_bad.json'), 'w').write('{not json')

INPUTS = ['doc.docx', 'missing.docx', 'notdocx.docx', 'truncated.docx', 'badxml.docx']
EDITS = [{'target_text': 'quick brown', 'new_text': 'slow red', 'comment': 'why'}, {'target_text': 'lazy', 'new_text': ''}]
EDITS_SKIP = EDITS + [{'target_text': 'ABSENT TEXT', 'new_text': 'y'}]
EDITS_SURROGATE = [{'target_text': 'quick brown', 'new_text': 'slow \ud800 red'}]      # unusable input: the result cannot be written as UTF-8
ACTIONS = [{'action': 'ACCEPT', 'target_id': 'Chg:1'}, {'action': 'REJECT', 'target_id': 'Chg:2'}, {'action': 'ACCEPT', 'target_id': 'Chg:77'}, {'action': 'REPLY', 'target_id': 'Com:1', 'text': 'noted by the reviewer'}]

def base_cases():
    """fault-free cases: (front, name, args, expectation dict)"""
    cs = []
    D = '@D@/'
    for inp in INPUTS:
        cs.append(('tool', 'read_docx', {'file_path': D + inp}, {}))
        cs.append(('tool', 'read_docx', {'file_path': D + inp, 'clean_view': True}, {}))
        cs.append(('tool', 'diff_docx_files', {'original_path': D + inp, 'modified_path': D + 'other.docx'}, {}))
        cs.append(('tool', 'diff_docx_files', {'original_path': D + 'other.docx', 'modified_path': D + inp, 'compare_clean': False}, {}))
        for outp, exp in ((None, 'doc_redlined.docx'), (D + 'new_out.docx', 'new_out.docx'), (D + 'existing_out.docx', 'existing_out.docx')):
            cs.append(('tool', 'apply_structured_edits', {'original_docx_path': D + inp, 'edits': EDITS, 'author_name': 'Rev', 'output_path': outp}, {'out': exp if inp == 'doc.docx' else None}))
            cs.append(('tool', 'manage_review_actions', {'original_docx_path': D + inp, 'actions': ACTIONS, 'author_name': 'Rev', 'output_path': outp}, {'out': exp.replace('_redlined', '_reviewed') if inp == 'doc.docx' else None}))
        cs.append(('tool', 'accept_all_changes', {'docx_path': D + inp}, {'out': 'doc_clean.docx' if inp == 'doc.docx' else None}))
        cs.append(('tool', 'accept_all_changes', {'docx_path': D + inp, 'output_path': D + 'existing_out.docx'}, {'out': 'existing_out.docx' if inp == 'doc.docx' else None}))
        cs.append(('tool', 'apply_edits_as_markdown', {'docx_path': D + inp, 'edits': EDITS}, {'out': 'doc_markup.md' if inp == 'doc.docx' else None}))
        cs.append(('tool', 'apply_edits_as_markdown', {'docx_path': D + inp, 'edits': EDITS, 'output_path': D + 'existing_out.md', 'highlight_only': True, 'include_index': True, 'clean_view': False}, {'out': 'existing_out.md' if inp == 'doc.docx' else None}))
    cs.append(('tool', 'diff_docx_files', {'original_path': D + 'other.docx', 'modified_path': D + 'numbered.docx'}, {}))
    cs.append(('tool', 'diff_docx_files', {'original_path': D + 'doc.docx', 'modified_path': D + 'numbered.docx', 'compare_clean': False}, {}))
    # in-place conventions
    cs.append(('tool', 'apply_structured_edits', {'original_docx_path': D + 'doc_redlined.docx', 'edits': EDITS_SKIP, 'author_name': 'Rev'}, {'out': 'doc_redlined.docx'}))
    cs.append(('tool', 'manage_review_actions', {'original_docx_path': D + 'doc_reviewed.docx', 'actions': ACTIONS, 'author_name': 'Rev'}, {'out': 'doc_reviewed.docx'}))
    # the in-place convention must not override an explicit output path (product of the two configurations)
    cs.append(('tool', 'apply_structured_edits', {'original_docx_path': D + 'doc_redlined.docx', 'edits': EDITS, 'author_name': 'Rev', 'output_path': D + 'new_out2.docx'}, {'out': 'new_out2.docx'}))
    cs.append(('tool', 'manage_review_actions', {'original_docx_path': D + 'doc_reviewed.docx', 'actions': ACTIONS, 'author_name': 'Rev', 'output_path': D + 'new_out3.docx'}, {'out': 'new_out3.docx'}))
    cs.append(('tool', 'apply_structured_edits', {'original_docx_path': D + 'doc.docx', 'edits': EDITS, 'author_name': '  '}, {'out': None, 'err': True}))
    cs.append(('tool', 'manage_review_actions', {'original_docx_path': D + 'doc.docx', 'actions': ACTIONS, 'author_name': ''}, {'out': None, 'err': True}))
    # unusable edit text (unencodable): an error report, and neither a new nor an existing output file is touched
    cs.append(('tool', 'apply_edits_as_markdown', {'docx_path': D + 'doc.docx', 'edits': EDITS_SURROGATE}, {'out': None, 'err': True}))
    cs.append(('tool', 'apply_edits_as_markdown', {'docx_path': D + 'doc.docx', 'edits': EDITS_SURROGATE, 'output_path': D + 'existing_out.md'}, {'out': None, 'err': True}))
    cs.append(('cli', 'markup', ['markup', D + 'doc.docx', D + 'edits_surrogate.json'], {'exit0': False}))
    cs.append(('cli', 'markup', ['markup', D + 'doc.docx', D + 'edits_surrogate.json', '-o', D + 'existing_out.md'], {'exit0': False}))
    # CLI
    for inp in INPUTS:
        cs.append(('cli', 'extract', ['extract', D + inp], {'exit0': inp == 'doc.docx'}))
        cs.append(('cli', 'extract', ['extract', D + inp, '-o', D + 'existing_out.md'], {'exit0': inp == 'doc.docx', 'out': 'existing_out.md'}))
        cs.append(('cli', 'diff', ['diff', D + inp, D + 'modified.txt'], {'exit0': inp == 'doc.docx'}))
        cs.append(('cli', 'diff', ['diff', D + inp, D + 'other.docx', '--json'], {'exit0': inp == 'doc.docx'}))
        cs.append(('cli', 'apply', ['apply', D + inp, D + 'edits.json'], {'exit0': inp == 'doc.docx', 'out': 'doc_redlined.docx'}))
        cs.append(('cli', 'apply', ['apply', D + inp, D + 'edits.json', '-o', D + 'existing_out.docx'], {'exit0': inp == 'doc.docx', 'out': 'existing_out.docx'}))
        cs.append(('cli', 'apply', ['apply', D + inp, D + 'modified.txt', '--author', 'Z'], {'exit0': inp == 'doc.docx', 'out': 'doc_redlined.docx'}))
        cs.append(('cli', 'markup', ['markup', D + inp, D + 'edits.json'], {'exit0': inp == 'doc.docx', 'out': 'doc.md'}))
    cs.append(('cli', 'diff', ['diff', D + 'other.docx', D + 'numbered.docx'], {'exit0': True}))
    cs.append(('cli', 'apply', ['apply', D + 'doc.docx', D + 'numbered.txt', '-o', D + 'new_out5.docx'], {'exit0': True, 'out': 'new_out5.docx'}))
    cs.append(('cli', 'apply', ['apply', D + 'doc_redlined.docx', D + 'edits.json'], {'exit0': True, 'out': 'doc_redlined.docx'}))
    cs.append(('cli', 'apply', ['apply', D + 'doc_redlined.docx', D + 'edits.json', '-o', D + 'new_out4.docx'], {'exit0': True, 'out': 'new_out4.docx'}))
    cs.append(('cli', 'apply', ['apply', D + 'doc.docx', D + 'edits_skip.json'], {'exit0': False, 'out': 'doc_redlined.docx', 'skipped': True}))
    cs.append(('cli', 'apply', ['apply', D + 'doc.docx', D + 'edits_bad.json'], {'exit0': False}))
    cs.append(('cli', 'apply', ['apply', D + 'doc.docx', D + 'missing.json'], {'exit0': False}))
    cs.append(('cli', 'markup', ['markup', D + 'text.md', D + 'edits.json'], {'exit0': True, 'out': 'text_markup.md'}))
    cs.append(('cli', 'markup', ['markup', D + 'doc.docx', D + 'missing.json'], {'exit0': False}))
    cs.append(('cli', 'markup', ['markup', D + 'doc.docx', D + 'edits.json', '-o', D + 'existing_out.md', '-i', '--highlight'], {'exit0': True, 'out': 'existing_out.md'}))
    return cs

def run_children(jobs):
    """jobs: list of case lists; each runs in its own child interpreter; returns list of result lists"""
    works = []; procs = []
    py = '/venv/bin/python'
    for cases in jobs:
        w = tempfile.mkdtemp(prefix='c17_'); works.append(w)
        build_template(os.path.join(w, 'template'))
        json.dump({'src': core.SRC, 'work': w, 'cases': cases}, open(os.path.join(w, 'spec.json'), 'w'))
        open(os.path.join(w, 'child.py'), 'w').write(CHILD)
        procs.append(subprocess.Popen([py, os.path.join(w, 'child.py'), os.path.join(w, 'spec.json')], stdout=subprocess.DEVNULL, stderr=subprocess.DEVNULL))
    out = []
    for p, w in zip(procs, works):
        try: p.wait(timeout=1500)
        except subprocess.TimeoutExpired: p.kill()
        rp = os.path.join(w, 'results.json')
        if os.path.exists(rp): out.append(json.load(open(rp)))
        else:
            err = open(os.path.join(w, 'fd2.txt')).read()[-1500:] if os.path.exists(os.path.join(w, 'fd2.txt')) else 'no output'
            out.append([{'id': c['id'], 'child_crashed': err} for c in json.load(open(os.path.join(w, 'spec.json')))['cases']])
        shutil.rmtree(w, ignore_errors=True)
    return out

def judge(case, exp, r, lib_text=None):
    """the property statement on one observed execution. returns (failure text | None, known-finding id | None)"""
    if 'child_crashed' in r: return 'harness child crashed: ' + r['child_crashed'], None
    changed = r.get('changed', [])
    src_names = [os.path.basename(a) for a in (case['args'].values() if isinstance(case['args'], dict) else case['args']) if isinstance(a, str) and a.endswith('.docx')]
    if case['front'] == 'tool':
        if 'raised' in r: return 'tool raised instead of returning a string: ' + r['raised'], None
        if not r.get('isstr'): return 'tool did not return a string: %s' % r.get('ret'), None
        if r.get('fd1', 0) > 0: return 'tool wrote %d bytes to standard output (the protocol channel)' % r['fd1'], None
        is_err = r['ret'].startswith('Error')
        if is_err and changed:
            if case.get('kind') == 'write': return 'error reported but files changed: %s' % changed, 'D22'
            return 'tool reported an error (%r) but files were created or altered: %s %s' % (r['ret'][:80], changed, r.get('after_sizes')), None
        if not is_err:
            out = exp.get('out')
            if exp.get('err'): return 'expected an error report, got %r' % r['ret'][:80], None
            allowed = {out} if out else set()
            extra = [c for c in changed if c not in allowed]
            if extra: return 'files other than the designated output changed: %s (designated %s)' % (extra, out), None
            if out and case.get('k') is None and out not in changed and case['name'] not in ('read_docx', 'diff_docx_files'):
                return 'success reported but the designated output %s was not written' % out, None
    else:
        ex = r.get('exit')
        if case.get('k') is None:
            if exp.get('exit0') and ex != 0: return 'exit status %r on usable input without skipped edits (%s)' % (ex, r.get('uncaught')), None
            if exp.get('exit0') is False and ex == 0: return 'exit status 0 although edits were skipped or an input was unusable', None
        if ex != 0 and not exp.get('skipped') and changed:
            if case.get('kind') == 'write': return 'error exit but files changed: %s' % changed, 'D22'
            return 'command reported an error (exit %r, %s) but files were created or altered: %s %s' % (ex, r.get('uncaught'), changed, r.get('after_sizes')), None
        if ex == 0 or exp.get('skipped'):
            out = exp.get('out'); allowed = {out} if out else set()
            extra = [c for c in changed if c not in allowed]
            if extra: return 'files other than the designated output changed: %s' % extra, None
    return None, None

def library_text(case):
    """what the library produces for the same input (accept-view independent: raw extraction of the result)"""
    core.use_repo()
    from adeu.redline.engine import RedlineEngine
    from adeu.models import DocumentEdit, ReviewAction
    from adeu.ingest import extract_text_from_stream
    from adeu.markup import apply_edits_to_markdown
    t = tempfile.mkdtemp(prefix='c17lib_')
    try:
        build_template(os.path.join(t, 'template')); a = case['args']
        def rd(p): return io.BytesIO(open(p.replace('@D@', os.path.join(t, 'template')), 'rb').read())
        n = case['name']
        if n == 'apply_structured_edits':
            e = RedlineEngine(rd(a['original_docx_path']), author=a['author_name']); e.apply_edits([DocumentEdit(**x) for x in a['edits']])
            return extract_text_from_stream(e.save_to_stream(), filename='x.docx')
        if n == 'manage_review_actions':
            e = RedlineEngine(rd(a['original_docx_path']), author=a['author_name']); e.apply_review_actions([ReviewAction(**x) for x in a['actions']])
            return extract_text_from_stream(e.save_to_stream(), filename='x.docx')
        if n == 'accept_all_changes':
            e = RedlineEngine(rd(a['docx_path'])); e.accept_all_revisions()
            return extract_text_from_stream(e.save_to_stream(), filename='x.docx')
        if n == 'apply_edits_as_markdown':
            txt = extract_text_from_stream(rd(a['docx_path']), filename='doc.docx', clean_view=a.get('clean_view', True))
            return apply_edits_to_markdown(markdown_text=txt, edits=[DocumentEdit(**x) for x in a['edits']], include_index=a.get('include_index', False), highlight_only=a.get('highlight_only', False))
    finally:
        shutil.rmtree(t, ignore_errors=True)
    return None

def dfs_names(raw):
    out = []
    for e in raw or []:
        if e[0] == 'Compute': out.append(e[1])
        elif e[0] == 'OpenW': out.append('open_w')
        elif e[0] == 'Write': out.append('write')
        elif e[0] == 'If': out += dfs_names(e[2]) + dfs_names(e[3])
        elif e[0] == 'Try':
            out += dfs_names(e[1])
            for _, b in e[2]: out += dfs_names(b)
    return out

def is_subseq(a, b):
    it = iter(b)
    return all(x in it for x in a)

def run(tier, seed):
    from harness.props import C18
    ck = core.Check('C17', tier, seed)
    core.build_coq()
    info, rc, out = C18.regen()
    ck.proof_gate(['Props/C17.v'], extra_trusted=[
        'translator harness/skel.py (Python ast -> Effects.stmt, fail-closed on unclassified calls); its abstractions are listed in its docstring; validated each run: the order of engine calls / open-for-write / write in every fault-free dynamic execution must embed in the generated skeleton',
        'FM1: a write of already computed bytes does not fail (its negation, FM2, is the recorded finding D22)',
        'the file system is abstracted to the state of the designated output (untouched / truncated / written); OS semantics of open/write are modelled, not verified',
        'mcp.server.fastmcp is stubbed when it cannot be imported; server.py then runs with its own logging configuration'])
    ck.cov['translator_failures'] = info['failed']
    base = base_cases()
    cases0 = [{'id': i, 'front': f, 'name': n, 'args': a} for i, (f, n, a, e) in enumerate(base)]
    nshards = core.NPROC
    res0 = {}
    for rs in run_children([cases0[i::nshards] for i in range(nshards)]):
        for r in rs: res0[r['id']] = r
    # fault cases: for every fault-free case with calls, a fault at every k (call), and at every write (FM2 -> D22)
    fcases = []
    for c in cases0:
        r = res0.get(c['id'], {})
        n = r.get('ncalls', 0)
        ks = list(range(n))
        if tier == 'quick' and c['front'] == 'tool' and 'doc.docx' not in json.dumps(c['args']):
            ks = ks[:3]                       # unusable inputs fail early anyway
        for k in ks:
            kind = 'write' if r['trace'][k] == 'write' else 'call'
            fcases.append(dict(c, id=len(cases0) + len(fcases), base=c['id'], k=k, kind=kind))
            if kind == 'write': fcases.append(dict(c, id=len(cases0) + len(fcases), base=c['id'], k=k, kind='call'))
    res1 = {}
    for rs in run_children([fcases[i::nshards] for i in range(nshards)]):
        for r in rs: res1[r['id']] = r
    dist = {'fault_free': len(cases0), 'fault_at_call': 0, 'fault_in_write': 0}
    nontriv = set(); ntr = 0
    raw = {}
    for grp in ('tools', 'cli'):
        raw.update(info['raw'].get(grp) or {})
    for c in cases0 + fcases:
        exp = base[c.get('base', c['id'])][3]
        r = (res0 if 'k' not in c else res1).get(c['id'])
        if r is None: continue
        ck.count()
        if 'k' in c: dist['fault_in_write' if c['kind'] == 'write' else 'fault_at_call'] += 1
        nontriv.add((c['name'], json.dumps(c['args'], sort_keys=True), c.get('k'), c.get('kind')))
        fail, known = judge(c, exp, r)
        if fail and known:
            ck.known(known, 'non-atomic write: a failure while writing the computed bytes leaves a truncated output next to an error report (FM2)')
        elif fail:
            ck.violation('oracle', {'front': c['front'], 'name': c['name'], 'args': c['args'], 'fault_at_call': c.get('k'), 'fault_kind': c.get('kind'),
                                    'observed': {k: r.get(k) for k in ('ret', 'exit', 'uncaught', 'raised', 'fd1', 'changed', 'after_sizes', 'trace')}}, fail)
        # translator validation on fault-free runs
        if 'k' not in c:
            fn = c['name'] if c['front'] == 'tool' else 'handle_' + c['name']
            names = [t for t in r.get('trace', []) if t in ('RedlineEngine', 'apply_edits', 'apply_review_actions', 'accept_all_revisions', 'save_to_stream',
                                                             'extract_text_from_stream', 'generate_edits_from_text', 'apply_edits_to_markdown', 'open_w', 'write')]
            sk = [x if x != '_apply_edits_to_markdown' else 'apply_edits_to_markdown' for x in dfs_names(raw.get(fn))]
            if fn in raw and not is_subseq(names, sk):
                ck.corr_broken.append(('effect trace of %s does not embed in its generated skeleton (translator validation)' % fn, {'trace': names, 'skeleton': sk, 'args': c['args']}))
            else: ntr += 1
            # the result written equals what the library produces
            if c['front'] == 'tool' and 'out_text' in r:
                lt = library_text(c)
                if lt is not None and lt != r['out_text']:
                    ck.violation('oracle', {'name': c['name'], 'args': c['args'], 'written': r['out_text'][:400], 'library': lt[:400]}, 'the written result differs from what the library produces for the same input')
    for c in cases0[:2] + fcases[:3]:
        r = (res0 if 'k' not in c else res1).get(c['id'], {})
        ck.sample({'front': c['front'], 'name': c['name'], 'args': c['args'], 'fault_at_call': c.get('k'), 'ret': r.get('ret', r.get('exit')), 'changed': r.get('changed')})
    ck.cov['traces_validated_against_impl'] = ntr
    return ck.finish(
        rule='every MCP tool and CLI command x {valid, missing, non-DOCX, truncated zip, broken XML} inputs x path configurations (default name, explicit new file, explicit existing file, '
             'in-place _redlined/_reviewed) fault-free, then a fault raised at the k-th internal call for every k of the fault-free run (engine entry points, python-docx load, package/zip part writes, open, write); '
             'distinct = distinct (front-end, arguments, fault point) tuples; non-trivial = all (every case exercises a tool end to end)',
        distinct=len(nontriv), extra={'input_distribution': dist, 'exhaustive': True})

def replay(path):
    r = json.load(open(path)); c = r['case']
    case = {'id': 0, 'front': c['front'], 'name': c['name'], 'args': c['args']}
    if c.get('fault_at_call') is not None: case.update(k=c['fault_at_call'], kind=c.get('fault_kind') or 'call')
    (rs,) = run_children([[case]])
    print(json.dumps(rs[0], indent=1)[:2000])
    fail, known = judge(case, {}, rs[0])
    if fail and not known:
        print('VIOLATION property=C17 replay=%s' % path); print(fail); return 1
    print('property holds on this input' if not fail else 'known finding ' + known); return 0
