"""Shared machinery of every check: proof gate, model driver, evidence, replays, known findings."""
import hashlib, json, os, re, subprocess, sys, time, logging
VERIF = os.path.dirname(os.path.dirname(os.path.abspath(__file__)))
COQ = os.path.join(VERIF, 'coq')
REPO = os.environ.get('ADEU_REPO', '/repo')
SRC = os.path.join(REPO, 'src')
DRIVER = os.path.join(COQ, 'Extract', 'driver')
NPROC = int(os.environ.get('VERIF_JOBS', '16'))
os.environ.setdefault('PYTHONHASHSEED', '0')
os.environ['ADEU_VERIF'] = '1'

def use_repo():
    """Make `import adeu` resolve to /repo/src as it is now, silence structlog (it logs to stdout)."""
    if sys.path[0] != SRC:
        sys.path.insert(0, SRC)
    import structlog
    structlog.configure(wrapper_class=structlog.make_filtering_bound_logger(logging.CRITICAL))

FORBIDDEN = r'\b(Admitted|admit|Axiom|Axioms|Parameter|Parameters|Conjecture|Admit Obligations)\b|Unset Guard|bypass_check|type-in-type|impredicative-set|Unset Positivity|Unset Universe'

def sh(cmd, timeout, cwd=None, inp=None):
    try:
        r = subprocess.run(cmd, shell=isinstance(cmd, str), cwd=cwd, input=inp, capture_output=True, text=True, timeout=timeout)
        return r.returncode, r.stdout + r.stderr
    except subprocess.TimeoutExpired as e:
        return 124, 'TIMEOUT after %ss: %s' % (timeout, cmd)

def strip_coq_comments(s):
    out = []; depth = 0; i = 0
    while i < len(s):
        if s.startswith('(*', i): depth += 1; i += 2; continue
        if s.startswith('*)', i) and depth: depth -= 1; i += 2; continue
        if not depth: out.append(s[i])
        i += 1
    return ''.join(out)

def forbidden_scan():
    bad = []
    for root, _, files in os.walk(COQ):
        for f in files:
            if f.endswith('.v'):
                p = os.path.join(root, f)
                src = strip_coq_comments(open(p).read())
                for m in re.finditer(FORBIDDEN, src):
                    bad.append('%s: %s' % (os.path.relpath(p, COQ), m.group(0)))
                # Variable / Hypothesis outside a section
                depth = 0
                for line in src.split('\n'):
                    if re.match(r'\s*Section\s', line): depth += 1
                    elif re.match(r'\s*End\s', line) and depth: depth -= 1
                    elif depth == 0 and re.match(r'\s*(Variable|Variables|Hypothesis|Hypotheses|Context)\b', line):
                        bad.append('%s: %s outside a section' % (os.path.relpath(p, COQ), line.strip()[:40]))
    return bad

def build_coq(timeout=1500):
    """Full .vo build of the project (incremental), then the OCaml driver."""
    if not os.path.exists(os.path.join(COQ, 'Makefile')):
        rc, out = sh('coq_makefile -f _CoqProject -o Makefile', 60, cwd=COQ)
        if rc: return False, out
    rc, out = sh('make -j%d' % min(NPROC, 8), timeout, cwd=COQ)
    if rc: return False, out[-4000:]
    ex = os.path.join(COQ, 'Extract')
    src_m = max(os.path.getmtime(os.path.join(ex, f)) for f in ('model.ml', 'driver.ml'))
    if not os.path.exists(DRIVER) or os.path.getmtime(DRIVER) < src_m:
        rc, out2 = sh('ocamlfind ocamlopt -O2 -w -a model.mli model.ml driver.ml -o driver', 300, cwd=ex)
        if rc: return False, out2[-4000:]
    return True, out[-2000:]

def coq_args():
    return ['-Q', 'Base', 'Adeu', '-Q', 'Model', 'Adeu', '-Q', 'Proofs', 'Adeu', '-Q', 'Props', 'Adeu', '-Q', 'Gen', 'Adeu', '-Q', 'Extract', 'Adeu']

def check_props(files, timeout=600):
    """Re-compile the given Props files from scratch; return (ok, theorems, assumptions, log).
    theorems: names stated in the files; assumptions: {theorem: text printed by Print Assumptions}."""
    theorems = []; assumptions = {}; log = ''
    ok = True
    for f in files:
        path = os.path.join(COQ, f)
        src = strip_coq_comments(open(path).read())
        names = re.findall(r'(?m)^\s*(?:Theorem|Corollary)\s+(\w+)', src)
        theorems += names
        printed = re.findall(r'Print Assumptions\s+(\w+)', src)
        missing = [n for n in names if n not in printed]
        if missing:
            ok = False; log += '%s: no Print Assumptions for %s\n' % (f, missing)
        rc, out = sh(['coqc'] + coq_args() + [f], timeout, cwd=COQ)
        log += out[-3000:]
        if rc:
            ok = False; continue
        # output: one block per Print Assumptions, in order
        blocks = re.split(r'(?m)^(?=Closed under the global context|Axioms:)', out)
        blocks = [b.strip() for b in blocks if b.strip().startswith(('Closed under', 'Axioms:'))]
        for n, b in zip(printed, blocks):
            assumptions[n] = b
        if len(blocks) != len(printed):
            ok = False; log += '%s: %d Print Assumptions but %d outputs\n' % (f, len(printed), len(blocks))
    return ok, theorems, assumptions, log

def run_driver(mode, lines, shards=None, timeout=3000):
    """Feed `lines` to the extracted model (OCaml), sharded over processes; returns list of output lines."""
    if not lines: return []
    shards = shards or min(NPROC, max(1, len(lines) // 2000 + 1))
    n = len(lines); size = (n + shards - 1) // shards
    procs = []
    for i in range(0, n, size):
        p = subprocess.Popen([DRIVER, mode], stdin=subprocess.PIPE, stdout=subprocess.PIPE, text=True)
        procs.append((p, lines[i:i + size]))
    import threading
    outs = [None] * len(procs)
    def work(k):
        p, ls = procs[k]
        o, _ = p.communicate('\n'.join(ls) + '\n', timeout=timeout)
        outs[k] = o.split('\n')[:len(ls)]
    ts = [threading.Thread(target=work, args=(k,)) for k in range(len(procs))]
    [t.start() for t in ts]; [t.join() for t in ts]
    res = []
    for o in outs: res += o
    assert len(res) == n, (len(res), n)
    return res

def vm_compute_lines(prelude, exprs, timeout=600, tag='cases'):
    """Cross-check path: evaluate Gallina expressions (each of type str = list N, or anything printable on one line)
    with vm_compute inside coqc. Returns the list of printed results (as raw strings, whitespace-normalised)."""
    work = os.path.join(VERIF, 'work'); os.makedirs(work, exist_ok=True)
    path = os.path.join(work, '%s_%d.v' % (tag, os.getpid()))
    with open(path, 'w') as f:
        f.write(prelude + '\n')
        for e in exprs:
            f.write('Eval vm_compute in (%s).\n' % e)
    rc, out = sh(['coqc'] + coq_args() + ['-Q', work, 'Work', path], timeout, cwd=COQ)
    for ext in ('.v', '.vo', '.vok', '.vos', '.glob'):
        try: os.remove(path[:-2] + ext)
        except OSError: pass
    try: os.remove(os.path.join(work, '.%s_%d.aux' % (tag, os.getpid())))
    except OSError: pass
    if rc: raise RuntimeError('vm_compute cross-check failed to compile: ' + out[-2000:])
    parts = re.split(r'(?m)^\s*= ', out)[1:]
    res = []
    for p in parts:
        p = re.sub(r'\s+', ' ', p).strip()
        p = re.sub(r' : [^:]*$', '', p)     # drop the type annotation
        res.append(p)
    return res

USED = set()      # every character handed to the model in this process
def enc(s): USED.update(s); return ','.join(str(ord(c)) for c in s)
def dec(s): return ''.join(chr(int(x)) for x in s.split(',') if x)
def coq_str(s): USED.update(s); return '[' + ';'.join('%d%%N' % ord(c) for c in s) + ']'
def coq_N_list_to_py(s):
    return ''.join(chr(int(x)) for x in re.findall(r'(\d+)%N', s)) if '%N' in s else ''.join(chr(int(x)) for x in re.findall(r'\d+', s))

class Findings:
    def __init__(self):
        p = os.path.join(VERIF, 'known_findings.json')
        self.data = json.load(open(p)) if os.path.exists(p) else {'findings': [], 'fixed': []}
    def for_prop(self, pid): return [f for f in self.data['findings'] if pid in f['properties']]
    def fixed_for(self, pid): return [f for f in self.data.get('fixed', []) if pid in f['properties']]

def finding_cases(pid):
    """replay inputs of the known findings (and of the fixed defects) recorded for this property"""
    out = []
    fs = Findings()
    for f in fs.for_prop(pid) + fs.fixed_for(pid):
        p = os.path.join(VERIF, f.get('replay', ''))
        if f.get('replay') and os.path.exists(p):
            out.append((f.get('id') or f.get('commit'), json.load(open(p)).get('case')))
    return out

class Check:
    """One run of one property's check."""
    def __init__(self, pid, tier, seed):
        self.pid = pid; self.tier = tier; self.seed = seed; self.t0 = time.time()
        self.violations = []          # (kind, replay dict)
        self.cov = {'evaluations': 0, 'distinct_nontrivial': 0, 'rule': '', 'samples': [], 'obligations': 0, 'discharged': 0,
                    'checker_cmd': '', 'trusted_base': [], 'traces_validated_against_impl': 0}
        self.assumptions = []
        self.known_seen = {}
        self.findings = Findings()
        self.proof_ok = True; self.proof_log = ''
        self.corr_broken = []         # names of correspondences that no longer check (with a sample)
    # ---- proof gate
    def proof_gate(self, props_files, extra_trusted=()):
        bad = forbidden_scan()
        ok, log = build_coq()
        thms = []; ass = {}
        if ok:
            ok2, thms, ass, log2 = check_props(props_files)
            ok = ok and ok2; log += log2
        if bad:
            ok = False; log += '\nforbidden tokens: ' + '; '.join(bad)
        self.proof_ok = ok; self.proof_log = log
        self.cov['obligations'] = max(len(thms), 1)
        self.cov['discharged'] = len([t for t in thms if t in ass]) if ok else 0
        self.cov['theorems'] = thms
        self.cov['print_assumptions'] = ass
        self.cov['checker_cmd'] = 'make -C /verif/coq (full .vo build, coqc 8.16.1) && coqc ' + ' '.join(props_files)
        axioms = sorted({a for t in ass.values() if t.startswith('Axioms:') for a in re.findall(r'(?m)^\s*(\S+)\s*:', t[7:])})
        self.cov['trusted_base'] = ['Coq 8.16.1 kernel (coqc); vm_compute used; native_compute not used',
                                    'axioms reported by Print Assumptions: ' + (', '.join(axioms) if axioms else 'none (every theorem closed under the global context)'),
                                    'extraction: ExtrOcamlBasic only (Extract Inductive bool/option/unit/list/prod/sumbool), no Extract Constant; OCaml 4.13.1; hand-written driver.ml',
                                    ] + list(extra_trusted)
        return ok
    # ---- counting
    def count(self, n=1): self.cov['evaluations'] += n
    def sample(self, s):
        if len(self.cov['samples']) < 6: self.cov['samples'].append(s)
    # ---- reporting
    def violation(self, kind, case, what, no_input=False):
        self.violations.append({'kind': kind, 'what': what, 'case': case, 'no_failing_input_found': no_input})
    def known(self, fid, what, case=None):
        """a failure inside the region of a finding listed in known_findings.json; an unlisted id is a violation"""
        if any(f['id'] == fid for f in self.findings.for_prop(self.pid)): self.known_seen.setdefault(fid, what)
        else: self.violation('oracle', case or {'finding': fid}, 'failure attributed to %s, which known_findings.json does not list for %s: %s' % (fid, self.pid, what))
    def finish(self, rule, distinct=None, extra=None, assumptions=()):
        self.cov['rule'] = rule
        if distinct is not None: self.cov['distinct_nontrivial'] = distinct
        if extra: self.cov.update(extra)
        # decision
        tb = char_table_mismatches(); up = used_char_problems()
        self.cov['char_tables'] = {'unicode_swept_for_whitespace': 0x110000, 'exact_below': EXACT_UPTO, 'mismatches': len(tb), 'characters_given_to_the_model': len(USED), 'given_outside_exact_range_with_a_class': up[:10]}
        if tb or up: self.corr_broken.append(('character class tables (Chars.v / Inst.v) vs Python str.isspace / \\w / isupper / islower', {'table_mismatches': tb[:20], 'used_outside_exact_range': up[:20]}))
        out_lines = []
        vio = list(self.violations)
        concrete = [v for v in vio if not v['no_failing_input_found']]
        if not self.proof_ok and not concrete:
            vio.append({'kind': 'proof', 'what': 'proof gate failed: a theorem or the build no longer checks', 'case': {'log': self.proof_log[-3000:]}, 'no_failing_input_found': True})
        if self.corr_broken and not concrete:
            for name, sample in self.corr_broken[:3]:
                vio.append({'kind': 'correspondence', 'what': 'model/implementation correspondence no longer checks: ' + name, 'case': sample, 'no_failing_input_found': True})
        # report concrete ones first; if there is a concrete one, drop the no-input ones
        concrete = [v for v in vio if not v['no_failing_input_found']]
        report = concrete[:3] if concrete else vio[:3]
        for fid, what in self.known_seen.items():
            out_lines.append('KNOWN-FINDING: property=%s %s %s' % (self.pid, fid, what))
        rp_dir = os.path.join(VERIF, 'replays'); os.makedirs(rp_dir, exist_ok=True)
        seen_paths = set()
        for v in report:
            blob = json.dumps(v, sort_keys=True, default=str)
            h = hashlib.sha1(blob.encode()).hexdigest()[:10]
            path = os.path.join(rp_dir, '%s-%s.json' % (self.pid, h))
            if path in seen_paths: continue
            seen_paths.add(path)
            json.dump({'property': self.pid, 'seed': self.seed, 'tier': self.tier, **v}, open(path, 'w'), indent=1, default=str)
            out_lines.append('VIOLATION property=%s replay=%s%s' % (self.pid, path, ' no-failing-input-found' if v['no_failing_input_found'] else ''))
        ev = {'property_id': self.pid, 'tier': self.tier, 'seed': self.seed, 'level': 'proof', 'coverage': self.cov,
              'assumptions': list(assumptions), 'wall_s': round(time.time() - self.t0, 2), 'violations': len(report)}
        ev['coverage']['known_findings_seen'] = sorted(self.known_seen)
        ev['coverage']['correspondence_broken'] = [n for n, _ in self.corr_broken]
        os.makedirs(os.path.join(VERIF, 'evidence'), exist_ok=True)
        json.dump(ev, open(os.path.join(VERIF, 'evidence', self.pid + '.json'), 'w'), indent=1, default=str)
        for l in out_lines: print(l)
        print('%s tier=%s seed=%d evaluations=%d distinct_nontrivial=%d obligations=%d discharged=%d wall=%.1fs %s' % (
            self.pid, self.tier, self.seed, self.cov['evaluations'], self.cov['distinct_nontrivial'], self.cov['obligations'],
            self.cov['discharged'], time.time() - self.t0, 'VIOLATIONS=%d' % len(report) if report else 'OK'))
        return 1 if report else 0


# ---- character tables: Base/Chars.v + Model/Inst.v against Python, on every run
EXACT_UPTO = 0x250
def py_classes(ch):
    import unicodedata
    return (1 if ch.isspace() else 0) + (2 if (ch.isalnum() or ch == '_') else 0) + (4 if ch.isupper() else 0) + (8 if (ch.islower() or unicodedata.category(ch) == 'Lt') else 0)
_TABLE = {}
def char_table_mismatches():
    """code points on which the model's class tables differ from Python's: whitespace over all of Unicode, word / upper /
    lower exactly below U+0250 (above it the model calls every character non-word and uncased: such characters must not be
    handed to the model - see used_char_problems)"""
    if 'bad' in _TABLE: return _TABLE['bad']
    step = 4096; lines = ['%d %d' % (a, min(a + step, 0x110000)) for a in range(0, 0x110000, step)]
    out = run_driver('chars', lines, shards=NPROC)
    bad = []; model = {}
    for ln, o in zip(lines, out):
        a = int(ln.split()[0])
        for k, x in enumerate(o):
            v = ord(x) - 65; c = a + k; pc = py_classes(chr(c))
            if (v & 1) != (pc & 1): bad.append((c, 'space', v, pc))
            if c < EXACT_UPTO and v != pc: bad.append((c, 'classes', v, pc))
            if c >= EXACT_UPTO and v & 14: bad.append((c, 'model claims a class above the exact range', v, pc))
    _TABLE['bad'] = bad
    return bad
def used_char_problems():
    """characters given to the model on which its tables are not exact"""
    return sorted(ord(c) for c in USED if ord(c) >= EXACT_UPTO and (py_classes(c) & 14))
