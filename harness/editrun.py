"""Edit batches on generated documents: generators, implementation/model runs, and the per-property oracles
(C01, C02, C08, C09, C10, C16) evaluated on the REAL output through the independent reader."""
import io, itertools, json, random, re, zipfile
from multiprocessing import Pool
from lxml import etree
from harness import core, absdoc as A, docgen, docrun

AUTHOR = 'Reviewer Z'

# ----------------------------------------------------------------------------- views of a document (reader side)
def para_texts(doc, view):
    """per paragraph (document order) text of real characters: 'acc' accepted view, 'raw' everything; tab -> space"""
    out = []
    for p in A.paras(doc):
        at = A.atoms(p['nodes'])
        if view == 'acc': at = [a for a in at if a[0] == 'ch' and not any(k == 'd' for k, _ in a[3])]
        out.append(''.join(a[1] for a in at if a[0] == 'ch').replace('\t', ' '))
    return out

def story_starts(doc):
    """accepted text of the first paragraph of every story after the first one (where an insertion must not slip into the story before)"""
    out = []
    for st in doc['stories'][1:]:
        ps = list(A.paras({'stories': [st]}))
        if ps:
            at = [a for a in A.atoms(ps[0]['nodes']) if a[0] == 'ch' and not any(k == 'd' for k, _ in a[3])]
            out.append(''.join(a[1] for a in at).replace('\t', ' '))
    return out

def literal(new):
    """what the new text reads as once well-formed **bold** / _italic_ spans have become formatting (D20 pattern)"""
    pat = re.compile(r"(\*\*(?=[^\s*])(?:.*?[^\s*])?\*\*)|((?<![\w_])_(?=[^\s_])(?:.*?[^\s_])?_(?![\w_]))")
    def go(t):
        m = pat.search(t)
        if not m: return t
        inner = m.group(1)[2:-2] if m.group(1) else m.group(2)[1:-1]
        return t[:m.start()] + go(inner) + go(t[m.end():])
    return go(new)

# ----------------------------------------------------------------------------- batch generators
NEWS = ['X', '', 'new words', 'Z', 'replacement text here']
NL_TARGETS = []      # non-empty while a generator wants targets that cross a line break inside a paragraph
def pick_target(rng, txt, maxlen=14):
    if len(txt) < 2: return None
    a = rng.randrange(len(txt)); ln = rng.randint(1, min(maxlen, len(txt) - a))
    if rng.random() < .5:      # word aligned
        ws = [m.span() for m in re.finditer(r'\S+', txt)]
        if ws:
            i = rng.randrange(len(ws)); j = min(len(ws) - 1, i + rng.randint(0, 2)); a, ln = ws[i][0], ws[j][1] - ws[i][0]
    t = txt[a:a + ln]
    if '\n' in t and not (NL_TARGETS and t.strip('\n') == t and t.count('\n') == 1): return None      # (a line break inside the target: only where asked for)
    return t if t.strip() else None
def variants(rng, t):
    k = len(t) // 2
    ws = t.split(' ')
    if len(ws) >= 2 and rng.random() < .2:      # new text repeating material around the change point (prefix and suffix candidates overlap)
        return rng.choice([ws[0] + ' ' + t, t + ' ' + ws[-1], ' '.join(ws[:-1]) + ' ' + ' '.join(ws[:-1]) + ' ' + ws[-1], ws[0] + ' ' + ws[0] + ' ' + ' '.join(ws[1:])])
    dup = [i for i in range(len(ws) - 1) if ws[i] == ws[i + 1] and ws[i]]
    if dup and rng.random() < .6:                       # one copy of a repeated word removed
        i = rng.choice(dup); return ' '.join(ws[:i] + ws[i + 1:])
    if len(t) >= 3 and rng.random() < .12:            # the middle removed / only a head kept: common prefix and suffix candidates of target and new text overlap when characters repeat
        a = rng.randint(1, len(t) - 1); b = rng.randint(a, len(t))
        return t[:a] + t[b:]
    return rng.choice([rng.choice(NEWS), '', t + ' more', 'pre ' + t, t[:k] + 'Q' + t[k:], t[:k], t[k:], t.upper(), '**' + t.strip() + '**', '_it_ ' + t, t + ' ', 'a**b', 'x_y_z'])
def virtual_first(rng, raw, acc):
    """a short target whose first occurrence in the raw view lies inside generated text (comment / change metadata) and which
    also occurs in the text of the document itself: the matcher has to pass over the generated occurrence (fix D54)"""
    metas = list(re.finditer(r'\{>>.*?<<\}', raw, re.S))
    if not metas: return None
    m = rng.choice(metas); body = m.group(0); cands = []
    for _ in range(24):
        if len(body) < 3: break
        a = rng.randrange(len(body) - 1); t = body[a:a + rng.randint(2, 4)]
        if '\n' in t or not t.strip(): continue
        if m.start() <= raw.find(t) < m.end() and any(t in x for x in acc): cands.append(t)
    if not cands: return None
    t = rng.choice(cands)
    return (t, rng.choice(['VIRT', t.upper(), '', t + 'x']), rng.choice([None, 'c']), None)

def cross_para(rng, raw):
    """a target running over the end of one paragraph into the next one (one separator, no markup); the new text joins, replaces or
    deletes the two pieces, or is block text - with a heading line of the level of the paragraph the target starts in"""
    seps = [m.start() for m in re.finditer(r'\n\n', raw)]
    rng.shuffle(seps)
    for p in seps[:8]:
        a = max(0, p - rng.randint(1, 9)); b = min(len(raw), p + 2 + rng.randint(1, 9))
        t = raw[a:b]
        if any(ch in t for ch in '{}|') or t.count('\n') != 2: continue
        left, right = t.split('\n\n')
        if not left.strip() or not right.strip(): continue
        ls = raw.rfind('\n', 0, a) + 1; m = re.match(r'(#+) ', raw[ls:])
        hd = (m.group(1) if m else '#') + ' '
        new = rng.choice(['X', '', left + ' ' + right, left.upper() + '\n\n' + right, hd + 'New Title\n\nNew body', hd + 'Only', '## Sub\nmore',
                          left + '\n\nmid\n\n' + right, 'plain **bold** join'])
        return (t, new, rng.choice([None, 'cross']), None)
    return None

def gen_batch(rng, din, raw, clean, kind='exact'):
    """returns list of (target, new, comment, index)"""
    acc = [t for t in para_texts(din, 'acc') if len(t.strip()) > 1]
    edits = []
    if kind == 'exact':
        for _ in range(rng.randint(1, 3)):
            if not acc: break
            if rng.random() < .15: NL_TARGETS.append(1)
            t = pick_target(rng, rng.choice(acc))
            del NL_TARGETS[:]
            if not t: continue
            edits.append((t, variants(rng, t) if '\n' not in t else rng.choice(['X', '', t.replace('\n', ' ') + ' more']), rng.choice([None, None, 'because ' + t[:5]]), None))
        if acc and rng.random() < .15:          # an insertion right at the start of a paragraph / story (the target is the paragraph's head, the new text extends it to the left)
            starts = [t for t in story_starts(din) if len(t.strip()) > 1]
            base = rng.choice(starts) if starts and rng.random() < .5 else rng.choice(acc); h = base[:rng.randint(2, 10)]
            if h.strip() and '\n' not in h: edits.append((h, rng.choice(['In short, ', 'Pre ', 'X']) + h, rng.choice([None, 'c']), None))
        if rng.random() < .3:                   # ... and the same at a story start whose first run is bold: the target is quoted with its markers, so the insertion point lies on virtual text
            for st in din['stories'][1:]:
                ps = list(A.paras({'stories': [st]}))
                if ps and ps[0]['nodes'] and ps[0]['nodes'][0][0] == 'run':
                    r0 = ps[0]['nodes'][0]; tx = ''.join(k[1] for k in r0[3] if k[0] == 't')
                    if tx.strip() and len(r0[3]) == 1 and any(x[0] == 1 and x[1] >= 1 for x in (r0[2] or [])) and not any(x[0] == 2 and x[1] >= 1 for x in (r0[2] or [])):
                        t = '**%s**' % tx
                        if raw.count(t) == 1: edits.append((t, 'In short, ' + t, None, None)); break
        if acc and rng.random() < .2:           # two targets that touch (no character between them), in either order of the batch
            base = rng.choice(acc)
            if len(base) >= 6 and '\n' not in base:
                a = rng.randrange(0, len(base) - 4); b = rng.randint(a + 1, min(len(base) - 2, a + 8)); c_ = rng.randint(b + 1, min(len(base), b + 8))
                t1, t2 = base[a:b], base[b:c_]
                if t1.strip() and t2.strip():
                    pair = [(t1, rng.choice(['L', t1.upper(), '']), None, None), (t2, rng.choice(['R', t2 + '!', 'new']), None, None)]
                    if rng.random() < .5: pair.reverse()
                    edits = pair
        if acc and raw and rng.random() < .2: edits.append(virtual_first(rng, raw, acc))
        if raw and rng.random() < .15: edits.append(cross_para(rng, raw))
    elif kind == 'mixed':
        if acc and raw and rng.random() < .15: edits.append(virtual_first(rng, raw, acc))
        if raw and rng.random() < .12: edits.append(cross_para(rng, raw))
        for _ in range(rng.randint(1, 4)):
            x = rng.random()
            if x < .5 and acc:
                t = pick_target(rng, rng.choice(acc))
                if t: edits.append((t, variants(rng, t), rng.choice([None, 'note']), None))
            elif x < .6: edits.append(('', 'inserted from nowhere', None, None))
            elif x < .75: edits.append(('text that is not in the document %d' % rng.randint(0, 99), 'y', rng.choice([None, 'c']), None))
            elif x < .85 and edits: edits.append(edits[rng.randrange(len(edits))])                       # duplicate
            elif acc:
                base = rng.choice(acc)
                t = pick_target(rng, base, 20)
                if t and len(t) > 3:                                                                      # overlapping pair
                    edits.append((t, 'first', None, None)); edits.append((t[len(t) // 2:], 'second', None, None))
            if rng.random() < .25:                                                                       # target inside tracked-deleted text, crossing run boundaries
                dels = [n for p in A.paras(din) for n in p['nodes'] if n[0] == 'del']
                if dels:
                    n = rng.choice(dels); txt = ''.join(k[1] for r in n[3] if r[0] == 'run' for k in r[3] if k[0] == 'dt')
                    if len(txt) > 3:
                        a = rng.randrange(len(txt) - 2); t = txt[a:a + rng.randint(2, len(txt) - a)]
                        if '\n' not in t: edits.append((t, 'undeleted', None, None))
            if rng.random() < .35 and raw:                                                               # raw-view target straddling the boundary of a tracked deletion / insertion
                ms = list(re.finditer(r'\{--|--\}|\{\+\+|\+\+\}', raw))
                if rng.random() < .6: ms = [m for m in ms if m.group(0) == '{--' and m.start() > 0 and raw[m.start() - 1] not in '}\n'] or ms      # live text running into a deletion
                if ms:
                    m = rng.choice(ms); a = max(0, m.start() - rng.randint(1, 6)); t = raw[a:m.end() + rng.randint(1, 6)]
                    if '\n' not in t: edits.append((t, rng.choice(['straddle', '']), None, None))
            if rng.random() < .06: edits.append((rng.choice(['# ', '## ', '#', '###  ']), 'marker-only target', rng.choice([None, 'c']), None))   # nothing to look for
            if acc and rng.random() < .12:                                                               # plain text quoted with Markdown markers it does not carry (the Markdown-stripped matcher stage)
                t = pick_target(rng, rng.choice(acc))
                if t and re.fullmatch(r'\w[\w ]*\w', t): edits.append((rng.choice(['**%s**', '_%s_', '__%s__', '# %s', '*%s*']) % t, rng.choice(['MD ' + t, '**%s** more' % t, '']), rng.choice([None, 'c']), None))
            if rng.random() < .1 and raw:                                                                # target taken from the raw view (may include markup)
                a = rng.randrange(len(raw)); t = raw[a:a + rng.randint(2, 12)]
                if '\n' not in t: edits.append((t, 'rawrepl', None, None))
        if acc and any(q in a for a in acc for q in '"“’\''):                                   # a quoted term / possessive named in the OTHER quote style (the smart-quote matcher stage); own generator, the main stream is not consumed
            qr = random.Random(len(raw) * 7919 + len(edits))
            qs = [m for a in acc for m in re.finditer(r'(?:["“]\w+["”]|\w+[\'’]s)(?: \w+)?', a)]
            if qs and qr.random() < .7:
                t = qr.choice(qs).group(0)
                if any(ord(c) > 0x2000 for c in t): sw = t.translate({0x201c: '"', 0x201d: '"', 0x2019: "'"})
                else: sw = re.sub(r'"(\w+)"', '“\\1”', t).replace("'", '’')
                if sw != t: edits.append((sw, qr.choice(['quoted', sw + ' indeed', '']), qr.choice([None, 'q']), None))
        if raw and rng.random() < .15:                                                                   # the same target at the very start of the document twice (conflict at offset 0)
            m = re.match(r'[A-Za-z0-9\u00c0-\u024f]+', raw)
            if m and len(m.group(0)) >= 2: edits += [(m.group(0), m.group(0) + ' very', None, None)] * 2
        if raw and rng.random() < .15:                                                                   # an offset-addressed edit, sometimes at offset 0
            m = re.match(r'[A-Za-z0-9\u00c0-\u024f]+', raw)
            if m and rng.random() < .6: edits.append((m.group(0), 'FIRST', None, 0))
            else:
                ws = [w for w in re.finditer(r'[A-Za-z0-9]{3,}', raw)]
                if ws: w = rng.choice(ws); edits.append((w.group(0), 'IDX', rng.choice([None, 'c']), w.start()))
        rng.shuffle(edits)
    elif kind == 'blocks':
        if raw and rng.random() < .2: edits.append(cross_para(rng, raw))
        for _ in range(rng.randint(1, 2)):
            if not acc: break
            t = pick_target(rng, rng.choice(acc))
            if t: edits.append((t, rng.choice(BLOCK_NEWS).replace('{t}', t), rng.choice([None, 'why']), None))
        if rng.random() < 0.25 and raw:      # an offset-addressed pure insertion of block text
            edits = [('', rng.choice(BLOCK_NEWS).replace('{t}', 'ins'), rng.choice([None, 'c']), 0 if rng.random() < .3 else rng.randrange(len(raw) + 1))]
    return [e for e in edits if e is not None]

BLOCK_NEWS = ['{t}\nsecond line', '# Heading\nbody line', '## Sub {t}', 'line one\n\nline two', '{t}\n', '\n{t}', '# A\n#\nB',
              'x\r\n## H two\ny **b** z', '# Only', '#nospace\nnext', 'a\n# mid _i_\nb', '# **Bold** head\nplain _it_ line\n']
# ----------------------------------------------------------------------------- running
def quote_cases(rng, n=12):
    """targeted documents for the smart-quote matcher stage: one term in typographic and in straight quotes in two paragraphs (either order), the
    occurrence the edit names optionally split by another author's tracked deletion / insertion (then it is exact in the accepted view only, while the
    quote-normalised raw-view search finds the OTHER paragraph first), the target in its own or in the other spelling"""
    out = []
    for k in range(n):
        term = rng.choice(['Fee', 'Term', 'Goods']); verb = rng.choice(['shall', 'means', 'will'])
        typo, plain = '“%s”' % term, '"%s"' % term
        first_typo = k % 2 == 0; split = ['del', 'ins', None][(k // 2) % 3]; named = [plain, typo][(k // 6) % 2]
        uid = [0]
        def run(t): uid[0] += 1; return ['run', uid[0], None, [['t', t]]]
        def para(pid, q):
            nodes = [run('The %s ' % q)]
            if q == named and split == 'del':
                uid[0] += 2; nodes.append(['del', uid[0], ['7', 'Earlier Reviewer', '2024-01-01T00:00:00Z'], [['run', uid[0] - 1, None, [['dt', 'not ']]]]])
            if q == named and split == 'ins':
                uid[0] += 2; nodes.append(['ins', uid[0], ['7', 'Earlier Reviewer', '2024-01-01T00:00:00Z'], [['run', uid[0] - 1, None, [['t', 'hereby ']]]]])
            nodes.append(run('%s be paid monthly%d.' % (verb, pid)))
            return {'t': 'p', 'pid': pid, 'ppr': 0, 'style': ['N', False], 'nodes': nodes}
        qs = [typo, plain] if first_typo else [plain, typo]
        blocks = [para(1, qs[0]), para(2, qs[1])]
        if k % 4 == 3:
            # the term stands in ONE spelling only, first inside another author's tracked deletion, then in live text; the target names it in the other
            # spelling: the exact stage finds nothing, the quote stage must pass over the deleted occurrence and take the live one
            other = plain if named == typo else typo; uid[0] += 2
            gone = {'t': 'p', 'pid': 1, 'ppr': 0, 'style': ['N', False], 'nodes': [run('Before '), ['del', uid[0], ['8', 'Earlier Reviewer', '2024-01-01T00:00:00Z'], [['run', uid[0] - 1, None, [['dt', '%s %s ' % (other, verb)]]]]], run('after.')]}
            split = None; blocks = [gone, {'t': 'p', 'pid': 2, 'ppr': 0, 'style': ['N', False], 'nodes': [run('The %s %s be paid monthly2.' % (other, verb))]}]
        d = {'stories': [{'kind': 1, 'blocks': blocks}], 'comments': [], 'next_uid': uid[0] + 1000, 'rpr_table': docgen.Gen(rng).table_list(), 'style_ids': 'en', 'features': ['quote_pair']}
        # the target as the reader of the accepted view sees it (a pending insertion is part of that text, a deletion is not)
        t = '%s %s%s' % (named, 'hereby ' if split == 'ins' else '', verb)
        out.append((d, [(t, t.replace(verb, 'must'), rng.choice([None, 'q']), None)]))
    return out

def work(job):
    b, edits = job
    return docrun.engine_edits(b, edits, AUTHOR)

def run_cases(cases):
    """cases: [(doc, edits)] -> list of dict(d, b, din, edits, r (impl result), model (ap, sk, out, doc) | None)"""
    blobs = [A.build(d) for d, _ in cases]
    with Pool(core.NPROC, initializer=docrun.impl_init) as pool:
        res = pool.map(work, [(b, e) for b, (d, e) in zip(blobs, cases)], chunksize=8)
    out = []
    dins = [A.read(b, table=list(d['rpr_table'])) for b, (d, _) in zip(blobs, cases)]
    lines = [docrun.sx_edits_line(din, AUTHOR, e, r['oracle']) for din, (d, e), r in zip(dins, cases, res)]
    mo = core.run_driver('edits', lines)
    for (d, e), b, din, r, m in zip(cases, blobs, dins, res, mo):
        model = None
        if '|' in m:
            cnt, md = m.split('|', 1); ap, sk, o, nn, xp = map(int, cnt.split())
            model = (ap, sk, o, A.un_doc(A.sx_parse(md)))
        else: model = ('ERR', m)
        out.append({'d': d, 'b': b, 'din': din, 'edits': e, 'r': r, 'model': model, 'nn': nn if '|' in m else 0, 'xp': xp if '|' in m else 0})      # nn: nested-insertion replacements in the model's run
    return out

def correspondence(ck, c):
    """model vs implementation on one case; returns 'inside' | 'outside' | 'broken'"""
    r = c['r']; m = c['model']
    case = case_of(c)
    if m[0] != 'ERR' and m[2]: c['outside'] = m[2]
    if r['err']: return 'impl_error'
    if hasattr(ck, 'cov'): ck.cov['matcher_calls_answered_by_the_modelled_quote_stage'] = ck.cov.get('matcher_calls_answered_by_the_modelled_quote_stage', 0) + r.get('qhits', 0)
    if 'CONTRACT' in r['oracle']:
        ck.corr_broken.append(('matcher contract: find_match_index returned an out-of-range result', case)); return 'broken'
    if 'CONTRACT2' in r['oracle']:
        ck.violation('oracle', case, 'an approximate matcher stage answered with a range whose text is not the target (up to Markdown markers, quote style and whitespace): the edit is applied to other text than the one it names'); return 'broken'
    if m[0] == 'ERR':
        ck.corr_broken.append(('model driver failed: ' + str(m[1])[:200], case)); return 'broken'
    ap, sk, outside, md = m
    if outside: c['outside'] = outside; return 'outside'
    dout = docrun.canon_session(A.read(r['out'], table=c['din']['rpr_table']), c['din'])
    c['dout'] = dout
    if (ap, sk) != (r['ap'], r['sk']):
        ck.corr_broken.append(('Engine.apply_edits counts vs RedlineEngine.apply_edits', dict(case, model=[ap, sk], impl=[r['ap'], r['sk']]))); return 'broken'
    sm, si = docrun.doc_shape(md), docrun.doc_shape(dout)
    if sm != si:
        ck.corr_broken.append(('Engine.apply_edits vs RedlineEngine.apply_edits (run structure of the saved document)', dict(case, diff=docrun.first_diff(sm, si)))); return 'broken'
    if docrun.comments_key(md) != docrun.comments_key(dout):   # (comment text is compared stripped, as the reader reads it)
        ck.corr_broken.append(('Engine.apply_edits vs RedlineEngine.apply_edits (comment records)', dict(case, model=docrun.comments_key(md), impl=docrun.comments_key(dout)))); return 'broken'
    return 'inside'

def case_of(c):
    return {'doc': A.doc_core(c['d']), 'edits': [list(e) for e in c['edits']]}

# ----------------------------------------------------------------------------- oracles on the real output
def session_reject(dout, din, author=AUTHOR):
    """drop the session's insertions (and paragraphs made only of them), restore its deletions, remove its comments"""
    old_c = {c['id'] for c in din['comments']}
    def is_sess(m): return m[1] == author and m[2] == 'SESSION'
    def rej_nodes(nodes):
        out = []
        for n in nodes:
            if n[0] == 'ins':
                if is_sess(n[2]): continue
                out.append([n[0], n[1], n[2], rej_nodes(n[3])])
            elif n[0] == 'del':
                inner = rej_nodes(n[3])
                if is_sess(n[2]): out += [['run', x[1], x[2], [['t', k[1]] if k[0] == 'dt' else k for k in x[3]]] if x[0] == 'run' else x for x in inner]
                else: out.append([n[0], n[1], n[2], inner])
            elif n[0] in ('crs', 'cre'):
                if n[1] in old_c: out.append(n)
            elif n[0] == 'run':
                kids = [k for k in n[3] if not (k[0] == 'ref' and k[1] not in old_c)]
                if kids or not n[3]: out.append(['run', n[1], n[2], kids])
                elif n[3] and not kids: pass          # the session's comment-reference run
            else: out.append(n)
        return out
    def only_session(p):
        """the paragraph consists of this session's insertions (at least one), anchors and reference runs of this session's comments"""
        has_ins = False
        for n in p['nodes']:
            if n[0] == 'ins' and is_sess(n[2]): has_ins = True
            elif n[0] in ('crs', 'cre') and n[1] not in old_c: pass
            elif n[0] == 'run' and n[3] and all(k[0] == 'ref' and k[1] not in old_c for k in n[3]): pass
            else: return False
        return has_ins
    def go(bl):
        out = []
        for b in bl:
            if b['t'] == 'p':
                if only_session(b): continue
                out.append(dict(b, nodes=rej_nodes(b['nodes'])))
            else: out.append(dict(b, rows=[[dict(c, blocks=go(c['blocks'])) for c in r] for r in b['rows']]))
        return out
    return {'stories': [dict(s, blocks=go(s['blocks'])) for s in dout['stories']], 'comments': [c for c in dout['comments'] if c['id'] in old_c]}

def strip_pid(tp):
    return json.loads(json.dumps(tp))
def tape_nopid(doc):
    def pf(p): return ('p', p['ppr'], tuple(p['style']), [a for a in A.atoms(p['nodes']) if not (a[0] == 'sp' and a[1] == 1 and a[2] is None)])
    return [(s['kind'], A.map_paras(s['blocks'], pf)) for s in doc['stories']]

def oracle_C01(c):
    if c['r']['err']: return 'apply_edits raised ' + c['r']['err']
    dout = c.get('dout') or docrun.canon_session(A.read(c['r']['out'], table=c['din']['rpr_table']), c['din']); c['dout'] = dout
    back = session_reject(dout, c['din'])
    a, b = tape_nopid(back), tape_nopid(c['din'])
    if a != b: return 'rejecting the session does not give back the input: ' + json.dumps(docrun.first_diff(b, a))[:700]
    ck = lambda d: sorted((x['id'], x['author'], x.get('date') or '', x['text'], x.get('parent')) for x in d['comments'])
    if ck(back) != ck(c['din']): return 'earlier comments changed: %s vs %s' % (ck(back), ck(c['din']))
    return None

def exact_unique(c, raw, clean):
    """the C02 precondition for the whole batch; returns list of (para index, start, target, new) or None"""
    acc = para_texts(c['din'], 'acc'); out = []
    for t, n, cm, idx in c['edits']:
        if not t or '\n' in n or '\r' in n or n.startswith('#'): return None
        hits = [(i, m.start()) for i, p in enumerate(acc) for m in re.finditer('(?=%s)' % re.escape(t), p)]      # (overlapping occurrences count)
        if len(hits) != 1: return None
        # the reader must see it exactly once (raw view first, accepted view as fallback), also with whitespace runs collapsed
        if raw.count(t) > 1: return None
        if raw.count(t) == 0 and clean.count(t) != 1: return None
        # an occurrence that the raw view shows only inside tracked-deleted text is not a piece of the text that can be edited
        if clean.count(t) == 0 and re.sub(r'\{--.*?--\}', '\x00', raw, flags=re.S).count(t) == 0: return None
        col = lambda s: re.sub(r'\s+', ' ', s)
        if col(raw).count(col(t)) > 1 or (raw.count(t) == 0 and col(clean).count(col(t)) != 1): return None
        out.append((hits[0][0], hits[0][1], t, n))
    sp = sorted((i, s, s + len(t)) for i, s, t, n in out)
    if any(sp[k][0] == sp[k + 1][0] and sp[k][2] > sp[k + 1][1] for k in range(len(sp) - 1)): return None
    return out

def oracle_C02(c, raw, clean):
    eu = exact_unique(c, raw, clean)
    if eu is None: return None, False
    r = c['r']
    if r['err']: return 'apply_edits raised ' + r['err'], True
    if r['sk'] != 0 or r['ap'] != len(c['edits']): return 'exact, unique, non-overlapping targets but applied=%d skipped=%d of %d' % (r['ap'], r['sk'], len(c['edits'])), True
    dout = c.get('dout') or docrun.canon_session(A.read(r['out'], table=c['din']['rpr_table']), c['din']); c['dout'] = dout
    acc_in = para_texts(c['din'], 'acc'); exp = list(acc_in)
    for i in set(i for i, s, t, n in eu):
        txt = acc_in[i]
        for _, s, t, n in sorted((e for e in eu if e[0] == i), key=lambda e: -e[1]):
            txt = txt[:s] + literal(n) + txt[s + len(t):]
        exp[i] = txt
    got = para_texts(dout, 'acc')
    if got != exp:
        k = next((j for j in range(min(len(got), len(exp))) if got[j] != exp[j]), min(len(got), len(exp)))
        return 'accepting the changes gives %r in paragraph %d, expected %r' % (got[k] if k < len(got) else None, k, exp[k] if k < len(exp) else None), True
    return None, True

def oracle_C08(c):
    r = c['r']; n = len(c['edits'])
    if r['err']: return 'apply_edits raised ' + r['err']
    if r['ap'] + r['sk'] != n: return 'applied (%d) + skipped (%d) != submitted (%d)' % (r['ap'], r['sk'], n)
    empty = [o for o in r['oracle'] if isinstance(o, list) and o[1] == 0]
    if empty and r['ap']: return 'a non-empty target was "located" at an empty range (offset %d) by a non-exact matcher stage: a target that cannot be located must be skipped, not applied as an insertion there' % empty[0][0]
    dout = c.get('dout') or docrun.canon_session(A.read(r['out'], table=c['din']['rpr_table']), c['din']); c['dout'] = dout
    iss = [i for i in docrun.struct_issues(r['out']) if 'nested' in i]
    if iss: return 'a revision mark is nested inside another: ' + iss[0]
    if r['ap'] == 0:
        if tape_nopid(dout) != tape_nopid(c['din']): return 'every edit was skipped but the content changed: ' + json.dumps(docrun.first_diff(tape_nopid(c['din']), tape_nopid(dout)))[:500]
        if docrun.comments_key(dout) != docrun.comments_key(c['din']): return 'every edit was skipped but comments changed'
    acc_in = ''.join(x + '\n' for x in para_texts(c['din'], 'acc')); acc_out = ''.join(x + '\n' for x in para_texts(dout, 'acc'))
    if all('\n' not in (e[1] or '') and not (e[1] or '').startswith('#') for e in c['edits']) and n <= 5 and all(o is None for o in r['oracle']) and not r.get('qhits'):
        # (only when no edit was located by the quote-normalising / Markdown-stripping / fuzzy stages: those apply the edit at a place plain string search cannot name)
        ok = False
        for k in range(n + 1):
            if k != r['ap']: continue
            for sub in itertools.combinations(range(n), k):
                txt = acc_in; good = True
                # apply the subset on the accepted text, each target at its unique place, right to left
                places = []
                for j in sub:
                    t, nw = c['edits'][j][0], c['edits'][j][1]
                    if not t or txt.count(t) == 0: good = False; break
                    places.append((acc_in.find(t), t, literal(nw)))
                if not good: continue
                places.sort(reverse=True)
                if any(places[i][0] < places[i + 1][0] + len(places[i + 1][1]) for i in range(len(places) - 1)): continue
                for s, t, nw in places: txt = txt[:s] + nw + txt[s + len(t):]
                if txt == acc_out: ok = True; break
            if ok: break
        raw_in = c.get('raw_in', '')
        occ = lambda t, txt: len(re.findall('(?=%s)' % re.escape(t), txt))      # occurrences, overlapping ones included
        if not ok and all(e[0] and (occ(e[0], acc_in) == 1 or (occ(e[0], acc_in) == 0 and e[0] not in raw_in)) for e in c['edits']):
            return 'the accepted result %r is not the input %r with any non-conflicting subset of %d submitted edits applied' % (acc_out[:200], acc_in[:200], r['ap'])
    return None

ISO = re.compile(r'^\d{4}-\d{2}-\d{2}T\d{2}:\d{2}:\d{2}(\.\d+)?(Z|[+-]\d{2}:\d{2})?$')
def oracle_C09(c):
    r = c['r']
    if r['err']: return None
    out = r['out']
    iss = docrun.struct_issues(out)
    if iss: return iss[0]
    ids_in = docrun.rev_ids_by_part(c['b']); ids_out = docrun.rev_ids_by_part(out)
    for part, l in ids_out.items():
        # an id identifies one change (a w:del / w:ins pair may share it in the input); session marks must not reuse any id
        old = {i for _, i, _, _ in ids_in.get(part, [])}
        new = [(k, i, a, d) for k, i, a, d in l if a == AUTHOR and d == r['ts']]
        for k, i, a, d in new:
            if i in old: return '%s: session mark reuses existing revision id %s' % (part, i)
            if not ISO.match(d or ''): return '%s: session mark has a non ISO-8601 date %r' % (part, d)
        newids = [i for _, i, _, _ in new]
        if len(set(newids)) != len(newids): return '%s: session marks share an id: %s' % (part, newids)
    return package_issues(c['b'], out)

def package_issues(b_in, b_out):
    z = zipfile.ZipFile(io.BytesIO(b_out)); names = set(z.namelist())
    ct = etree.fromstring(z.read('[Content_Types].xml'))
    for o in ct:
        pn = o.get('PartName')
        if pn and pn.lstrip('/') not in names: return 'content type entry for missing part %s' % pn
    for n in names:
        if n.endswith('.rels'):
            base = n.replace('_rels/', '').rsplit('.rels', 1)[0]; basedir = base.rsplit('/', 1)[0] if '/' in base else ''
            for rel in etree.fromstring(z.read(n)):
                if rel.get('TargetMode') == 'External': continue
                t = rel.get('Target'); full = t.lstrip('/') if t.startswith('/') else (basedir + '/' + t if basedir else t)
                parts = []
                for seg in full.split('/'):
                    if seg == '..': parts.pop()
                    elif seg != '.': parts.append(seg)
                if '/'.join(parts) not in names: return 'relationship %s in %s points to a missing part %s' % (rel.get('Id'), n, t)
    # comments: ids unique; every new comment listed once in the auxiliary parts with consistent paraIds
    cparts = [n for n in names if re.match(r'word/comments\d*\.xml$', n) or n in A.comment_part_names(z)]
    for cp in set(cparts):
        root = etree.fromstring(z.read(cp)); ids = [e.get(A.q('id')) for e in root.findall(A.q('comment'))]
        if len(set(ids)) != len(ids): return '%s: duplicate comment ids %s' % (cp, sorted(i for i in set(ids) if ids.count(i) > 1))
    return None

def oracle_C10(c, raw_out):
    r = c['r']
    if r['err']: return None
    dout = c.get('dout') or docrun.canon_session(A.read(r['out'], table=c['din']['rpr_table']), c['din']); c['dout'] = dout
    old = {x['id']: x for x in c['din']['comments']}
    for x in c['din']['comments']:
        y = next((k for k in dout['comments'] if k['id'] == x['id']), None)
        if y is None or (y['author'], y['text'], y.get('parent')) != (x['author'], x['text'], x.get('parent')): return 'existing comment %s changed or vanished' % x['id']
    new = [x for x in dout['comments'] if x['id'] not in old]
    commented = [e for e in c['edits'] if e[2]]
    if r['sk'] == 0 and len(new) != len(commented) and all(e[0] != e[1] for e in c['edits']):
        # no-op edits (target == new) are applied without a change; they carry no comment
        return '%d edits with a comment were applied but %d new comments exist' % (len(commented), len(new))
    if len(new) > len(commented): return 'more new comments (%d) than commented edits (%d)' % (len(new), len(commented))
    texts = sorted(e[2].strip() for e in commented)
    for x in new:
        if x['author'] != AUTHOR: return 'new comment %s has author %r' % (x['id'], x['author'])
        if x['text'] not in texts: return 'new comment %s has unexpected text %r' % (x['id'], x['text'])
        # anchored on the change: its range must cover at least one session mark
        cov = False; seen = False
        for p in A.paras(dout):
            inside = False
            for n in p['nodes']:
                if n == ['crs', x['id']]: inside = True; seen = True
                elif n == ['cre', x['id']]: inside = False
                elif inside and n[0] in ('ins', 'del') and n[2][1] == AUTHOR and n[2][2] == 'SESSION': cov = True
        if not seen: return 'new comment %s has no range in the text' % x['id']
        if not cov: return 'the range of new comment %s does not cover any revision mark of its edit' % x['id']
        # shown with the change in the raw view
        m = [blk for blk in re.findall(r'\{>>(.*?)<<\}', raw_out, re.S) if '[Com:%s]' % x['id'] in blk]
        if not m: return 'new comment %s is not shown in the raw view' % x['id']
        if not any('[Chg:' in blk for blk in m): return 'new comment %s is shown apart from the change it explains' % x['id']
    return None

def session_only_para(p, old_c):
    has_ins = False
    for n in p['nodes']:
        if n[0] == 'ins' and n[2][1] == AUTHOR and n[2][2] == 'SESSION': has_ins = True
        elif n[0] in ('crs', 'cre') and n[1] not in old_c: pass
        elif n[0] == 'run' and n[3] and all(k[0] == 'ref' and k[1] not in old_c for k in n[3]): pass
        else: return False
    return has_ins
def oracle_C16_block(c, dout, new):
    """multi-line / heading new text: every new paragraph holds one line; its runs share the character formatting of one
    original run; '# ' lines are heading-styled paragraphs; markers of well-formed spans do not appear, the spans are bold"""
    old_c = {x['id'] for x in c['din']['comments']}
    fm = lambda x: tuple(sorted((tv[0], tv[1]) for tv in (x[2] or []) if tv[0] >= 100))
    orig = set()
    for p in A.paras(c['din']):
        for n in p['nodes']:
            for x in ([n] if n[0] == 'run' else [y for y in n[3] if y[0] == 'run'] if n[0] in ('ins', 'del') else []):
                if any(k[0] in ('t', 'dt') and k[1] for k in x[3]): orig.add(fm(x))
    newp = [p for p in A.paras(dout) if session_only_para(p, old_c)]
    lines = re.split(r'[\r\n]+', new)
    for p in newp:
        runs = [x for n in p['nodes'] if n[0] == 'ins' for x in n[3] if x[0] == 'run']
        fs = {fm(x) for x in runs}
        txt = ''.join(k[1] for x in runs for k in x[3] if k[0] == 't')
        if len(fs) > 1: return 'the runs of the inserted line %r carry different character formatting: %r' % (txt, sorted(fs, key=str))
        if fs and not (fs <= orig): return 'the inserted line %r carries formatting %r that no original text has' % (txt, sorted(fs, key=str))
        if p['style'][0] == 'H':
            if not any(re.match(r'#{%d} ' % p['style'][1], l) for l in lines) and not any(q['style'] == p['style'] for q in A.paras(c['din'])):
                return 'a heading paragraph of level %d was created but no line of the new text asks for it and no paragraph of the input has that style' % p['style'][1]
    texts = [''.join(k[1] for n in p['nodes'] if n[0] == 'ins' for x in n[3] if x[0] == 'run' for k in x[3] if k[0] == 't') for p in newp]
    for i, l in enumerate(lines):
        m = re.match(r'(#+) (.*)$', l)
        if i == 0 or not m or len(m.group(1)) > 9: continue
        want = literal(m.group(2).strip()); k = len(m.group(1))
        cands = [(p, tx) for p, tx in zip(newp, texts) if p['style'] == ['H', k]]
        if not any(want == tx or (i == len(lines) - 1 and tx and want.startswith(tx)) for p, tx in cands):
            return 'the line %r did not become a heading paragraph of level %d with its text (heading paragraphs: %r)' % (l, k, [tx for p, tx in cands])
    m = re.match(r'(#+) (.*)$', lines[0])
    tgt = next((e[0] for e in c['edits'] if e[1] == new), '')
    if m and len(m.group(1)) <= 9 and literal(m.group(2).strip()) and len(lines) > 1 and tgt[:1] != new[:1]:
        # (context trimming cannot have shortened this first line: the target does not begin like it, and the common suffix lies in
        # a later line.)  The line may stay in the current paragraph - when that paragraph has the heading style asked for; either
        # way, once accepted, its text stands in a heading paragraph of that level
        want = literal(m.group(2).strip()); k = len(m.group(1))
        if not any(p['style'] == ['H', k] and want in tx for p, tx in zip(A.paras(dout), para_texts(dout, 'acc'))):
            return 'the heading line %r does not stand in a heading paragraph of level %d once the change is accepted' % (lines[0], k)
    for i, l in enumerate(lines):
        if i == 0 or i == len(lines) - 1: continue          # first / last line may be shortened by context trimming
        for m in re.finditer(r"\*\*(?=[^\s*])(.*?[^\s*])?\*\*", l):
            inner = literal(m.group(0)[2:-2])
            if not inner: continue
            ok = any(inner in ''.join(k[1] for k in x[3] if k[0] == 't') and any(tv[0] == 1 and tv[1] != 0 for tv in (x[2] or []))
                     for p in newp for n in p['nodes'] if n[0] == 'ins' for x in n[3] if x[0] == 'run')
            if not ok: return 'the bold span %r of an inserted line was not rendered as a bold run' % inner
    if any('**' in tx for tx in texts) and '**' not in literal(new): return 'Markdown markers appear in the inserted paragraphs %r' % texts
    return None
def oracle_C16(c):
    """formatting of the characters inside the session's w:ins"""
    r = c['r']
    if r['err']: return None
    dout = c.get('dout') or docrun.canon_session(A.read(r['out'], table=c['din']['rpr_table']), c['din']); c['dout'] = dout
    if len(c['edits']) != 1 or r['ap'] != 1: return None
    t, new, cm, idx = c['edits'][0]
    if '\n' in new or '\r' in new or new.startswith('#'): return oracle_C16_block(c, dout, new)
    for p in A.paras(dout):
        sess = [n for n in p['nodes'] if n[0] == 'ins' and n[2][1] == AUTHOR and n[2][2] == 'SESSION']
        if not sess: continue
        orig_fmts = set()
        for n in p['nodes']:
            runs = [n] if n[0] == 'run' else ([x for x in n[3] if x[0] == 'run'] if n[0] in ('ins', 'del') and not (n[0] == 'ins' and n in sess) else [])
            for x in runs:
                if any(k[0] in ('t', 'dt') and k[1] for k in x[3]): orig_fmts.add(tuple(sorted((tv[0], tv[1]) for tv in (x[2] or []) if tv[0] >= 100)))
        ins_text = ''.join(k[1] for n in sess for x in n[3] if x[0] == 'run' for k in x[3] if k[0] == 't')
        for n in sess:
            for x in n[3]:
                if x[0] != 'run': continue
                f = tuple(sorted((tv[0], tv[1]) for tv in (x[2] or []) if tv[0] >= 100))          # font, size, colour, style: everything but the b/i toggles
                if f not in orig_fmts:
                    return 'inserted run %r carries formatting %r that no original text of the paragraph has (%r)' % (''.join(k[1] for k in x[3] if k[0] == 't'), x[2], sorted(orig_fmts, key=str))
                txt = ''.join(k[1] for k in x[3] if k[0] == 't')
        lit = literal(new)
        if lit != new:      # well-formed spans: markers must not appear, marked text must be bold/italic
            if '**' in ins_text and '**' not in lit: return 'Markdown markers appear in the inserted text %r' % ins_text
            for m in re.finditer(r"\*\*(?=[^\s*])(.*?[^\s*])?\*\*", new):
                inner = literal(m.group(0)[2:-2])
                ok = any(inner in ''.join(k[1] for k in x[3] if k[0] == 't') and any(tv[0] == 1 and tv[1] != 0 for tv in (x[2] or [])) for n in sess for x in n[3] if x[0] == 'run')
                if inner and not ok and inner in ins_text: return 'the bold span %r was not rendered as a bold run' % inner
    return None
